#!/bin/sh
# usage: tools/sweep.sh <tier> <seeds...>   (developer tool: runs every check for several seeds, prints one line each)
TIER=$1; shift
cd "$(dirname "$0")/.."
for S in "$@"; do
  for C in C01 C02 C03 C04 C05 C06 C07 C08 C09 C10 C11 C12 C13 C14 C15 C16 C17 C18 C19 C20; do
    START=$(date +%s)
    OUT=$(VERIF_SEED=$S bin/check $C --tier $TIER 2>&1); RC=$?
    END=$(date +%s)
    echo "seed=$S $C rc=$RC $((END-START))s $(echo "$OUT" | grep -E "^(VIOLATION|INCONCLUSIVE)" | head -2 | tr '\n' ' ')"
    if [ $RC -ne 0 ]; then echo "$OUT" | grep -A1 VIOLATION | head -6; fi
  done
done
