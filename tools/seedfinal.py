#!/usr/bin/env python3
"""Re-run, with the current checks, the check of the targeted property for every stored seeded change
(patch.diff applied to a scratch copy of /repo) and record the outcome in meta.json (developer tool)."""
import concurrent.futures, glob, json, os, shutil, subprocess, sys, tempfile

def one(d):
    name = os.path.basename(d)
    meta = json.load(open(os.path.join(d, "meta.json")))
    pid = meta["property"]
    tmp = tempfile.mkdtemp(prefix="sf_")
    try:
        dst = os.path.join(tmp, "repo")
        shutil.copytree("/repo", dst, ignore=shutil.ignore_patterns(".git", "__pycache__", "__pkts__"))
        r = subprocess.run(["patch", "-p1", "-d", dst, "-i", os.path.join(d, "patch.diff")], capture_output=True, text=True)
        if r.returncode:
            return name, None, ["patch failed"]
        env = dict(os.environ, BVF_REPO=dst, BVF_EVIDENCE_DIR=os.path.join(tmp, "ev"), BVF_REPLAY_DIR=os.path.join(tmp, "rp"), BVF_PAR="4")
        r = subprocess.run(["/verif/bin/check", pid, "--tier", "quick"], env=env, capture_output=True, text=True, timeout=3000)
        lines = [l.strip() for l in r.stdout.splitlines() if l.strip().startswith(("what:", "INCONCLUSIVE"))][:2]
        return name, r.returncode, lines
    finally:
        shutil.rmtree(tmp, ignore_errors=True)

dirs = sorted(glob.glob("/verif/seeded/C*-*"))
if len(sys.argv) > 1:
    dirs = [d for d in dirs if os.path.basename(d) in sys.argv[1:]]
with concurrent.futures.ThreadPoolExecutor(max_workers=6) as ex:
    for name, rc, lines in ex.map(one, dirs):
        mp = "/verif/seeded/%s/meta.json" % name
        m = json.load(open(mp))
        seed = os.environ.get("VERIF_SEED")
        if seed not in (None, "", "0"):
            # robustness pass with another seed: recorded separately, the table keeps the seed-0 outcome
            m.setdefault("own_check_other_seeds", {})[seed] = rc
        else:
            m["own_check_final"] = {"rc": rc, "lines": lines}
            cb = set(m.get("caught_by_final") or m.get("caught_by", []))
            cb.discard(m["property"])
            if rc == 1:
                cb.add(m["property"])
            m["caught_by_final"] = sorted(cb)
        json.dump(m, open(mp, "w"), indent=1)
        print(name, "own rc=%s" % rc, (lines[:1] or [""])[0][:120])
