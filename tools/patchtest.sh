#!/bin/sh
# usage: patchtest.sh <patch.diff> <check-id>...   (developer tool)
# runs the given quick checks against a scratch copy of /repo with the patch applied; /repo is not touched
P=$1; shift
D=$(mktemp -d /tmp/mutp_XXXXXX)
cp -r /repo/. $D/ && rm -rf $D/.git && (cd $D && git init -q . >/dev/null 2>&1; patch -p1 -s < $P) || { echo "patch failed"; rm -rf $D; exit 2; }
for c in "$@"; do
  S=$(date +%s)
  OUT=$(BVF_REPO=$D BVF_EVIDENCE_DIR=$D/.ev BVF_REPLAY_DIR=$D/.rp BVF_PAR=${BVF_PAR:-4} VERIF_SEED=${VERIF_SEED:-0} /verif/bin/check $c 2>&1); RC=$?
  echo "$c rc=$RC $(( $(date +%s) - S ))s"
  echo "$OUT" | grep -E "^  what|INCONCLUSIVE" | head -3
done
rm -rf $D
