#!/bin/sh
# usage: refbatch.sh <worktree>...   run all 20 quick checks against each behaviour-preserving patch (expected: rc=0 everywhere)
ALL="C01 C02 C03 C04 C05 C06 C07 C08 C09 C10 C11 C12 C13 C14 C15 C16 C17 C18 C19 C20"
for W in "$@"; do
  for I in 1 2; do
    [ -f $W/patch$I.diff ] || continue
    echo "=== $(basename $W) patch$I $(date +%H:%M:%S)"
    /verif/tools/patchtest.sh $W/patch$I.diff $ALL
  done
done
