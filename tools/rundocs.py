import doctest, sys, glob, os, re, tempfile, shutil
repo = sys.argv[1]
sys.path.insert(0, repo)
os.chdir(repo)
files = sorted(glob.glob(os.path.join(repo, "docs/reference/*.md")) + glob.glob(os.path.join(repo, "docs/tutorial_by_example/*.md")) + [os.path.join(repo, "README.md")])
files += sorted(glob.glob(os.path.join(repo, "bisturi/*.py")))
tot_f = tot_t = 0
flags = doctest.ELLIPSIS | doctest.NORMALIZE_WHITESPACE | doctest.IGNORE_EXCEPTION_DETAIL
work = tempfile.mkdtemp()
for f in files:
    text = open(f).read().replace("<...>", "...")
    text = re.sub(r"#\s*byexample:.*", "", text)
    parser = doctest.DocTestParser()
    try:
        test = parser.get_doctest(text, {}, os.path.basename(f), f, 0)
    except ValueError as e:
        print("PARSE-ERR", os.path.basename(f), str(e)[:80]); continue
    runner = doctest.DocTestRunner(verbose=False, optionflags=flags)
    out = []
    os.chdir(work)
    runner.run(test, out=out.append)
    os.chdir(repo)
    r = runner.summarize(verbose=False)
    tot_f += r.failed; tot_t += r.attempted
    print("%-40s failed=%d of %d" % (os.path.basename(f), r.failed, r.attempted))
    if r.failed and "-v" in sys.argv:
        print("".join(out)[:3000])
print("TOTAL failed=%d of %d" % (tot_f, tot_t))
shutil.rmtree(work, ignore_errors=True)
