#!/bin/sh
# round 3: worktrees /tmp/w3_<id>, saved as <id>-5 / <id>-6
for P in "$@"; do
  for I in 1 2; do
    if [ -f /tmp/w3_$P/patch$I.diff ]; then
      N=$((I+4))
      echo "=== $P-$N $(date +%H:%M:%S)"
      /verif/tools/seedtest.py /tmp/w3_$P $I $P --checks all --save --par 5 --name $P-$N > /tmp/seedres_${P}_$N.json 2>&1
      python3 -c "
import json
try:
    r=json.load(open('/tmp/seedres_${P}_$N.json'))
    print('valid=',r.get('valid'),'tests=',r.get('tests_pass_with_patch'),'demo',r.get('demo_clean_rc'),r.get('demo_patched_rc'),'caught_by=',r.get('caught_by'),'inconclusive=',r.get('inconclusive'))
except Exception as e:
    print('ERR',e); print(open('/tmp/seedres_${P}_$N.json').read()[-500:])
"
    fi
  done
done
