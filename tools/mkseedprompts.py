#!/usr/bin/env python3
"""Write the brief given to the author of a seeded change (developer tool).

usage: mkseedprompts.py <round> <outdir> [ids...]

The brief contains only the text of one property, the location of the author's own scratch worktree
(/tmp/w<round>_<id>) and one line per change earlier authors already produced for that property (so that a new
round yields different mechanisms).  Nothing of /verif is shown to the author."""
import json
import os
import sys

HERE = os.path.dirname(os.path.dirname(os.path.abspath(__file__)))

TEMPLATE = """You are given a scratch git worktree of a small pure-Python library at {wt} ("bisturi": a declarative binary packet parser/packer; source in {wt}/bisturi, reference docs in {wt}/docs/reference/*.md and README.md, unit tests in {wt}/tests). Work ONLY inside {wt}. Do not read or touch /verif, /repo or any other directory; do not commit anything; no network. Keep your own messages short: never paste whole files into your answers, work with small reads and edits.

How to run things (always from the worktree, with the worktree first on the path):
  cd {wt} && PYTHONPATH={wt} /venv/bin/python -m pytest -q -p no:cacheprovider tests      # 40 tests, all pass on the unmodified tree
  cd {wt} && PYTHONPATH={wt} /venv/bin/python demo1.py
(check once that `import bisturi; bisturi.__file__` points into {wt}). Note: defining a Packet subclass writes generated code into a `__pkts__` directory next to the defining file; define demo classes in demo files at the worktree root (that is fine) and do not add those generated files to your patch. The environment sets PYTHONDONTWRITEBYTECODE=1.

This semantic property of the library is supposed to hold:

  Title: {title}
  Statement: {statement}
  Quantified over: {quant}

Your task: produce TWO different, independent changes to the library's source (files under {wt}/bisturi/ only) each of which BREAKS this property while the code still imports and ALL 40 existing unit tests still pass. They should be realistic faults a maintainer could plausibly introduce (a refactoring slip, an off-by-one, a wrong variable, a dropped copy or check, a well-meant optimisation or cache, a mishandled corner case), a few lines each, not sabotage that breaks everything. IMPORTANT: each change must need something specific to manifest - a particular unusual input or value, a particular multi-step sequence of operations, a particular combination of declaration features, a particular interleaving/crash point/history, or two cooperating sites that each look fine alone - so that ordinary simple use of the library (and the unit tests) would not expose it at once. The two changes should be in different places / of different nature.

For each change i in (1, 2):
  1. Start from the clean tree (`git -C {wt} checkout -- bisturi`), make the change, and save it: `git -C {wt} diff -- bisturi > {wt}/patch<i>.diff`.
  2. Write {wt}/demo<i>.py: a small self-contained program (imports bisturi from the worktree) that checks the property on the specific scenario and exits with status 0 when the property holds and status 1 (printing what went wrong) when it is violated.
  3. Verify yourself: with the change applied the 40 tests pass and demo<i>.py exits 1; on the clean tree (`git checkout -- bisturi`) demo<i>.py exits 0. Remove `__pkts__` directories your demos created at the worktree root between runs if they could confuse the result (rm -rf {wt}/__pkts__).
Leave the worktree CLEAN at the end (`git -C {wt} checkout -- bisturi`), with patch1.diff, patch2.diff, demo1.py, demo2.py at its root.

Final answer (short, under 400 words): for each change: what it does, what exactly it needs in order to manifest, and the evidence you observed (test run result with the change; demo exit status with and without the change).

These changes were already produced by other people for this property; yours must be clearly DIFFERENT in mechanism and location (do not redo them or trivial variations of them). Prefer faults that hide in INTERACTIONS: a combination of two or three declaration features, a history of several operations on the same or on different objects, state surviving between calls, a rarely taken branch, a boundary value, an unusual but legal way of using the public API - and make them as subtle as you can while still being realistic:
{previous}
"""


def main():
    rnd, outdir = sys.argv[1], sys.argv[2]
    ids = sys.argv[3:]
    props = {}
    for line in open(os.path.join(HERE, "properties.jsonl")):
        p = json.loads(line)
        props[p["id"]] = p
    desc = json.load(open(os.path.join(HERE, "seeded", "descriptions.json")))
    os.makedirs(outdir, exist_ok=True)
    for pid in ids or sorted(props):
        p = props[pid]
        prev = ["  - %s (needs: %s)" % (v["description"], v["needs"]) for k, v in sorted(desc.items()) if k.startswith(pid + "-")]
        txt = TEMPLATE.format(wt="/tmp/w%s_%s" % (rnd, pid), title=p["title"], statement=p["statement"],
                              quant=p["quantifier"]["text"], previous="\n".join(prev))
        with open(os.path.join(outdir, "%s_r%s.txt" % (pid, rnd)), "w") as f:
            f.write(txt)
        print(pid, len(prev), "earlier changes listed")


if __name__ == "__main__":
    main()
