#!/bin/sh
# usage: seedround.sh <worktree-prefix> <index-offset> <checks: all|own> ids...
# evaluates <prefix>_<id>/patch{1,2}.diff and saves them as seeded/<id>-<i+offset>
W=$1; OFF=$2; CH=$3; shift 3
for P in "$@"; do
  for I in 1 2; do
    if [ -f ${W}_$P/patch$I.diff ]; then
      N=$((I+OFF))
      echo "=== $P-$N $(date +%H:%M:%S)"
      /verif/tools/seedtest.py ${W}_$P $I $P --checks $CH --save --par 5 --name $P-$N > /tmp/seedres_${P}_$N.json 2>&1
      python3 -c "
import json
try:
    r=json.load(open('/tmp/seedres_${P}_$N.json'))
    print('valid=',r.get('valid'),'tests=',r.get('tests_pass_with_patch'),'demo',r.get('demo_clean_rc'),r.get('demo_patched_rc'),'caught_by=',r.get('caught_by'),'inconclusive=',r.get('inconclusive'))
except Exception as e:
    print('ERR',e); print(open('/tmp/seedres_${P}_$N.json').read()[-500:])
"
    fi
  done
done
