#!/bin/sh
# usage: tools/seedbatch.sh C01 C02 ...   evaluates patch1/patch2 of each worktree /tmp/wt_<id> against all checks
for P in "$@"; do
  for I in 1 2; do
    if [ -f /tmp/wt_$P/patch$I.diff ]; then
      echo "=== $P-$I $(date +%H:%M:%S)"
      /verif/tools/seedtest.py /tmp/wt_$P $I $P --checks all --save --par 4 > /tmp/seedres_${P}_$I.json 2>&1
      python3 -c "
import json,sys
try:
    r=json.load(open('/tmp/seedres_${P}_$I.json'))
    print('valid=',r.get('valid'),'tests=',r.get('tests_pass_with_patch'),'demo',r.get('demo_clean_rc'),r.get('demo_patched_rc'),'caught_by=',r.get('caught_by'),'inconclusive=',r.get('inconclusive'))
except Exception as e:
    print('ERR',e); print(open('/tmp/seedres_${P}_$I.json').read()[-500:])
"
    fi
  done
done
