#!/usr/bin/env python3
"""Prints the markdown summary table of DESIGN.md section 0 from the current evidence files (developer tool)."""
import glob, json, os
ROOT = os.path.dirname(os.path.dirname(os.path.abspath(__file__)))
man = json.load(open(os.path.join(ROOT, "MANIFEST.json")))
tech = {c["property_id"]: c["technique"] for c in man["checks"]}
print("| id | deciding monitor / oracle | quick tier as measured (evaluations / distinct non-trivial / wall) |")
print("|----|---------------------------|---------------------------------------------------------------------|")
for p in sorted(glob.glob(os.path.join(ROOT, "evidence", "C*.json"))):
    e = json.load(open(p))
    c = e["coverage"]
    print("| %s | %s | %d / %d / %.0f s (%s, seed %d) |" % (e["property_id"], tech.get(e["property_id"], "").replace("runtime monitoring: ", ""),
          c["evaluations"], c["distinct_nontrivial"], e["wall_s"], e["tier"], e["seed"]))
