#!/usr/bin/env python3
"""Developer tool: run checks against a mutated scratch copy of /repo.
usage: muttest.py <ids,comma> <relative file> <old> <new> [--tier quick]
       muttest.py <ids> --patch <file.diff>
The copy lives under /tmp/mut_<pid> and is removed afterwards. /repo is never touched."""
import os, shutil, subprocess, sys, tempfile

def main():
    ids = sys.argv[1].split(",")
    d = tempfile.mkdtemp(prefix="mut_")
    dst = os.path.join(d, "repo")
    try:
        shutil.copytree("/repo", dst, ignore=shutil.ignore_patterns(".git", "__pycache__", "__pkts__"))
        if sys.argv[2] == "--patch":
            r = subprocess.run(["patch", "-p1", "-d", dst, "-i", os.path.abspath(sys.argv[3])], capture_output=True, text=True)
            if r.returncode:
                print("PATCH FAILED", r.stdout, r.stderr); return 3
        else:
            rel, old, new = sys.argv[2], sys.argv[3], sys.argv[4]
            p = os.path.join(dst, rel)
            s = open(p).read()
            if s.count(old) < 1:
                print("OLD STRING NOT FOUND"); return 3
            s = s.replace(old, new, 1)
            open(p, "w").write(s)
        env = dict(os.environ, BVF_REPO=dst, BVF_EVIDENCE_DIR=os.path.join(d, "ev"), BVF_REPLAY_DIR=os.path.join(d, "rp"))
        rc_all = {}
        for pid in ids:
            r = subprocess.run(["/verif/bin/check", pid, "--tier", "quick"], env=env, capture_output=True, text=True, timeout=1800)
            lines = [l for l in r.stdout.splitlines() if l.startswith(("VIOLATION", "  what", "INCONCLUSIVE", "KNOWN"))][:4]
            print("%s rc=%d %s" % (pid, r.returncode, " | ".join(lines)[:400]))
            if r.returncode not in (0, 1, 2):
                print(r.stdout[-800:], r.stderr[-800:])
            rc_all[pid] = r.returncode
        return 0
    finally:
        shutil.rmtree(d, ignore_errors=True)

sys.exit(main())
