#!/usr/bin/env python3
"""Re-run given checks for stored seeded changes against /repo's current HEAD + patch and refresh meta.json (developer tool).

usage: seedrecheck.py --checks C13[,C02|own] [names...]"""
import argparse, concurrent.futures, glob, json, os, shutil, subprocess, tempfile

ap = argparse.ArgumentParser()
ap.add_argument("--checks", required=True)
ap.add_argument("--par", type=int, default=4)
ap.add_argument("names", nargs="*")
a = ap.parse_args()


def one(d):
    name = os.path.basename(d)
    meta = json.load(open(os.path.join(d, "meta.json")))
    checks = [meta["property"]] if a.checks == "own" else a.checks.split(",")
    tmp = tempfile.mkdtemp(prefix="sr_")
    res = {}
    try:
        dst = os.path.join(tmp, "repo")
        shutil.copytree("/repo", dst, ignore=shutil.ignore_patterns(".git", "__pycache__", "__pkts__"))
        r = subprocess.run(["patch", "-p1", "-s", "-f", "-d", dst, "-i", os.path.join(d, "patch.diff")], capture_output=True, text=True)
        if r.returncode:
            return name, None
        for c in checks:
            env = dict(os.environ, BVF_REPO=dst, BVF_EVIDENCE_DIR=os.path.join(tmp, "ev"), BVF_REPLAY_DIR=os.path.join(tmp, "rp"), BVF_PAR="4")
            try:
                r = subprocess.run(["/verif/bin/check", c, "--tier", "quick"], env=env, capture_output=True, text=True, timeout=3000)
                lines = [l.strip() for l in r.stdout.splitlines() if l.strip().startswith(("what:", "INCONCLUSIVE"))][:2]
                res[c] = (r.returncode, lines)
            except subprocess.TimeoutExpired:
                res[c] = (-9, ["timeout"])
        return name, res
    finally:
        shutil.rmtree(tmp, ignore_errors=True)


dirs = sorted(glob.glob("/verif/seeded/C*-*"))
if a.names:
    dirs = [d for d in dirs if os.path.basename(d) in a.names]
with concurrent.futures.ThreadPoolExecutor(max_workers=a.par) as ex:
    for name, res in ex.map(one, dirs):
        if res is None:
            print(name, "PATCH FAILED")
            continue
        mp = "/verif/seeded/%s/meta.json" % name
        m = json.load(open(mp))
        cb = set(m.get("caught_by_final") or m.get("caught_by") or [])
        fl = m.setdefault("first_lines", {})
        for c, (rc, lines) in res.items():
            cb.discard(c)
            if rc == 1:
                cb.add(c)
                fl[c] = lines
            else:
                fl.pop(c, None)
            m.setdefault("rechecked", {})[c] = rc
        m["caught_by_final"] = sorted(cb)
        json.dump(m, open(mp, "w"), indent=1)
        print(name, {c: rc for c, (rc, _) in res.items()})
