#!/usr/bin/env python3
"""Merge seeded/descriptions.json into every seeded/<id>/meta.json and print the markdown table used in
DESIGN.md section 10 (developer tool)."""
import glob
import json
import os

ROOT = os.path.join(os.path.dirname(os.path.dirname(os.path.abspath(__file__))), "seeded")
desc = json.load(open(os.path.join(ROOT, "descriptions.json")))
rows = []
for d in sorted(glob.glob(os.path.join(ROOT, "C*-*"))):
    name = os.path.basename(d)
    mp = os.path.join(d, "meta.json")
    if not os.path.exists(mp):
        continue
    m = json.load(open(mp))
    if name in desc:
        m["description"] = desc[name]["description"]
        m["needs_to_manifest"] = desc[name]["needs"]
    m.setdefault("breaks_property", m.get("property"))
    json.dump(m, open(mp, "w"), indent=1)
    own = m.get("property")
    caught = m.get("caught_by_final") or m.get("caught_by") or []
    rows.append((name, own, m.get("description", ""), m.get("needs_to_manifest", ""), caught))
print("| id | breaks | change | needs in order to manifest | caught by (quick tier) |")
print("|----|--------|--------|----------------------------|------------------------|")
for name, own, de, ne, caught in rows:
    mark = ", ".join(("**%s**" % c) if c == own else c for c in caught) or "— (missed)"
    print("| %s | %s | %s | %s | %s |" % (name, own, de.replace("|", "\\|"), ne.replace("|", "\\|"), mark))
n = len(rows)
own_ok = sum(1 for r in rows if r[1] in r[4])
any_ok = sum(1 for r in rows if r[4])
print()
print("%d seeded changes; caught by the check of the property they target: %d; caught by at least one check: %d" % (n, own_ok, any_ok))
