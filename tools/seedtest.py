#!/usr/bin/env python3
"""Validate and evaluate one seeded change (developer tool).

usage: seedtest.py <worktree> <i> <property-id> [--checks C01,C02|all] [--save] [--tier quick]

1. clean tree: demo<i>.py must exit 0
2. patched tree: the 40 pinned tests pass, demo<i>.py exits 1
3. the checks are run against the patched worktree (BVF_REPO=<worktree>); which fire is recorded
4. with --save the change is stored as /verif/seeded/<property>-<i>/ (patch.diff, demo.py, meta.json)
The worktree is left clean. /repo is never touched.
"""
import argparse
import concurrent.futures
import json
import os
import shutil
import subprocess
import sys
import tempfile

ALL = ["C%02d" % i for i in range(1, 21)]


def sh(cmd, cwd=None, env=None, timeout=1800):
    return subprocess.run(cmd, cwd=cwd, env=env, capture_output=True, text=True, timeout=timeout)


def run_demo(wt, i):
    env = dict(os.environ, PYTHONPATH=wt)
    shutil.rmtree(os.path.join(wt, "__pkts__"), ignore_errors=True)
    try:
        r = sh(["/venv/bin/python", "demo%s.py" % i], cwd=wt, env=env, timeout=600)
        return r.returncode, (r.stdout + r.stderr)[-600:]
    except subprocess.TimeoutExpired:
        return -9, "timeout"


def run_tests(wt):
    env = dict(os.environ, PYTHONPATH=wt)
    r = sh(["/venv/bin/python", "-m", "pytest", "-q", "-p", "no:cacheprovider", "tests"], cwd=wt, env=env, timeout=900)
    sh(["git", "-C", wt, "checkout", "--", "tests"])
    return "40 passed" in r.stdout, r.stdout[-300:]


def run_check(pid, wt, tier, tmp):
    env = dict(os.environ, BVF_REPO=wt, BVF_EVIDENCE_DIR=os.path.join(tmp, "ev"), BVF_REPLAY_DIR=os.path.join(tmp, "rp"), BVF_PAR="4")
    try:
        r = sh(["/verif/bin/check", pid, "--tier", tier], env=env, timeout=3000)
    except subprocess.TimeoutExpired:
        return pid, -9, ["timeout"]
    lines = [l.strip() for l in r.stdout.splitlines() if l.startswith(("VIOLATION", "  what", "INCONCLUSIVE"))]
    whats = [l for l in lines if l.startswith("what")]
    return pid, r.returncode, (whats[:2] or lines[:2])


def main():
    ap = argparse.ArgumentParser()
    ap.add_argument("wt")
    ap.add_argument("i")
    ap.add_argument("pid")
    ap.add_argument("--checks", default="own")
    ap.add_argument("--tier", default="quick")
    ap.add_argument("--save", action="store_true")
    ap.add_argument("--par", type=int, default=5)
    ap.add_argument("--name", help="directory name under /verif/seeded (default <property>-<i>)")
    a = ap.parse_args()
    wt, i, pid = a.wt, a.i, a.pid
    patch = os.path.join(wt, "patch%s.diff" % i)
    res = {"property": pid, "index": i, "worktree": wt}
    sh(["git", "-C", wt, "checkout", "--", "bisturi", "tests"])
    rc0, out0 = run_demo(wt, i)
    res["demo_clean_rc"] = rc0
    ap_ = sh(["git", "-C", wt, "apply", patch])
    if ap_.returncode:
        res["error"] = "patch does not apply: " + ap_.stderr[-200:]
        print(json.dumps(res, indent=1))
        return 2
    try:
        ok, tout = run_tests(wt)
        res["tests_pass_with_patch"] = ok
        rc1, out1 = run_demo(wt, i)
        res["demo_patched_rc"] = rc1
        res["demo_patched_output"] = out1[-300:]
        res["valid"] = bool(ok and rc0 == 0 and rc1 == 1)
        checks = ALL if a.checks == "all" else ([pid] if a.checks == "own" else a.checks.split(","))
        tmp = tempfile.mkdtemp(prefix="seedtest_")
        caught = {}
        with concurrent.futures.ThreadPoolExecutor(max_workers=a.par) as ex:
            for p, rc, lines in ex.map(lambda c: run_check(c, wt, a.tier, tmp), checks):
                caught[p] = {"rc": rc, "lines": lines}
        shutil.rmtree(tmp, ignore_errors=True)
        res["checks"] = caught
        res["caught_by"] = sorted(p for p, v in caught.items() if v["rc"] == 1)
        res["inconclusive"] = sorted(p for p, v in caught.items() if v["rc"] not in (0, 1))
    finally:
        sh(["git", "-C", wt, "checkout", "--", "bisturi", "tests"])
        shutil.rmtree(os.path.join(wt, "__pkts__"), ignore_errors=True)
    print(json.dumps(res, indent=1))
    if a.save and res.get("valid"):
        d = "/verif/seeded/%s" % (a.name or "%s-%s" % (pid, i))
        os.makedirs(d, exist_ok=True)
        shutil.copy(patch, os.path.join(d, "patch.diff"))
        shutil.copy(os.path.join(wt, "demo%s.py" % i), os.path.join(d, "demo.py"))
        meta = {"property": pid, "what_i_ran": [
            "clean tree: demo exits %d" % rc0, "patched tree: 40 pinned tests pass=%s, demo exits %d" % (ok, rc1),
            "checks against the patched tree (BVF_REPO=<scratch worktree>), tier %s: %s" % (a.tier, {p: v["rc"] for p, v in caught.items()})],
            "caught_by": res["caught_by"], "first_lines": {p: v["lines"] for p, v in caught.items() if v["rc"] == 1},
            "needs_to_manifest": "(filled from the author's report)"}
        mp = os.path.join(d, "meta.json")
        if os.path.exists(mp):
            old = json.load(open(mp))
            meta["needs_to_manifest"] = old.get("needs_to_manifest", meta["needs_to_manifest"])
            meta["description"] = old.get("description")
        json.dump(meta, open(mp, "w"), indent=1)
    return 0


if __name__ == "__main__":
    sys.exit(main())
