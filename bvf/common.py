"""Common plumbing: locating the repository, importing the *working tree* of bisturi,
scratch directories, seeded PRNGs.

Every check process imports bisturi from REPO (default /repo) and asserts that the module
really comes from there, so a check always exercises the current working tree.
"""
import atexit
import hashlib
import json
import os
import random
import shutil
import sys
import tempfile

VERIF = os.path.dirname(os.path.dirname(os.path.abspath(__file__)))
REPO = os.environ.get("BVF_REPO", "/repo")
GUARD = "BISTURI_VERIF"

_scratch_dirs = []


def _cleanup():
    for d in _scratch_dirs:
        shutil.rmtree(d, ignore_errors=True)


atexit.register(_cleanup)


def scratch_dir(prefix="bvf_"):
    """A private scratch directory removed at interpreter exit."""
    base = os.environ.get("BVF_SCRATCH_BASE") or tempfile.gettempdir()
    d = tempfile.mkdtemp(prefix=prefix, dir=base)
    _scratch_dirs.append(d)
    return d


def drop_scratch(d):
    shutil.rmtree(d, ignore_errors=True)
    try:
        _scratch_dirs.remove(d)
    except ValueError:
        pass


_bisturi_ready = False


def import_bisturi():
    """Import bisturi from the repository working tree (never from site-packages copies
    elsewhere) without letting the interpreter write bytecode into the repository."""
    global _bisturi_ready
    if _bisturi_ready:
        return
    sys.dont_write_bytecode = True
    os.environ[GUARD] = "1"
    if REPO in sys.path:
        sys.path.remove(REPO)
    sys.path.insert(0, REPO)
    import bisturi
    import bisturi.packet
    import bisturi.field
    import bisturi.structural_fields
    import bisturi.fragments
    import bisturi.deferred
    import bisturi.descriptor
    import bisturi.pattern_matching
    import bisturi.codegen
    here = os.path.realpath(os.path.dirname(bisturi.__file__))
    want = os.path.realpath(os.path.join(REPO, "bisturi"))
    if here != want:
        raise RuntimeError("bisturi imported from %s, expected %s" % (here, want))
    _bisturi_ready = True


def repo_head():
    try:
        import subprocess
        return subprocess.run(["git", "-C", REPO, "rev-parse", "--short", "HEAD"],
                              capture_output=True, text=True, timeout=20).stdout.strip()
    except Exception:
        return "unknown"


def env_seed():
    try:
        return int(os.environ.get("VERIF_SEED", "0"))
    except ValueError:
        return 0


def rng_for(seed, *salt):
    """Deterministic PRNG independent of PYTHONHASHSEED."""
    h = hashlib.sha256(("%d|" % seed + "|".join(str(s) for s in salt)).encode()).digest()
    return random.Random(int.from_bytes(h[:8], "big"))


def stable_hash(obj):
    """Hash of a JSON-able object, independent of PYTHONHASHSEED."""
    return hashlib.sha1(json.dumps(obj, sort_keys=True, default=_jsonable).encode()).hexdigest()[:16]


def _jsonable(o):
    if isinstance(o, (bytes, bytearray)):
        return {"__bytes__": bytes(o).hex()}
    if isinstance(o, (set, frozenset)):
        return sorted(o, key=repr)
    if isinstance(o, tuple):
        return list(o)
    return repr(o)


def to_json(o):
    return json.loads(json.dumps(o, default=_jsonable))


def b2j(b):
    """bytes -> printable JSON form."""
    return {"__bytes__": bytes(b).hex()}


def from_json(o):
    """Inverse of to_json for the bytes encoding (used by replay)."""
    if isinstance(o, dict):
        if set(o) == {"__bytes__"}:
            return bytes.fromhex(o["__bytes__"])
        return {k: from_json(v) for k, v in o.items()}
    if isinstance(o, list):
        return [from_json(x) for x in o]
    return o
