"""CLI: bin/check <ID> [--tier quick|thorough] [--replay path] [--shard i/n --partial file]

Each check module (bvf/checks/cNN.py) provides
    LEVEL, RULE, ASSUMPTIONS           evidence metadata
    run(run)                           does the work, recording into `run`
    SHARDS = {"quick": 1, "thorough": 16}   optional: fan out over subprocesses
    MIN_NONTRIVIAL, REQUIRED, EXHAUSTIVE     optional verdict rules
    replay(run, witness)               optional: re-execute exactly one recorded case
"""
import argparse
import importlib
import json
import os
import subprocess
import sys
import time

from . import common
from .evidence import Run


def _load(pid):
    return importlib.import_module("bvf.checks.%s" % pid.lower())


def _finish(mod, run, replay=False):
    if replay:
        # a replay re-executes one recorded case: exit 1 if it reproduces, else 0; evidence is not rewritten
        n = int(run.counters.get("violations", 0))
        for v in run.violations[:3]:
            print("REPRODUCED property=%s what=%s" % (run.pid, v["what"]))
        for k, slot in run.known_hits.items():
            print("REPRODUCED(known finding) property=%s mechanism=%s" % (run.pid, k))
        if not n and not run.known_hits:
            print("replay of %s did not reproduce a violation on this tree" % run.pid)
        return 1 if n else 0
    ex = getattr(mod, "EXHAUSTIVE", None)
    if isinstance(ex, dict):
        ex = ex.get(run.tier)
    return run.finish(
        level=mod.LEVEL,
        rule=mod.RULE if isinstance(mod.RULE, str) else mod.RULE[run.tier],
        assumptions=mod.ASSUMPTIONS,
        min_nontrivial=getattr(mod, "MIN_NONTRIVIAL", 2),
        required=getattr(mod, "REQUIRED", ()),
        exhaustive=ex,
        explanation=getattr(mod, "EXPLANATION", None),
    )


def harness_mod():
    from . import harness
    return harness


def main(argv=None):
    ap = argparse.ArgumentParser()
    ap.add_argument("pid")
    ap.add_argument("--tier", default=os.environ.get("VERIF_TIER") or "quick", choices=["quick", "thorough"])
    ap.add_argument("--replay")
    ap.add_argument("--shard")
    ap.add_argument("--partial")
    ap.add_argument("--shards", type=int, help="override number of shard processes")
    args = ap.parse_args(argv)
    pid = args.pid.upper()
    seed = common.env_seed()
    mod = _load(pid)

    if args.replay:
        common.import_bisturi()
        with open(args.replay) as f:
            rec = json.load(f)
        run = Run(pid, args.tier, rec.get("seed", seed))
        if not hasattr(mod, "replay"):
            print("replay not supported by %s; witness follows" % pid)
            print(json.dumps(rec, indent=1))
            return 2
        mod.replay(run, rec)
        return _finish(mod, run, replay=True)

    if args.shard:
        i, n = (int(x) for x in args.shard.split("/"))
        common.import_bisturi()
        run = Run(pid, args.tier, seed, shard=(i, n))
        try:
            mod.run(run)
        except harness_mod().TooManyTimeouts as e:
            run.inconclusive_because("case-watchdog:%s" % e)
            run.extra["watchdog_cases"] = list(harness_mod().TIMEOUT_CASES)
            for c in harness_mod().TIMEOUT_CASES[:2]:
                print("WATCHDOG case: %s of %s on input %s\n%s" % (c["call"], c["class"], c["input"], c["source"]))
        except Exception as e:  # harness error: never a verdict
            import traceback
            run.inconclusive_because("harness-error:%s:%s" % (type(e).__name__, str(e)[:200]))
            traceback.print_exc()
        run.dump_partial(args.partial)
        return 0

    nshards = args.shards or getattr(mod, "SHARDS", {}).get(args.tier, 1)
    run = Run(pid, args.tier, seed)
    if nshards <= 1:
        common.import_bisturi()
        run.shard = (0, 1)
        try:
            mod.run(run)
        except harness_mod().TooManyTimeouts as e:
            run.inconclusive_because("case-watchdog:%s" % e)
            run.extra["watchdog_cases"] = list(harness_mod().TIMEOUT_CASES)
            for c in harness_mod().TIMEOUT_CASES[:2]:
                print("WATCHDOG case: %s of %s on input %s\n%s" % (c["call"], c["class"], c["input"], c["source"]))
        except Exception as e:
            import traceback
            traceback.print_exc()
            run.inconclusive_because("harness-error:%s:%s" % (type(e).__name__, str(e)[:200]))
        return _finish(mod, run)

    # fan out: one subprocess per shard (never multiprocessing.Pool: a dying child hangs it)
    scratch = common.scratch_dir("bvf_shards_")
    procs = []
    maxpar = int(os.environ.get("BVF_PAR", "16"))
    timeout = float(os.environ.get("BVF_SHARD_TIMEOUT", getattr(mod, "SHARD_TIMEOUT", {}).get(args.tier, 3000)
                                   if isinstance(getattr(mod, "SHARD_TIMEOUT", None), dict) else 3000))
    pending = list(range(nshards))
    running = {}
    deadline = {}
    logs = {}
    while pending or running:
        while pending and len(running) < maxpar:
            i = pending.pop(0)
            part = os.path.join(scratch, "part_%d.json" % i)
            logp = os.path.join(scratch, "log_%d.txt" % i)
            logs[i] = logp
            cmd = [sys.executable, "-m", "bvf.main", pid, "--tier", args.tier,
                   "--shard", "%d/%d" % (i, nshards), "--partial", part]
            env = dict(os.environ)
            env["PYTHONPATH"] = common.VERIF + os.pathsep + env.get("PYTHONPATH", "")
            env["PYTHONHASHSEED"] = env.get("PYTHONHASHSEED", "0")
            env["BVF_SCRATCH_BASE"] = scratch      # shard scratch dirs live (and die) inside the parent's
            p = subprocess.Popen(cmd, cwd=common.VERIF, env=env, stdout=open(logp, "w"), stderr=subprocess.STDOUT)
            running[i] = (p, part)
            deadline[i] = time.time() + timeout
        time.sleep(0.05)
        for i in list(running):
            p, part = running[i]
            rc = p.poll()
            if rc is None:
                if time.time() > deadline[i]:
                    p.kill()
                    p.wait()
                    run.inconclusive_because("shard-%d-watchdog" % i)
                    del running[i]
                continue
            del running[i]
            if os.path.exists(part):
                run.merge_partial(part)
            else:
                run.inconclusive_because("shard-%d-died-rc%s" % (i, rc))
                try:
                    sys.stderr.write(open(logs[i]).read()[-3000:])
                except Exception:
                    pass
    run.extra["shards"] = nshards
    rc = _finish(mod, run)
    common.drop_scratch(scratch)
    return rc


if __name__ == "__main__":
    sys.exit(main())
