"""Verdicts, evidence files, replay files and known findings (DESIGN.md section E5).

A check records what it observed into a `Run`; `Run.finish()` turns that into
  * /verif/evidence/<id>.json   (always rewritten)
  * stdout lines  VIOLATION property=<id> replay=<path>   (exit 1)
                  KNOWN-FINDING: property=<id> <what>     (exit 0)
                  INCONCLUSIVE property=<id> reason=...   (exit 2)
Verdicts are three valued; inconclusive is never folded into held or violated.
"""
import collections
import json
import os
import time

from .common import VERIF, stable_hash, to_json, repo_head

EVIDENCE_DIR = os.environ.get("BVF_EVIDENCE_DIR") or os.path.join(VERIF, "evidence")
REPLAY_DIR = os.environ.get("BVF_REPLAY_DIR") or os.path.join(VERIF, "replays")
KNOWN_FILE = os.path.join(VERIF, "known_findings.json")

MAX_VIOLATIONS_KEPT = 25


def load_known():
    """known_findings.json is read-only at run time. Only status == 'known' suppresses."""
    try:
        with open(KNOWN_FILE) as f:
            data = json.load(f)
    except FileNotFoundError:
        return []
    return data.get("findings", [])


class Run:
    def __init__(self, pid, tier, seed, shard=None):
        self.pid = pid
        self.tier = tier
        self.seed = seed
        self.shard = shard          # (index, count) or None
        self.t0 = time.time()
        self.counters = collections.Counter()
        self.distinct = set()
        self.samples = []
        self.violations = []        # unclassified -> VIOLATION
        self.known_hits = {}        # key -> {"count": n, "what": str, "witness": first}
        self.inconclusive = []
        self.extra = {}
        self.coverage_sets = collections.defaultdict(set)
        self._known = [k for k in load_known()
                       if k.get("property") == pid and k.get("status") == "known"]

    # ---- recording -------------------------------------------------------------------
    def case(self, key=None, nontrivial=True, n=1):
        """One evaluation. `key` identifies the case for distinct counting."""
        self.counters["evaluations"] += n
        if nontrivial and key is not None:
            self.distinct.add(key if isinstance(key, str) else stable_hash(key))

    def count(self, name, n=1):
        self.counters[name] += n

    def cover(self, setname, item):
        self.coverage_sets[setname].add(item if isinstance(item, str) else json.dumps(to_json(item), sort_keys=True))

    def sample(self, obj, cap=6):
        if len(self.samples) < cap:
            self.samples.append(to_json(obj))

    def violation(self, what, witness, mech=None):
        """Record a violation. `mech` is the mechanism key computed by the check's own
        classifier from the witness; if it names a *known* finding of this property the
        violation is reported as KNOWN-FINDING, otherwise as VIOLATION."""
        if mech is not None:
            for k in self._known:
                if k.get("key") == mech:
                    slot = self.known_hits.setdefault(
                        mech, {"count": 0, "what": k.get("what", what), "witness": to_json(witness)})
                    slot["count"] += 1
                    return False
        self.counters["violations"] += 1
        if len(self.violations) < MAX_VIOLATIONS_KEPT:
            self.violations.append({"what": what, "mechanism": mech, "witness": to_json(witness)})
        return True

    def inconclusive_because(self, reason):
        if reason not in self.inconclusive:
            self.inconclusive.append(reason)

    # ---- sharding --------------------------------------------------------------------
    def dump_partial(self, path):
        data = {
            "counters": dict(self.counters),
            "distinct": sorted(self.distinct),
            "samples": self.samples,
            "violations": self.violations,
            "known_hits": self.known_hits,
            "inconclusive": self.inconclusive,
            "extra": to_json(self.extra),
            "coverage_sets": {k: sorted(v) for k, v in self.coverage_sets.items()},
        }
        tmp = path + ".tmp"
        with open(tmp, "w") as f:
            json.dump(data, f)
        os.replace(tmp, path)

    def merge_partial(self, path):
        with open(path) as f:
            data = json.load(f)
        self.counters.update(data["counters"])
        self.distinct.update(data["distinct"])
        for s in data["samples"]:
            if len(self.samples) < 8:
                self.samples.append(s)
        for v in data["violations"]:
            if len(self.violations) < MAX_VIOLATIONS_KEPT:
                self.violations.append(v)
        for k, slot in data["known_hits"].items():
            mine = self.known_hits.setdefault(k, {"count": 0, "what": slot["what"], "witness": slot["witness"]})
            mine["count"] += slot["count"]
        for r in data["inconclusive"]:
            self.inconclusive_because(r)
        for k, v in data["extra"].items():
            if isinstance(v, (int, float)) and isinstance(self.extra.get(k, 0), (int, float)):
                self.extra[k] = self.extra.get(k, 0) + v
            elif isinstance(v, dict) and isinstance(self.extra.get(k, {}), dict):
                d = self.extra.setdefault(k, {})
                for kk, vv in v.items():
                    if isinstance(vv, (int, float)):
                        d[kk] = d.get(kk, 0) + vv
                    else:
                        d.setdefault(kk, vv)
            else:
                self.extra.setdefault(k, v)
        for k, v in data["coverage_sets"].items():
            self.coverage_sets[k].update(v)

    # ---- verdict ---------------------------------------------------------------------
    def finish(self, level, rule, assumptions, min_nontrivial=2, required=(), exhaustive=None,
               explanation=None):
        """Write evidence, print verdict lines, return the exit code."""
        wall = time.time() - self.t0
        for name in required:
            if self.counters.get(name, 0) <= 0:
                self.inconclusive_because("monitor-never-reached:%s" % name)
        if len(self.distinct) < min_nontrivial:
            self.inconclusive_because("too-few-nontrivial-cases:%d<%d" % (len(self.distinct), min_nontrivial))

        coverage = {
            "evaluations": int(self.counters.get("evaluations", 0)),
            "distinct_nontrivial": len(self.distinct),
            "rule": rule,
            "samples": self.samples if self.samples else [],
            "counters": {k: int(v) for k, v in sorted(self.counters.items())},
            "coverage_sets": {k: {"size": len(v), "items": sorted(v)[:60]} for k, v in sorted(self.coverage_sets.items())},
            "known_findings_observed": {k: v["count"] for k, v in self.known_hits.items()},
            "inconclusive_reasons": list(self.inconclusive),
            "repo_head": repo_head(),
        }
        if exhaustive is not None:
            coverage["exhaustive"] = bool(exhaustive)
        if explanation:
            coverage["explanation"] = explanation
        coverage.update(to_json(self.extra))
        ev = {
            "property_id": self.pid,
            "tier": self.tier,
            "seed": int(self.seed),
            "level": level,
            "coverage": coverage,
            "assumptions": list(assumptions),
            "wall_s": round(wall, 3),
            "violations": int(self.counters.get("violations", 0)),
        }
        os.makedirs(EVIDENCE_DIR, exist_ok=True)
        path = os.path.join(EVIDENCE_DIR, "%s.json" % self.pid)
        tmp = path + ".tmp"
        with open(tmp, "w") as f:
            json.dump(ev, f, indent=1, sort_keys=True)
        os.replace(tmp, path)

        for key, slot in sorted(self.known_hits.items()):
            print("KNOWN-FINDING: property=%s %s [mechanism=%s observed=%d]" % (self.pid, slot["what"], key, slot["count"]))

        if self.violations:
            os.makedirs(REPLAY_DIR, exist_ok=True)
            seen = set()
            for v in self.violations:
                h = stable_hash(v)
                if h in seen:
                    continue
                seen.add(h)
                rp = os.path.join(REPLAY_DIR, "%s_%s.json" % (self.pid, h))
                with open(rp, "w") as f:
                    json.dump({"property": self.pid, "seed": self.seed, "tier": self.tier,
                               "repo_head": coverage["repo_head"], **v}, f, indent=1, sort_keys=True)
                if len(seen) <= 5:
                    print("VIOLATION property=%s replay=%s" % (self.pid, rp))
                    print("  what: %s%s" % (v["what"], (" [mechanism=%s]" % v["mechanism"]) if v.get("mechanism") else ""))
            print("%s: %d violation(s) in %d evaluations (%.1fs)" % (
                self.pid, self.counters["violations"], coverage["evaluations"], wall))
            return 1
        if self.inconclusive:
            for r in self.inconclusive:
                print("INCONCLUSIVE property=%s reason=%s" % (self.pid, r))
            return 2
        print("%s: held on %d evaluations, %d distinct non-trivial (%s tier, seed %d, %.1fs)" % (
            self.pid, coverage["evaluations"], coverage["distinct_nontrivial"], self.tier, self.seed, wall))
        return 0
