"""E3: in-process monitors attached from the harness (no source hooks in /repo).

  TracedBytes       bytes subclass logging every slice the library takes
  Recorder          enter/exit events per field (generic loop *and* generated loop code) through
                    wrappers put into cls.get_fields() and on sequence/optional prototypes
  ShadowingFragments  Fragments subclass with the C11 shadow array: every real pack() is also a
                    C11 execution
  pkt_to_pv / build_packet   bridge between real packets and model value trees
"""
import threading

from . import common
from .model import PV


class TracedBytes(bytes):
    """isinstance(raw, bytes) holds; __getitem__ logs (start, stop) of every slice."""

    def __new__(cls, data, log=None):
        self = bytes.__new__(cls, data)
        self.log = log if log is not None else []
        return self

    def __getitem__(self, idx):
        if isinstance(idx, slice):
            self.log.append((idx.start, idx.stop))
        else:
            self.log.append((idx, None))
        return bytes.__getitem__(self, idx)


class Node:
    __slots__ = ("phase", "cls", "name", "ftype", "enter", "exit", "exc", "children", "ipp", "elem", "parent", "notes")

    def __init__(self, phase, cls, name, ftype, enter, ipp, elem, parent):
        self.phase = phase
        self.cls = cls
        self.name = name
        self.ftype = ftype
        self.enter = enter
        self.exit = None
        self.exc = None
        self.children = []
        self.ipp = ipp
        self.elem = elem
        self.parent = parent
        self.notes = None

    def to_json(self):
        return {"phase": self.phase, "cls": self.cls, "name": self.name, "t": self.ftype, "enter": self.enter,
                "exit": self.exit, "exc": self.exc, "ipp": self.ipp, "elem": self.elem,
                "children": [c.to_json() for c in self.children]}


class Recorder:
    """Per-thread event tree. The deepest node open when an exception passes identifies the
    observed failing field."""

    def __init__(self):
        self.tls = threading.local()
        self.events = 0
        self.on_enter = None     # optional hook(phase, cls, name): scheduling point for controlled interleavings

    def _st(self):
        st = getattr(self.tls, "st", None)
        if st is None:
            st = self.tls.st = {"roots": [], "stack": [], "active": False, "fail_node": None}
        return st

    def start(self):
        st = self._st()
        st["roots"] = []
        st["stack"] = []
        st["active"] = True
        st["fail_node"] = None

    def stop(self):
        st = self._st()
        st["active"] = False
        return st["roots"]

    def fail_node(self):
        return self._st()["fail_node"]

    def enter(self, phase, cls, name, ftype, offset, ipp, elem):
        st = self._st()
        if not st["active"]:
            return None
        self.events += 1
        if self.on_enter is not None:
            self.on_enter(phase, cls, name)
        parent = st["stack"][-1] if st["stack"] else None
        n = Node(phase, cls, name, ftype, offset, ipp, elem, parent)
        (parent.children if parent else st["roots"]).append(n)
        st["stack"].append(n)
        return n

    def note(self, kind, data):
        """Attach a control observation (until/when/count evaluation) to the innermost open node."""
        st = self._st()
        if not st["active"] or not st["stack"]:
            return
        n = st["stack"][-1]
        if n.notes is None:
            n.notes = []
        n.notes.append((kind, data))

    def leave(self, n, offset, exc=None):
        if n is None:
            return
        st = self._st()
        n.exit = offset
        if exc is not None:
            n.exc = "%s: %s" % (type(exc).__name__, str(exc)[:120])
            if st["fail_node"] is None:
                st["fail_node"] = n     # deepest open wrapper when the exception first passed
        if st["stack"] and st["stack"][-1] is n:
            st["stack"].pop()
        else:
            # unwinding: pop down to n
            while st["stack"] and st["stack"][-1] is not n:
                st["stack"].pop()
            if st["stack"]:
                st["stack"].pop()


def walk(nodes):
    for n in nodes:
        yield n
        for c in walk(n.children):
            yield c


def leaves(nodes):
    """Leaf value events: nodes without children that are not Move pseudo-fields."""
    for n in walk(nodes):
        if n.ftype == "Move":
            continue
        if not n.children:
            yield n


def ftype_of(field):
    return type(field).__name__


_INSTRUMENTED = "_bvf_instrumented"


def instrument_class(cls, rec):
    """Replace the (name, field, pack, unpack) entries of cls.get_fields() by recording wrappers
    and wrap the prototypes of Sequence/Optional fields. Idempotent per class."""
    import bisturi.structural_fields as sf
    fields = cls.get_fields()
    if getattr(cls, _INSTRUMENTED, None) is rec:
        return
    clsname = cls.__name__
    for i, (name, field, pack, unpack) in enumerate(list(fields)):
        fields[i] = (name, field,
                     _wrap_pack(rec, clsname, name, ftype_of(field), pack, False),
                     _wrap_unpack(rec, clsname, name, ftype_of(field), unpack, False))
        proto = getattr(field, "prototype_field", None)
        if proto is not None and isinstance(field, (sf.Sequence, sf.Optional)):
            if not getattr(proto, _INSTRUMENTED, False):
                pname = name
                proto.unpack = _wrap_unpack(rec, clsname, pname, ftype_of(proto), proto.unpack, True)
                proto.pack = _wrap_pack(rec, clsname, pname, ftype_of(proto), proto.pack, True)
                setattr(proto, _INSTRUMENTED, True)
    setattr(cls, _INSTRUMENTED, rec)


def instrument_controls(cls, rec):
    """Wrap the normalised until / when / count callables of Sequence and Optional fields so every
    evaluation is noted (with the list length seen and the result) on the open field node."""
    import bisturi.structural_fields as sf
    if getattr(cls, "_bvf_controls", None) is rec:
        return
    for name, field, _, _ in cls.get_fields():
        if isinstance(field, sf.Sequence):
            seqname = field.field_name
            if field.until_condition is not None:
                field.until_condition = _wrap_ctl(rec, "until", field.until_condition, seqname)
            if field.when is not None:
                field.when = _wrap_ctl(rec, "when", field.when, seqname)
            if field.get_how_many_elements is not None:
                field.get_how_many_elements = _wrap_ctl(rec, "count", field.get_how_many_elements, seqname)
        elif isinstance(field, sf.Optional):
            field.when = _wrap_ctl(rec, "when", field.when, None)
    cls._bvf_controls = rec


def _wrap_ctl(rec, kind, fn, seqname):
    def ctl(**k):
        pkt = k.get("pkt")
        seen = None
        if seqname is not None and pkt is not None:
            try:
                seen = len(getattr(pkt, seqname))
            except Exception:
                seen = None
        try:
            out = fn(**k)
        except BaseException as e:
            rec.note(kind, {"seen": seen, "raised": type(e).__name__, "offset": k.get("offset")})
            raise
        rec.note(kind, {"seen": seen, "result": out if isinstance(out, (int, bool)) else bool(out), "offset": k.get("offset")})
        return out
    ctl._bvf_inner = fn
    return ctl


def _wrap_unpack(rec, clsname, name, ftype, fn, elem):
    def unpack(pkt, raw, offset=0, **k):
        n = rec.enter("unpack", clsname, name, ftype, offset, k.get("innermost-pkt-pos"), elem)
        try:
            out = fn(pkt=pkt, raw=raw, offset=offset, **k)
        except BaseException as e:
            rec.leave(n, None, e)
            raise
        rec.leave(n, out)
        return out
    unpack._bvf_inner = fn
    return unpack


def _wrap_pack(rec, clsname, name, ftype, fn, elem):
    def pack(pkt, fragments, **k):
        n = rec.enter("pack", clsname, name, ftype, fragments.current_offset, k.get("innermost-pkt-pos"), elem)
        try:
            out = fn(pkt=pkt, fragments=fragments, **k)
        except BaseException as e:
            rec.leave(n, None, e)
            raise
        rec.leave(n, fragments.current_offset)
        return out
    pack._bvf_inner = fn
    return pack


# ------------------------------------------------------------------------------------------
class FragmentMonitor:
    """Shared state of the shadowing Fragments subclass (per thread)."""

    def __init__(self):
        self.tls = threading.local()
        self.lock = threading.Lock()
        self.inserts = 0
        self.packs = 0
        self.violations = []

    def log(self):
        lg = getattr(self.tls, "log", None)
        if lg is None:
            lg = self.tls.log = []
        return lg


def make_shadowing_fragments(mon):
    """Subclass of the real Fragments that keeps the C11 shadow array and checks each real
    insert against it.  Installed as bisturi.packet.Fragments (looked up as a module global by
    Packet.pack)."""
    import bisturi.fragments as bf

    class ShadowingFragments(bf.Fragments):
        def __init__(self, *a, **k):
            bf.Fragments.__init__(self, *a, **k)
            self._sh = {}
            self._extent = 0
            self._ops = []
            with mon.lock:
                mon.packs += 1
            mon.log().append(self)

        def insert(self, position, string):
            n = len(string)
            occ = n > 0 and any((position + j) in self._sh for j in range(n))
            try:
                bf.Fragments.insert(self, position, string)
            except Exception as e:
                self._ops.append((position, bytes(string), "raised"))
                if n > 0 and not occ:
                    mon.violations.append({"what": "insert over free bytes raised", "ops": list(self._ops)})
                raise
            with mon.lock:
                mon.inserts += 1
            self._ops.append((position, bytes(string), None))
            if occ:
                mon.violations.append({"what": "insert over occupied bytes accepted", "ops": list(self._ops)})
            for j in range(n):
                self._sh[position + j] = string[j]
            self._extent = max(self._extent, position + n)
            if self.current_offset != position + n:
                mon.violations.append({"what": "cursor after insert is not p+len", "ops": list(self._ops)})

        def tobytes(self):
            out = bf.Fragments.tobytes(self)
            want = bytes(self._sh.get(q, 0x2E) for q in range(self._extent))
            if out != want:
                mon.violations.append({"what": "tobytes differs from the shadow array", "ops": list(self._ops),
                                       "got": out, "want": want})
            return out

    return ShadowingFragments


class fragments_monitor:
    """Context manager installing the shadowing Fragments into bisturi.packet."""

    def __init__(self):
        self.mon = FragmentMonitor()

    def __enter__(self):
        import bisturi.packet as bp
        self._orig = bp.Fragments
        bp.Fragments = make_shadowing_fragments(self.mon)
        return self.mon

    def __exit__(self, *a):
        import bisturi.packet as bp
        bp.Fragments = self._orig
        return False


# ------------------------------------------------------------------------------------------
class Unreadable(Exception):
    pass


def pkt_to_pv(fam, declname, pkt):
    """Read a real packet through its public attributes into a model value tree."""
    decl = fam["decls"][declname]
    pv = PV(declname)
    for f in decl["fields"]:
        if f["t"] == "em":
            continue
        try:
            v = getattr(pkt, f["name"])
        except AttributeError as e:
            raise Unreadable("attribute %s of %s: %s" % (f["name"], declname, e))
        pv.vals[f["name"]] = conv_val(fam, f, v)
    return pv


def conv_val(fam, f, v, inner=False):
    import bisturi.packet as bp
    if not inner and "rep" in f:
        if not isinstance(v, list):
            return ("!notalist", repr(v))
        return [conv_val(fam, f, x, True) for x in v]
    if not inner and "opt" in f:
        if v is None:
            return None
        return conv_val(fam, f, v, True)
    if isinstance(v, bp.Packet):
        name = type(v).__name__.rsplit("_", 1)[0]
        if name not in fam["decls"]:
            return ("!foreign-packet", type(v).__name__)
        return pkt_to_pv(fam, name, v)
    return v


def build_packet(loaded, variant, pv, how="kwargs", rng=None):
    """Build a real packet of the family from a model value tree.
    how: 'kwargs' (constructor keywords), 'attrs' (assignment on a default packet), 'mixed'."""
    cls = loaded.cls(pv.decl, variant)
    vals = {k: _real_val(loaded, variant, v, how, rng) for k, v in pv.vals.items()}
    if how == "kwargs":
        return cls(**vals)
    if how == "attrs":
        p = cls()
        for k, v in vals.items():
            setattr(p, k, v)
        return p
    if how == "inplace":
        # like "attrs", but lists that default to [] are filled in place (p.items.append(x)) instead of being replaced
        p = cls()
        for k, v in vals.items():
            cur = getattr(p, k, None)
            if isinstance(v, list) and isinstance(cur, list) and not cur:
                cur.extend(v)
            else:
                setattr(p, k, v)
        return p
    keys = list(vals)
    first = {k: vals[k] for k in keys if (rng.random() < 0.5 if rng else hash(k) & 1)}
    p = cls(**first)
    for k in keys:
        if k not in first:
            setattr(p, k, vals[k])
    return p


def _real_val(loaded, variant, v, how, rng):
    if isinstance(v, PV):
        return build_packet(loaded, variant, v, how, rng)
    if isinstance(v, list):
        return [_real_val(loaded, variant, x, how, rng) for x in v]
    return v
