"""C09  Deferred field expressions mean what the same Python expression means.

Differential monitor with an independent oracle.  A seeded generator produces expression
TREES (own small AST) over the fields of a real packet class: every kind of field an expression can
name - unsigned Int, signed Int, members of a Bits run, fixed and variable Data, a repeated Int, an
optional Int and an optional Data (None vs present), and fields WITH A DESCRIPTOR (AutoLength of a field
parsed later, AutoLength of a field declared after the expression, Auto(lambda), a duck-typed user
descriptor on an Int, a Data and a Bits member).  Fields of a nested packet cannot be named by the
expression language (Ref defines no operators / attribute access; the docs use callables for that).
For a described field "the already-parsed value" is the value decoded from the input bytes (what the
field's hidden slot holds), which the harness decodes itself; what the descriptor would show is only
modelled to COUNT the evaluations in which the two differ.  Every tree is rendered twice:

  (1) as bisturi source text (`((a + 3) * b)`, `(8 - a)`, `seq[(a & 1)]`, `a.chooses(k0=.., ..)` ...)
      which is `eval`-ed over the class's REAL field objects - so Python itself dispatches to the
      operator methods installed by bisturi.deferred (direct and reflected) - then compiled with
      compile_expr_into_callable / normalize_*_condition_into_a_callable and called on a packet
      obtained by unpacking concrete bytes;
  (2) as strict, eager, left-to-right Python evaluation of the same tree on the parsed values
      (a tree walk; cross-checked against `eval` of the tree rendered as plain Python source).

Value AND type must agree (True vs 1 matters), or both must raise the same exception type.

Part 1   random trees through the compiled callable (all operators, both operand orders, nesting).
         Each callable is compiled once and called as a HISTORY (inputs on which the expression raises
         first, valid inputs after, the first input again): a compiled callable must be stateless.
         SIBLING trees (one constant changed, hash-equal where possible) are compiled over the same field
         objects in the same process and compared with their own eager value: two different expressions
         must never be confused with one another.
Part 1b  bare fields as conditions (truth / length path of normalize_raw_condition_into_a_callable).
Part 1c  TABLES: chooses in every form (dict, keyword, list, tuple, positional) and if_true_then_else (list, tuple,
         positional) over the space of key types (int, negative int, bool, 0/False and 1/True/1.0 coincidences, float,
         bytes, str, b'ab' and 'ab' both present, tuples, None, all mixed), selector types (int / signed / bit
         fields, comparisons, floats, byte strings of Data fields and their slices, optional fields that are None, a
         list, and the LABEL picked by an inner table: multi-level tables) and option values (constants of every type,
         fields, sub-expressions, nested tables). Oracle: `{..}[sel]` / `[..][sel]` / `(..)[sel]` / `x if c else y`
         evaluated eagerly (KeyError / IndexError / TypeError alike). The keyword form means {b'<name>': ..}[sel] as far
         as the docs show it (a byte-string selector); a TEXT selector against keyword names is counted, not judged.
         Keyword names that collide with parameter names of bisturi's own functions (F20: the keyword A).
Part 2c  the same tables as a Data size (multi-level; a missing key must surface as PacketError) and as a when-condition.
Part 2   integer-valued trees placed as `Data(expr)`, `.repeated(expr)`, `.when(expr)`,
         `.repeated(2, when=expr)` and `Ref(expr.chooses(Data(1), ..., Data(4)))` in freshly defined classes,
         observed through Packet.unpack; bare fields additionally as `Data(2).at(field)` (Move takes a field
         or a callable; it does not compile expressions).
"""
import hashlib
import os
import sys
import time

from ..common import rng_for

LEVEL = "exploration"
SHARDS = {"quick": 1, "thorough": 16}
MIN_NONTRIVIAL = 50
REQUIRED = (
    "p1_values_compared", "p1_exceptions_compared", "p1_reflected_const_left_evaluated",
    "p1_unary_evaluated", "p1_index_or_slice_evaluated", "p1_chooses_evaluated", "p1_ite_evaluated",
    "p1b_truth_conditions", "p1b_length_conditions",
    "p2_size_len_checked", "p2_size_negative_packeterror", "p2_count_checked",
    "p2_when_present", "p2_when_absent", "p2_expr_exception_as_packeterror",
    "p2_field_condition_checked",
    # sibling pass: expressions differing in one (hash-equal) constant, same field objects, same process
    "p1_sibling_pairs_compared", "p1_sibling_hash_equal_pairs_compared", "p1_sibling_hash_equal_pairs_discriminating",
    "p2_sibling_pairs_compared", "p2_sibling_hash_equal_pairs_compared", "p2_sibling_hash_equal_pairs_discriminating",
    # history pass: the same compiled callable / class evaluated again after an evaluation that raised
    "p1_evaluations_after_raise", "p1_value_evaluations_after_raise", "p2_valid_parse_after_failing_parse",
    # leaf kinds: described fields (evaluations whose outcome differs between the parsed value and the value
    # the descriptor shows), bit fields, optional fields (None / present), repeated and byte-string fields
    "p1_described_leaf_evaluations", "p1_described_leaf_evaluations_discriminating",
    "p1_described_autolength_leaf_discriminating", "p1_described_auto_leaf_discriminating",
    "p1_described_user_leaf_discriminating", "p1_described_leaf_discriminating_by_exception",
    "p1_bits_leaf_trees_evaluated", "p1_repeated_leaf_trees_evaluated", "p1_bytes_leaf_trees_evaluated",
    "p1_optional_leaf_none_evaluations", "p1_optional_leaf_present_evaluations",
    "p1b_described_conditions_discriminating",
    "p2_described_leaf_placements", "p2_described_leaf_placements_discriminating",
    "p2_described_unparsed_tracked_leaf_placements",
    "p2_described_field_placements", "p2_described_field_placements_discriminating",
    "p2_ref_selected", "p2_at_position_checked",
)
RULE = {
    "quick": "Part 1: 30000 seeded random expression trees, nesting depth 1..4, over 19 fields of a packet class "
             "(Int, signed Int, 4 Bits members, Data fixed/variable, repeated Int, optional Int, optional Data, and 6 "
             "fields with a descriptor: AutoLength x2, Auto(lambda), a user descriptor on Int / Data / Bits; about a third "
             "of the integer leaves are described fields whose bytes are drawn independently of what the descriptor shows) "
             "(3 code-generation option sets), each compiled ONCE and called as a history on 3 random inputs ordered "
             "raising-inputs-first, then valid ones, then the first input again; for 30% of the trees 1-2 sibling trees "
             "(exactly one constant changed, hash-equal where possible: -1/-2, c +- 2^61-1, int(hash(float))) are compiled "
             "right after over the same field objects and played on the same history: every binary operator of "
             "deferred.BinaryOperationsByCategory with operand shapes field/const, const/field, field/field, "
             "expr/expr, unary - ~ truth len, index, constant slices, chooses (list, tuple, dict, positional, keyword), "
             "if_true_then_else (list, tuple, positional); ~6% deliberately ill-typed operands so exceptions are compared. "
             "Part 1b: every field as a bare condition. Part 2: 300 integer-valued trees x 5 placements "
             "(Data size, repeat count, when, repeated-when, Ref selector) = 1500 fresh classes x 6 inputs (failing parses first, "
             "then valid, then the first again), half of the classes carrying a sibling expression as a second field y after x; "
             "a field zz tracked by the described field dz is declared AFTER x / y, so dz's descriptor cannot compute while x is parsed; "
             "plus bare-field placements (when for all 19 fields; size, count, Ref selector, Move position for 7 small ones). "
             "Part 1c: 12000 seeded table trees cycling over 8 forms (dict x3, keyword, list, tuple, positional, "
             "if_true_then_else) x 14 key-type mixes (int, str, negative, bytes, bool, b'x'+'x' twins, bool/int coincidences, "
             "float, tuple, None, mixed) x selector kinds chosen to match AND to mismatch the key type (fields, comparisons, "
             "floats, Data bytes and slices, optional fields, a list, labels of type str / bytes / tuple / None / int / bool "
             "picked by an inner table in any form) x option values (38% constants of 10 types, fields, random sub-expressions, "
             "options that raise on some inputs, operators applied to text labels, nested tables), nesting 1..2 below the top "
             "table, 3 code-generation option sets, compiled once and played on 3 inputs (raising first, first input again); "
             "keyword names A, B, C, self, cls, op, .. as compiled expression and as Data size in a class body; "
             "Part 2c: 150 fresh classes (100 tables as Data size over 10 key-type mixes x 6 forms, 50 tables / "
             "if_true_then_else of any value type as when-condition) x 6 inputs. "
             "A case is one tree (non-trivial: has at least one operator node); distinct = distinct expression sources.",
    "thorough": "As quick with ~1M trees (62500 per shard x 16), depth 1..6, histories over 3 inputs, siblings for 30%; "
                "Part 2: 350 trees x 5 placements per shard (28000 classes) x 6 inputs, siblings in half of them. "
                "Part 1c: 30000 table trees per shard (480000), Part 2c: 300 classes per shard, as in quick.",
}
ASSUMPTIONS = [
    "eager reference = strict left-to-right evaluation: selector first, then every option of chooses / "
    "if_true_then_else is evaluated (so an exception in an unselected option is raised)",
    "'same kind of exception' = identical exception class; messages are not compared",
    "a constant on the left of a comparison makes Python call the reflected comparison (3 < a builds a > 3); "
    "only the resulting value/exception type is compared",
    "guard (watchdog hygiene): trees whose eager evaluation reaches pow/lshift with exponent/shift > 64 or an int operand "
    "above 2^256 (or a left operand above 2^20, so that an operand-swapping fault cannot hang the run), or a "
    "sequence repetition by more than 1024, are skipped BEFORE the library is called and counted",
    "a bare field as condition is judged by truthiness only (bool(result) == bool(value)); exact truth/len "
    "values are judged through the explicit .__nonzero__() / .__len__() nodes inside trees",
    "Part 2: a Data size / count that is not an int, or larger than the bytes supplied, is not judged beyond "
    "'no success with a wrong length'; negative size must be a PacketError; negative count gives an empty list",
    "Part 2 sibling field y: which of x / y failed is read from the innermost entry of PacketError.fields_stack; y is "
    "judged only when x parsed (or is unjudged) on that input",
    "for a field with a descriptor (.describe) 'the already-parsed value' is the value parsed from the bytes (what the "
    "field's hidden _described_<name> slot holds after the field was unpacked), not what the descriptor computes from "
    "other fields; the harness decodes it from the input bytes itself",
    "fields of a nested packet are not operands: Ref has no deferred operators and no attribute access, the expression "
    "language cannot name them",
    "Ref placement: the eager meaning of sel.chooses(Data(1), Data(2), Data(3), Data(4)) is the sel-th element of that tuple; "
    "judged by the number of bytes the field took. Move (.at) accepts a field or a callable only, so it is exercised with "
    "bare fields",
    "if_true_then_else is exercised with exactly two alternatives (list, tuple or positional); dict/keyword forms "
    "of if_true_then_else have no Python meaning fixed by the property",
    "eager meaning of the forms of x.chooses: ({k: v, ..}) -> {k: v, ..}[x]; ([v, ..]) -> [v, ..][x]; ((v, ..)) and (v, w, ..) "
    "-> (v, ..)[x]; (k=v, ..) -> {b'k': v, ..}[x] - the keyword form is a library convention: the docs (reference/15) show "
    "keyword names selected by a BYTE-string field (size_type.chooses(small=2, ..) with size_type == b'small') and call it a "
    "shortcut for an explicit dictionary when the names are valid Python names; it is judged for every selector that is not a "
    "text (str) value - bytes hit or miss, int / None / tuple / list miss or are unhashable under either reading - and only "
    "counted for text selectors (extra p1c_kw_text_selector_library_outcomes)",
    "keys of a dict display that are equal (1 / True / 1.0, (1,) / (True,)) collapse in Python before bisturi is called "
    "(the earlier value object is dropped, the later one moves to the earlier position); the generator gives such keys "
    "constant values so that the collapse is not observable, the coincidence of the SELECTOR with a key of another type "
    "(True selects the key 1) is judged",
    "not judged, only observed (coverage set p1c_unjudged_forms_observed): chooses([]) / chooses({}) (rejected when written), a "
    "single positional argument that is neither list, tuple nor dict (the docs demand one of those), keyword names that are "
    "not ascii, if_true_then_else with other than two alternatives or in dict / keyword form",
]

# ------------------------------------------------------------------------------------------
# operand class
# ------------------------------------------------------------------------------------------
OPTION_SETS = [
    ("generic", "{'generate_for_pack': False, 'generate_for_unpack': False}"),
    ("default", "{}"),
    ("novector", "{'vectorize': False}"),
]

HEADER = (
    "from bisturi.packet import Packet\n"
    "from bisturi.field import Int, Data, Bits, Ref\n"
    "from bisturi.descriptor import Auto, AutoLength\n\n\n"
    "class Shown(object):\n"
    "    # duck-typed user descriptor: the public attribute shows the stored value plus a delta\n"
    "    def __init__(self, delta):\n"
    "        self.delta = delta\n\n"
    "    def __get__(self, instance, owner):\n"
    "        if instance is None:\n"
    "            return self\n"
    "        return getattr(instance, self.real_field_name) + self.delta\n\n"
    "    def __set__(self, instance, val):\n"
    "        setattr(instance, self.real_field_name, val)\n\n\n"
)

OPERAND_BODY = (
    "    a = Int(1)\n"
    "    b = Int(1)\n"
    "    s = Int(2, signed=True)\n"
    "    bt1 = Bits(3)\n"
    "    bt2 = Bits(5)\n"
    "    bd1 = Bits(4).describe(Shown(100))\n"
    "    bd2 = Bits(4)\n"
    "    n = Int(1)\n"
    "    m = Int(1)\n"
    "    dl = Int(1).describe(AutoLength('v'))\n"
    "    da = Int(1).describe(Auto(lambda pkt: (pkt.a + pkt.b) & 255))\n"
    "    du = Int(2).describe(Shown(1000))\n"
    "    dz = Int(1).describe(AutoLength('zz'))\n"
    "    d = Data(4)\n"
    "    dd = Data(2).describe(Shown(b'#'))\n"
    "    v = Data(n)\n"
    "    seq = Int(1).repeated(m)\n"
    "    o = Int(1).when(a)\n"
    "    ov = Data(2).when(b & 1)\n"
)
# declared after the expression fields x / y of Part 2: the field tracked by dz is NOT parsed yet when x / y are
OPERAND_TAIL = "    zz = Data(1)\n"

FIELD_NAMES = ("a", "b", "s", "bt1", "bt2", "bd1", "bd2", "n", "m", "dl", "da", "du", "dz", "d", "dd", "v", "seq", "o", "ov")
FKIND = {"a": "int", "b": "int", "s": "int", "bt1": "int", "bt2": "int", "bd1": "int", "bd2": "int", "n": "int", "m": "int",
         "dl": "int", "da": "int", "du": "int", "dz": "int",
         "d": "data", "dd": "data", "v": "data", "seq": "seq", "o": "opt", "ov": "opt"}
INT_LEAVES = ("a", "a", "b", "b", "s", "s", "bt1", "bt2", "n", "m", "o", "dl", "dl", "da", "du", "dz", "bd1", "bd2")
BYTES_LEAVES = ("d", "d", "v", "dd", "ov")
LIST_LEAVES = ("seq",)
SMALL_LEAVES = ("n", "m", "bt1", "dl", "dz")       # small values: selectors, indexes, sizes

# fields with a descriptor: descriptor kind, and an independent model of what the descriptor shows
# (on a completely parsed packet) - used only to COUNT the evaluations where the parsed value and
# the shown value lead to different outcomes, never as the oracle
DESCRIBED = {"dl": "autolength", "dz": "autolength", "da": "auto", "du": "user", "dd": "user", "bd1": "user"}
SHOWN = {
    "dl": lambda v: len(v["v"]),
    "dz": lambda v: 1,
    "da": lambda v: (v["a"] + v["b"]) & 255,
    "du": lambda v: v["du"] + 1000,
    "dd": lambda v: v["dd"] + b"#",
    "bd1": lambda v: v["bd1"] + 100,
}
# the slot of the packet that holds the value parsed from the bytes
ATTR = {nm: ("_described_" + nm if nm in DESCRIBED else nm) for nm in FIELD_NAMES}
BITS_LEAVES = frozenset(("bt1", "bt2", "bd1", "bd2"))
OPT_LEAVES = frozenset(("o", "ov"))
BYTES_FIELD_LEAVES = frozenset(("d", "dd", "v"))

BYTE_PICKS = (0, 0, 1, 1, 2, 2, 3, 3, 4, 5, 7, 8, 15, 16, 63, 64, 65, 97, 127, 128, 254, 255)
S_PICKS = (-32768, -300, -65, -3, -2, -1, -1, 0, 0, 1, 1, 2, 3, 5, 7, 64, 255, 256, 32767)
ALPHABET = (0x61, 0x62, 0x61, 0x62, 0x61, 0x62, 0x00, 0x25, 0x64, 0xFF, 0x41, 0x01)


def class_src(name, options, extra=""):
    return "class %s(Packet):\n    __bisturi__ = %s\n%s%s%s\n" % (name, options, OPERAND_BODY, extra, OPERAND_TAIL)


def make_input(rng):
    """Concrete bytes for the operand fields plus the values they encode (independent arithmetic)."""
    def byte():
        return rng.choice(BYTE_PICKS) if rng.random() < 0.7 else rng.randrange(256)
    a = byte()
    b = byte()
    s = rng.choice(S_PICKS) if rng.random() < 0.7 else rng.randrange(-32768, 32768)
    bt1 = rng.randrange(8)
    bt2 = rng.randrange(32)
    bd1 = rng.randrange(16)
    bd2 = rng.randrange(16)
    n = rng.choice((0, 1, 1, 2, 2, 3, 4))
    m = rng.choice((0, 1, 2, 3, 3, 4, 4))
    # the bytes of the described fields are drawn independently of what their descriptors would compute
    dl = rng.choice((0, 1, 1, 2, 2, 3, 3, 4, 5, 7))
    da = byte()
    du = rng.choice((0, 1, 2, 3, 4, 258, 65535)) if rng.random() < 0.6 else rng.randrange(65536)
    dz = rng.choice((0, 1, 1, 2, 3, 4, 5)) if rng.random() < 0.8 else byte()
    d = bytes(rng.choice(ALPHABET) for _ in range(4))
    dd = bytes(rng.choice(ALPHABET) for _ in range(2))
    v = bytes(rng.choice(ALPHABET) for _ in range(n))
    seq = [byte() for _ in range(m)]
    o = byte() if a else None
    ov = bytes(rng.choice(ALPHABET) for _ in range(2)) if b & 1 else None
    raw = (bytes([a, b]) + s.to_bytes(2, "big", signed=True) + bytes([(bt1 << 5) | bt2, (bd1 << 4) | bd2, n, m])
           + bytes([dl, da]) + du.to_bytes(2, "big") + bytes([dz])
           + d + dd + v + bytes(seq) + (bytes([o]) if a else b"") + (ov if b & 1 else b""))
    vals = {"a": a, "b": b, "s": s, "bt1": bt1, "bt2": bt2, "bd1": bd1, "bd2": bd2, "n": n, "m": m,
            "dl": dl, "da": da, "du": du, "dz": dz, "d": d, "dd": dd, "v": v, "seq": seq, "o": o, "ov": ov}
    return raw, vals


def make_full_input(rng):
    """make_input plus the byte of the trailing field zz (Parts 1 / 1b: nothing is placed before zz)."""
    raw, vals = make_input(rng)
    return raw + bytes([rng.choice(ALPHABET)]), vals


def parsed_values(holder):
    """The values the fields' own slots hold (a described field: its hidden slot, never the descriptor)."""
    return {nm: getattr(holder, ATTR[nm]) for nm in FIELD_NAMES}


def leaf_names(n, out=None):
    """Set of the field names a tree reads."""
    if out is None:
        out = set()
    t = n[0]
    if t == "f":
        out.add(n[1])
    elif t == "u":
        leaf_names(n[2], out)
    elif t == "b":
        leaf_names(n[2], out)
        leaf_names(n[3], out)
    elif t == "i":
        leaf_names(n[1], out)
        leaf_names(n[2], out)
    elif t == "s":
        leaf_names(n[1], out)
    elif t == "c":
        leaf_names(n[2], out)
        for o in n[3]:
            leaf_names(o[1] if n[1] in ("dict", "kw") else o, out)
    elif t == "t":
        leaf_names(n[2], out)
        leaf_names(n[3], out)
        leaf_names(n[4], out)
    return out


# ------------------------------------------------------------------------------------------
# expression trees
#   ('f', name) | ('k', value) | ('u', op, x) | ('b', op, l, r) | ('i', x, idx) | ('s', x, lo, hi, step)
#   ('c', form, sel, opts)   form list|tuple|pos -> opts [node..];  dict|kw -> opts [(key, node)..]
#   ('t', form, cond, x, y)  form list|tuple|pos
# ------------------------------------------------------------------------------------------
ARITH = ("add", "sub", "mul", "truediv", "floordiv", "mod", "pow")
CMP = ("le", "lt", "ge", "gt")
EQ = ("eq", "ne")
LOGIC = ("and_", "or_", "xor", "rshift", "lshift")
ALLBIN = ARITH + CMP + EQ + LOGIC
SYM = {"add": "+", "sub": "-", "mul": "*", "truediv": "/", "floordiv": "//", "mod": "%", "pow": "**",
       "le": "<=", "lt": "<", "ge": ">=", "gt": ">", "eq": "==", "ne": "!=",
       "and_": "&", "or_": "|", "xor": "^", "rshift": ">>", "lshift": "<<"}
BIN = {
    "add": lambda x, y: x + y, "sub": lambda x, y: x - y, "mul": lambda x, y: x * y,
    "truediv": lambda x, y: x / y, "floordiv": lambda x, y: x // y, "mod": lambda x, y: x % y,
    "pow": lambda x, y: x ** y,
    "le": lambda x, y: x <= y, "lt": lambda x, y: x < y, "ge": lambda x, y: x >= y, "gt": lambda x, y: x > y,
    "eq": lambda x, y: x == y, "ne": lambda x, y: x != y,
    "and_": lambda x, y: x & y, "or_": lambda x, y: x | y, "xor": lambda x, y: x ^ y,
    "rshift": lambda x, y: x >> y, "lshift": lambda x, y: x << y,
}
UN = {"neg": lambda x: -x, "inv": lambda x: ~x, "truth": lambda x: bool(x), "len": lambda x: len(x)}

INT_CONSTS = (-3, -1, -1, 0, 0, 1, 1, 2, 2, 3, 3, 4, 5, 7, 8, 16, 63, 64, 65, 255, 256, 1000, True, False, 0.5, 2.0)
BYTES_CONSTS = (b"", b"a", b"b", b"ab", b"ba", b"abab", b"%d", b"\x00", b"a%sb")
LIST_CONSTS = ([], [0], [1], [1, 2], [0, 1, 2], [255], [True])
KW_NAMES = ("a", "b", "ab", "ba", "aa", "bb", "abab", "k0", "zz")

BIG = 1 << 256
SWAP_SAFE = 1 << 20


class Skip(Exception):
    pass


class Unjudged(Skip):
    """The eager meaning of this evaluation is not fixed by the statement nor by the docs."""


def node_class(n):
    return "c" if n[0] == "k" else ("f" if n[0] == "f" else "e")


def supports(n, op):
    """Does operand n carry the bisturi method for binary op (direct or reflected)?"""
    if n[0] == "k":
        return False
    if n[0] == "f":
        k = FKIND[n[1]]
        if k in ("data", "seq"):
            return op in EQ
        return True
    return True


def valid_bin(op, l, r):
    if l[0] == "k" and r[0] == "k":
        return False
    if l[0] == "k" and isinstance(l[1], bytes) and op == "mod":
        return False  # bytes.__mod__ formats eagerly at build time, never reaches the field
    return supports(l, op) or supports(r, op)


def can_unary(op, x):
    if x[0] == "k":
        return False
    if x[0] == "f":
        k = FKIND[x[1]]
        if op in ("neg", "inv", "truth"):
            return k in ("int", "opt")
        return k in ("data", "seq", "opt")
    return True


def can_index(x):
    if x[0] == "k":
        return False
    if x[0] == "f":
        return FKIND[x[1]] in ("data", "seq", "opt")
    return True


def depth(n):
    t = n[0]
    if t in ("f", "k"):
        return 0
    if t == "u":
        return 1 + depth(n[2])
    if t == "b":
        return 1 + max(depth(n[2]), depth(n[3]))
    if t == "i":
        return 1 + max(depth(n[1]), depth(n[2]))
    if t == "s":
        return 1 + depth(n[1])
    if t == "c":
        subs = [n[2]] + [(o[1] if n[1] in ("dict", "kw") else o) for o in n[3]]
        return 1 + max(depth(x) for x in subs)
    if t == "t":
        return 1 + max(depth(n[2]), depth(n[3]), depth(n[4]))
    raise AssertionError(t)


class Gen:
    def __init__(self, rng, p_ill=0.06):
        self.rng = rng
        self.p_ill = p_ill

    # -- leaves --------------------------------------------------------------------------
    def const(self, K):
        r = self.rng
        if K == "INT":
            return ("k", r.choice(INT_CONSTS))
        if K == "BYTES":
            return ("k", r.choice(BYTES_CONSTS))
        if K == "LIST":
            return ("k", list(r.choice(LIST_CONSTS)))
        return self.const(r.choice(("INT", "INT", "BYTES", "LIST")))

    def leaf(self, K):
        r = self.rng
        if K == "INT":
            return ("f", r.choice(INT_LEAVES))
        if K == "BYTES":
            return ("f", r.choice(BYTES_LEAVES))
        if K == "LIST":
            return ("f", r.choice(LIST_LEAVES))
        return ("f", r.choice(FIELD_NAMES))

    def kind(self, K):
        if K == "ANY" or self.rng.random() < self.p_ill:
            return self.rng.choice(("INT", "INT", "BYTES", "LIST"))
        return K

    def sub(self, K, D):
        """A deferred (field-containing) subtree of kind K and depth <= D."""
        r = self.rng
        d = D if r.random() < 0.6 else r.randint(0, max(D, 0))
        return self.gen(self.kind(K), d)

    def opnd(self, K, D, pconst=0.3):
        if self.rng.random() < pconst:
            return self.const(self.kind(K))
        return self.sub(K, D)

    # -- productions ---------------------------------------------------------------------
    def gen(self, K, D):
        if K == "ANY":
            K = self.rng.choice(("INT", "INT", "BYTES", "LIST"))
        if D <= 0:
            return self.leaf(K)
        for _ in range(30):
            n = self._try(K, D)
            if n is not None:
                return n
        return self.leaf(K)

    def _binary(self, ops, KL, KR, D):
        r = self.rng
        op = r.choice(ops)
        shape = r.choice(("dc", "cd", "dd", "dd"))
        l = self.const(self.kind(KL)) if shape[0] == "c" else self.sub(KL, D - 1)
        rr = self.const(self.kind(KR)) if shape[1] == "c" else self.sub(KR, D - 1)
        if not valid_bin(op, l, rr):
            return None
        return ("b", op, l, rr)

    def _slice(self, K, D):
        r = self.rng
        x = self.sub(K, D - 1)
        if not can_index(x):
            return None
        lo = r.choice((None, None, 0, 1, 1, 2, 3, 5, -1, -2, -3))
        hi = r.choice((None, None, 0, 1, 2, 2, 3, 4, 5, -1, -2))
        st = None if r.random() < 0.88 else r.choice((2, -1, 1, 0))
        return ("s", x, lo, hi, st)

    def _chooses(self, K, D):
        r = self.rng
        form = r.choice(("list", "list", "tuple", "pos", "pos", "dict", "dict", "kw", "kw"))
        nopt = r.randint(2, 4)
        opts = [self.opnd(K, D - 1, 0.45) for _ in range(nopt)]
        if form in ("list", "tuple", "pos"):
            sel = self.sub("INT", D - 1)
            if D == 1 and r.random() < 0.7:
                sel = ("f", r.choice(SMALL_LEAVES))
            if r.random() < 0.8 and D >= 2:
                # keep the selector in range often: (x & 1), (x % nopt), (x > c)
                how = r.choice(("and", "mod", "cmp"))
                inner = self.sub("INT", D - 2)
                if how == "and":
                    sel = ("b", "and_", inner, ("k", 1))
                elif how == "mod":
                    sel = ("b", "mod", inner, ("k", nopt))
                else:
                    sel = ("b", r.choice(CMP + EQ), inner, ("k", r.choice((0, 1, 2, 3, 64))))
                if not valid_bin(sel[1], sel[2], sel[3]):
                    return None
            return ("c", form, sel, opts)
        if form == "dict":
            keykind = r.choice(("int", "int", "bool", "bytes"))
            if keykind == "int":
                keys = r.sample((0, 1, 2, 3, 4, 5, 7, 255, -1) if r.random() < 0.3 else (0, 1, 2, 3, 4), nopt)
                sel = self.sub("INT", D - 1)
                if D == 1 and r.random() < 0.7:
                    sel = ("f", r.choice(SMALL_LEAVES))
                elif D >= 2 and r.random() < 0.7:
                    sel = ("b", r.choice(("and_", "mod")), self.sub("INT", D - 2), ("k", r.choice((3, 4, 5))))
                    if not valid_bin(sel[1], sel[2], sel[3]):
                        return None
            elif keykind == "bool":
                keys = [True, False] if r.random() < 0.5 else [False, True]
                opts = opts[:2]
                inner = self.sub("INT", D - 1) if D < 2 else self.sub("INT", D - 2)
                if D >= 2:
                    sel = ("b", r.choice(CMP + EQ), inner, ("k", r.choice((0, 1, 2, 3, 64))))
                    if not valid_bin(sel[1], sel[2], sel[3]):
                        return None
                else:
                    sel = inner
            else:
                keys = r.sample((b"a", b"b", b"ab", b"ba", b"", b"abab", b"aa"), nopt)
                sel = self._bytes_selector(D)
            return ("c", "dict", sel, list(zip(keys, opts)))
        # keyword form: keys arrive as ascii bytes
        names = r.sample(KW_NAMES, nopt)
        sel = self._bytes_selector(D)
        return ("c", "kw", sel, [(nm.encode("ascii"), o) for nm, o in zip(names, opts)])

    def _bytes_selector(self, D):
        r = self.rng
        if D >= 2 and r.random() < 0.6:
            return ("s", ("f", r.choice(("d", "d", "v", "dd"))), r.choice((0, 0, 1, 2)), r.choice((1, 2, 2, 3, None)), None)
        if D == 1:
            return ("f", r.choice(("v", "v", "d", "dd")))
        return self.sub("BYTES", D - 1)

    def _ite(self, K, D):
        r = self.rng
        cond = self.sub("INT", D - 1)
        if r.random() < 0.5 and D >= 2:
            inner = self.sub("INT", D - 2)
            cond = ("b", r.choice(CMP + EQ), inner, ("k", r.choice((0, 1, 2, 3, 64))))
            if not valid_bin(cond[1], cond[2], cond[3]):
                return None
        x = self.opnd(K, D - 1, 0.4)
        y = self.opnd(K, D - 1, 0.4)
        return ("t", r.choice(("list", "tuple", "pos", "pos")), cond, x, y)

    def _try(self, K, D):
        r = self.rng
        p = r.random()
        if K == "INT":
            if p < 0.56:
                return self._binary(ALLBIN, "INT", "INT", D)
            if p < 0.66:
                op = r.choice(("neg", "inv", "neg", "inv", "truth"))
                x = self.sub("INT", D - 1)
                return ("u", op, x) if can_unary(op, x) else None
            if p < 0.76:
                x = self.sub(r.choice(("BYTES", "LIST")), D - 1)
                if not can_index(x):
                    return None
                if r.random() < 0.6:
                    idx = ("k", r.choice((0, 0, 1, 1, 2, 3, 4, -1, -2, -5, True)))
                else:
                    idx = self.sub("INT", D - 1)
                    if D == 1 and r.random() < 0.6:
                        idx = ("f", r.choice(SMALL_LEAVES))
                    if r.random() < 0.75 and D >= 2:
                        idx = ("b", "and_", self.sub("INT", D - 2), ("k", r.choice((1, 3))))
                        if not valid_bin("and_", idx[2], idx[3]):
                            return None
                return ("i", x, idx)
            if p < 0.80:
                x = self.sub(r.choice(("BYTES", "LIST")), D - 1)
                return ("u", "len", x) if can_unary("len", x) else None
            if p < 0.86:
                KK = r.choice(("BYTES", "LIST"))
                return self._binary(EQ, KK, KK, D)
            if p < 0.95:
                return self._chooses("INT", D)
            return self._ite("INT", D)
        # BYTES / LIST
        if p < 0.40:
            return self._slice(K, D)
        if p < 0.62:
            return self._binary(("add",), K, K, D)
        if p < 0.72:
            op = "mul"
            if r.random() < 0.5:
                l, rr = self.sub(K, D - 1), (("k", r.choice((0, 1, 2, 3))) if r.random() < 0.6 else self.sub("INT", D - 1))
            else:
                l, rr = (("k", r.choice((0, 1, 2, 3))) if r.random() < 0.6 else self.sub("INT", D - 1)), self.sub(K, D - 1)
            return ("b", op, l, rr) if valid_bin(op, l, rr) else None
        if p < 0.76 and K == "BYTES":
            l, rr = self.sub("BYTES", D - 1), self.opnd("INT", D - 1)
            return ("b", "mod", l, rr) if valid_bin("mod", l, rr) else None
        if p < 0.90:
            return self._chooses(K, D)
        return self._ite(K, D)


# ------------------------------------------------------------------------------------------
# rendering
# ------------------------------------------------------------------------------------------
def krepr(v):
    if isinstance(v, bool):
        return repr(v)
    if isinstance(v, (int, float)) and v < 0:
        return "(%r)" % (v,)
    return repr(v)


def _slice_src(lo, hi, st):
    s = "%s:%s" % ("" if lo is None else lo, "" if hi is None else hi)
    if st is not None:
        s += ":%s" % st
    return s


def render_def(n):
    """bisturi source text of the tree (names are field objects)."""
    t = n[0]
    if t == "f":
        return n[1]
    if t == "k":
        return krepr(n[1])
    if t == "u":
        x = render_def(n[2])
        return {"neg": "(-%s)", "inv": "(~%s)", "truth": "%s.__nonzero__()", "len": "%s.__len__()"}[n[1]] % x
    if t == "b":
        return "(%s %s %s)" % (render_def(n[2]), SYM[n[1]], render_def(n[3]))
    if t == "i":
        return "%s[%s]" % (render_def(n[1]), render_def(n[2]))
    if t == "s":
        return "%s[%s]" % (render_def(n[1]), _slice_src(n[2], n[3], n[4]))
    if t == "c":
        form, sel, opts = n[1], render_def(n[2]), n[3]
        if form == "list":
            return "%s.chooses([%s])" % (sel, ", ".join(render_def(o) for o in opts))
        if form == "tuple":
            return "%s.chooses((%s,))" % (sel, ", ".join(render_def(o) for o in opts))
        if form == "pos":
            return "%s.chooses(%s)" % (sel, ", ".join(render_def(o) for o in opts))
        if form == "dict":
            return "%s.chooses({%s})" % (sel, ", ".join("%r: %s" % (k, render_def(o)) for k, o in opts))
        return "%s.chooses(%s)" % (sel, ", ".join("%s=%s" % (k.decode("ascii"), render_def(o)) for k, o in opts))
    if t == "t":
        form, c, x, y = n[1], render_def(n[2]), render_def(n[3]), render_def(n[4])
        if form == "list":
            return "%s.if_true_then_else([%s, %s])" % (c, x, y)
        if form == "tuple":
            return "%s.if_true_then_else((%s, %s))" % (c, x, y)
        return "%s.if_true_then_else(%s, %s)" % (c, x, y)
    raise AssertionError(t)


def render_py(n):
    """The same tree as plain eager Python over values (helpers _ch/_ite keep strict left-to-right order)."""
    t = n[0]
    if t == "f":
        return n[1]
    if t == "k":
        return krepr(n[1])
    if t == "u":
        x = render_py(n[2])
        return {"neg": "(-%s)", "inv": "(~%s)", "truth": "bool(%s)", "len": "len(%s)"}[n[1]] % x
    if t == "b":
        return "(%s %s %s)" % (render_py(n[2]), SYM[n[1]], render_py(n[3]))
    if t == "i":
        return "%s[%s]" % (render_py(n[1]), render_py(n[2]))
    if t == "s":
        return "%s[%s]" % (render_py(n[1]), _slice_src(n[2], n[3], n[4]))
    if t == "c":
        form, sel, opts = n[1], render_py(n[2]), n[3]
        if form == "list":
            return "_ch(%s, [%s])" % (sel, ", ".join(render_py(o) for o in opts))
        if form in ("tuple", "pos"):
            return "_ch(%s, (%s,))" % (sel, ", ".join(render_py(o) for o in opts))
        return "_ch(%s, {%s})" % (sel, ", ".join("%r: %s" % (k, render_py(o)) for k, o in opts))
    if t == "t":
        return "_ite(%s, %s, %s)" % (render_py(n[2]), render_py(n[3]), render_py(n[4]))
    raise AssertionError(t)


def _ch(index, options):
    return options[index]


def _ite(cond, if_true, if_false):
    return if_true if cond else if_false


PY_HELPERS = {"__builtins__": {}, "bool": bool, "len": len, "_ch": _ch, "_ite": _ite, "True": True, "False": False}


# ------------------------------------------------------------------------------------------
# eager reference evaluation (tree walk with the watchdog guard)
# ------------------------------------------------------------------------------------------
def _isint(x):
    return isinstance(x, int)


def guard(op, l, r):
    if op in ("pow", "lshift"):
        if _isint(r) and r > 64:
            raise Skip("exponent")
        if (_isint(l) and abs(l) > BIG) or (_isint(r) and abs(r) > BIG):
            raise Skip("operand")
        if _isint(l) and abs(l) > SWAP_SAFE and _isint(r) and abs(r) >= 2:
            raise Skip("swap-hygiene")
        if isinstance(l, float) and _isint(r) and abs(r) > BIG:
            raise Skip("operand")
    elif op == "mul":
        if isinstance(l, (bytes, list, tuple)) and _isint(r) and r > 1024:
            raise Skip("repeat")
        if isinstance(r, (bytes, list, tuple)) and _isint(l) and l > 1024:
            raise Skip("repeat")


def walk(n, vals):
    t = n[0]
    if t == "f":
        return vals[n[1]]
    if t == "k":
        return n[1]
    if t == "u":
        return UN[n[1]](walk(n[2], vals))
    if t == "b":
        l = walk(n[2], vals)
        r = walk(n[3], vals)
        guard(n[1], l, r)
        return BIN[n[1]](l, r)
    if t == "i":
        x = walk(n[1], vals)
        i = walk(n[2], vals)
        return x[i]
    if t == "s":
        x = walk(n[1], vals)
        return x[slice(n[2], n[3], n[4])]
    if t == "c":
        sel = walk(n[2], vals)
        if n[1] in ("dict", "kw"):
            table = {}
            for k, o in n[3]:
                table[k] = walk(o, vals)
            if n[1] == "kw" and isinstance(sel, str):
                # the docs show keyword names matched by a BYTE-string selector (size_type.chooses(small=2, ..) with
                # size_type == b'small'); whether a text selector matches a keyword name is stated nowhere
                raise Unjudged("kw-text-selector")
            return table[sel]
        got = [walk(o, vals) for o in n[3]]
        if n[1] != "list":
            got = tuple(got)
        return got[sel]
    if t == "t":
        c = walk(n[2], vals)
        x = walk(n[3], vals)
        y = walk(n[4], vals)
        return x if c else y
    raise AssertionError(t)


def eager(n, vals):
    """('val', v) | ('exc', ExceptionClass) | raises Skip."""
    try:
        return ("val", walk(n, vals))
    except Skip:
        raise
    except Exception as e:
        return ("exc", type(e))


def eager_from_source(psrc_code, vals):
    env = dict(PY_HELPERS)
    env.update(vals)
    try:
        return ("val", eval(psrc_code, env))
    except Exception as e:
        return ("exc", type(e))


def same(x, y):
    if type(x) is not type(y):
        return False
    if isinstance(x, (float, complex)):
        return repr(x) == repr(y)
    if isinstance(x, (list, tuple)):
        return len(x) == len(y) and all(same(p, q) for p, q in zip(x, y))
    return x == y


def same_outcome(p, q):
    if p[0] != q[0]:
        return False
    if p[0] == "exc":
        return p[1] is q[1]
    return same(p[1], q[1])


def show(outcome):
    if outcome[0] == "exc":
        return "raises %s" % outcome[1].__name__
    r = repr(outcome[1])
    if len(r) > 300:
        r = r[:300] + "...(%d chars)" % len(r)
    return "%s: %s" % (type(outcome[1]).__name__, r)


HASH_M = sys.hash_info.modulus


def hash_equal_other(c):
    """A number of a different value whose Python hash equals hash(c) (-1/-2, c +- hash modulus,
    int(hash(float)))."""
    if isinstance(c, bool):
        cand = int(c) + HASH_M
    elif isinstance(c, int):
        cand = -2 if c == -1 else (-1 if c == -2 else (c + HASH_M if c >= 0 else c - HASH_M))
    elif isinstance(c, float):
        h = hash(c)
        cand = h if h != c else (h + HASH_M if h >= 0 else h - HASH_M)
    else:
        return None
    return cand if (hash(cand) == hash(c) and cand != c) else None


def sibling_value(rng, c):
    """(a different constant of the same family, hash-equal?)"""
    if isinstance(c, (bool, int, float)):
        new = None
        if rng.random() < 0.8:
            new = hash_equal_other(c)
        if new is None:
            if isinstance(c, bool):
                new = not c
            elif isinstance(c, float):
                new = c + 1.0
            else:
                new = c + rng.choice((1, 2, 3))
        return new, hash(new) == hash(c)
    if isinstance(c, bytes):
        return rng.choice([b for b in BYTES_CONSTS if b != c]), False
    return list(rng.choice([x for x in LIST_CONSTS if x != c])), False


def list_consts(n, out):
    t = n[0]
    if t == "k":
        out.append(n[1])
    elif t == "u":
        list_consts(n[2], out)
    elif t == "b":
        list_consts(n[2], out)
        list_consts(n[3], out)
    elif t == "i":
        list_consts(n[1], out)
        list_consts(n[2], out)
    elif t == "s":
        list_consts(n[1], out)
    elif t == "c":
        list_consts(n[2], out)
        for o in n[3]:
            list_consts(o[1] if n[1] in ("dict", "kw") else o, out)
    elif t == "t":
        list_consts(n[2], out)
        list_consts(n[3], out)
        list_consts(n[4], out)
    return out


def map_const(n, target, value, ctr):
    """Copy of n with the target-th constant (pre-order, as list_consts) replaced by value."""
    t = n[0]
    if t == "k":
        i = ctr[0]
        ctr[0] += 1
        return ("k", value) if i == target else n
    if t == "f":
        return n
    m = lambda x: map_const(x, target, value, ctr)
    if t == "u":
        return ("u", n[1], m(n[2]))
    if t == "b":
        l = m(n[2])
        return ("b", n[1], l, m(n[3]))
    if t == "i":
        x = m(n[1])
        return ("i", x, m(n[2]))
    if t == "s":
        return ("s", m(n[1]), n[2], n[3], n[4])
    if t == "c":
        sel = m(n[2])
        if n[1] in ("dict", "kw"):
            return ("c", n[1], sel, [(k, m(o)) for k, o in n[3]])
        return ("c", n[1], sel, [m(o) for o in n[3]])
    if t == "t":
        c = m(n[2])
        x = m(n[3])
        return ("t", n[1], c, x, m(n[4]))
    raise AssertionError(t)


def make_sibling(rng, tree):
    """(sibling tree, hash-equal?, old constant, new constant) or None when the tree has no constant."""
    consts = list_consts(tree, [])
    if not consts:
        return None
    idx = rng.randrange(len(consts))
    new, heq = sibling_value(rng, consts[idx])
    return map_const(tree, idx, new, [0]), heq, consts[idx], new


def features(n, acc):
    """Collect coverage facts of a tree into acc (a dict of sets/counters)."""
    t = n[0]
    if t == "u":
        acc["unary"].add(n[1])
        features(n[2], acc)
    elif t == "b":
        acc["orders"].add("%s:%s%s" % (n[1], node_class(n[2]), node_class(n[3])))
        if n[2][0] == "k":
            acc["reflected"] = True
        features(n[2], acc)
        features(n[3], acc)
    elif t == "i":
        acc["index"] = True
        features(n[1], acc)
        features(n[2], acc)
    elif t == "s":
        acc["index"] = True
        features(n[1], acc)
    elif t == "c":
        acc["nary"].add("chooses:" + n[1])
        features(n[2], acc)
        for o in n[3]:
            features(o[1] if n[1] in ("dict", "kw") else o, acc)
    elif t == "t":
        acc["nary"].add("if_true_then_else:" + n[1])
        features(n[2], acc)
        features(n[3], acc)
        features(n[4], acc)


def new_acc():
    return {"unary": set(), "orders": set(), "nary": set(), "reflected": False, "index": False}


# ------------------------------------------------------------------------------------------
# class definition helpers
# ------------------------------------------------------------------------------------------
def define(src, scratch, mode):
    """Define the classes of `src` as a user would. mode 'file': a real module in scratch;
    mode 'exec': exec in a namespace without __name__ with cwd = scratch. Returns a namespace dict."""
    from .. import render
    if mode == "file":
        module, _ = render.load_source(src, scratch)
        return vars(module)
    ns = {}
    old = os.getcwd()
    os.chdir(scratch)
    try:
        exec(compile(src, "<c09>", "exec"), ns)
    finally:
        os.chdir(old)
    return ns


def field_env(cls):
    return dict(cls.__bisturi__["original_fields_in_class"])


def key_of(text):
    return hashlib.sha1(text.encode()).hexdigest()[:16]


# ------------------------------------------------------------------------------------------
# Part 1
# ------------------------------------------------------------------------------------------
def part1(run, rng, classes, ntrees, maxdepth, ninputs, sibling_share):
    import bisturi.deferred as bd
    import bisturi.structural_fields as bs
    from bisturi.field import Field
    expr_types = (bd.UnaryExpr, bd.BinaryExpr, bd.NaryExpr)
    compilers = (
        ("compile_expr_into_callable", bd.compile_expr_into_callable),
        ("normalize_raw_condition_into_a_callable", bs.normalize_raw_condition_into_a_callable),
        ("normalize_count_condition_into_a_callable", bs.normalize_count_condition_into_a_callable),
    )
    gen = Gen(rng)
    envs = [(name, opts, cls, field_env(cls)) for name, opts, cls in classes]
    orders_seen = set()
    orders_value_seen = set()
    unary_seen = set()
    nary_seen = set()
    exc_seen = {}
    type_seen = {}
    depth_hist = {}
    samples = 0
    depth_weights = list(range(1, maxdepth + 1))

    def build_and_compile(tree, dsrc, env, cn, compiler, w):
        try:
            built = eval(compile(dsrc, "<c09-expr>", "eval"), dict(env))
        except Exception as e:
            run.case(key=key_of(dsrc))
            run.violation("an expression over fields with supported operators was rejected when written "
                          "(%s: %s)" % (type(e).__name__, str(e)[:120]), w)
            return None
        if not isinstance(built, expr_types + (Field,)):
            run.count("harness_built_object_not_deferred")
            run.inconclusive_because("generator-produced-non-deferred-expression")
            return None
        try:
            return compiler(built)
        except Exception as e:
            run.case(key=key_of(dsrc))
            run.violation("%s raised %s on a well-formed expression tree" % (cn, type(e).__name__),
                          dict(w, error=str(e)[:200]))
            return None

    def eager_history(tree, psrc, cands, crosscheck):
        """[(cand, eager outcome)] for the inputs the guard lets through."""
        out = []
        pcode = compile(psrc, "<c09-py>", "eval") if crosscheck else None
        seen = set()
        for c in cands:
            if id(c) in seen:       # a repeated input of the history
                prev = [h for h in out if h[0] is c]
                if prev:
                    out.append(prev[0])
                continue
            seen.add(id(c))
            try:
                want = eager(tree, c[1])
            except Skip as sk:
                run.count("guard_skipped")
                run.count("guard_skipped_" + str(sk))
                continue
            if crosscheck:
                want2 = eager_from_source(pcode, c[1])
                if not same_outcome(want, want2):
                    run.count("harness_oracle_self_disagreement")
                    run.inconclusive_because("oracle-walk-vs-python-source-disagree: %s" % psrc[:150])
                    continue
            out.append((c, want))
        return out

    def play_history(f, cn, hist, w, primary, sample):
        """Call the SAME compiled callable on every input of the history, in order, and compare each
        call with the eager outcome. Returns (evaluations, gave a value, no violation)."""
        evaluated = 0
        gave_value = False
        raised_before = False
        before = []
        for j, (c, want) in enumerate(hist):
            raw, parsed, pkt = c
            try:
                if j % 2:
                    got = ("val", f(pkt=pkt, raw=raw, offset=0, root=pkt))
                else:
                    got = ("val", f(pkt=pkt))
            except Exception as e:
                got = ("exc", type(e))
            evaluated += 1
            if raised_before:
                run.count("p1_evaluations_after_raise")
                if want[0] == "val":
                    run.count("p1_value_evaluations_after_raise")
            if want[0] == "val":
                gave_value = True
                if primary:
                    run.count("p1_values_compared")
                    tn = type(want[1]).__name__
                    type_seen[tn] = type_seen.get(tn, 0) + 1
                else:
                    run.count("p1_sibling_values_compared")
            else:
                if primary:
                    run.count("p1_exceptions_compared")
                    en = want[1].__name__
                    exc_seen[en] = exc_seen.get(en, 0) + 1
                else:
                    run.count("p1_sibling_exceptions_compared")
            if not same_outcome(want, got):
                what = ("compiled expression and eager Python evaluation disagree (value/type)"
                        if want[0] == got[0] == "val" else
                        "compiled expression and eager Python evaluation disagree (exception behaviour)")
                if raised_before and got[0] == "exc" and want[0] == "val":
                    what += " after an earlier evaluation of the same callable raised"
                run.violation(what, dict(w, raw=raw, fields=parsed, compiled_with=cn,
                                         evaluated_before=list(before),
                                         expected=show(want), got=show(got)))
                return evaluated, gave_value, False
            if sample and sample[0] and j == 0:
                run.sample({"part": "1", "expression": sample[1], "eager_python": sample[2], "raw": raw,
                            "fields": parsed, "result": show(got)})
            if want[0] == "exc":
                raised_before = True
            before.append(raw)
        return evaluated, gave_value, True

    for i in range(ntrees):
        if run.counters["violations"] > 20:
            break
        D = rng.choices(depth_weights, weights=[1 + d for d in depth_weights])[0]
        K = rng.choice(("INT", "INT", "INT", "INT", "INT", "INT", "BYTES", "BYTES", "LIST", "ANY"))
        tree = gen.gen(K, D)
        if tree[0] in ("f", "k"):
            run.count("p1_generator_fell_back_to_leaf")
            continue
        dsrc = render_def(tree)
        psrc = render_py(tree)
        cname, copts, cls, env = envs[i % len(envs)]
        run.count("p1_trees")
        base_w = {"part": "1", "operand_class": class_src(cname, copts), "expression": dsrc,
                  "eager_python": psrc, "option_set": cname}

        # build: Python dispatches to the methods installed by bisturi.deferred
        cn, compiler = compilers[0] if i % 4 < 2 else compilers[1 + (i % 2)]
        f = build_and_compile(tree, dsrc, env, cn, compiler, base_w)
        if f is None:
            continue
        run.count("p1_compiled_via_" + cn)

        # candidate inputs; eager reference FIRST (guard before the library is called)
        cands = []
        for j in range(ninputs):
            raw, vals = make_full_input(rng)
            try:
                pkt = cls.unpack(raw)
            except Exception as e:
                run.count("harness_operand_unpack_failed")
                run.inconclusive_because("operand-class-unpack-failed:%s" % type(e).__name__)
                continue
            parsed = parsed_values(pkt)
            if parsed != vals:
                run.count("harness_parsed_differs_from_encoded")
                run.inconclusive_because("operand-class-parsed-values-differ-from-encoded")
            for nm in DESCRIBED:        # decoded from the bytes by the harness, never read through the library
                parsed[nm] = vals[nm]
            cands.append((raw, parsed, pkt))
        hist = eager_history(tree, psrc, cands, True)
        names = leaf_names(tree)
        described = sorted(nm for nm in names if nm in DESCRIBED)
        for c, want in hist:
            for nm in names & OPT_LEAVES:
                run.count("p1_optional_leaf_none_evaluations" if c[1][nm] is None else "p1_optional_leaf_present_evaluations")
            if described:
                # would the value the descriptor shows lead to another outcome than the parsed value?
                run.count("p1_described_leaf_evaluations")
                try:
                    alt = eager(tree, dict(c[1], **{nm: SHOWN[nm](c[1]) for nm in described}))
                except Skip:
                    alt = want
                if not same_outcome(alt, want):
                    run.count("p1_described_leaf_evaluations_discriminating")
                    kinds = set(DESCRIBED[nm] for nm in described)
                    if len(kinds) == 1:     # attributable to one kind of descriptor
                        run.count("p1_described_%s_leaf_discriminating" % kinds.pop())
                    if want[0] == "exc" or alt[0] == "exc":
                        run.count("p1_described_leaf_discriminating_by_exception")
        # history order: inputs on which the expression raises come first, then the valid ones,
        # then the first input once more (A.., B.., A): a callable must not remember earlier calls
        hist.sort(key=lambda h: 0 if h[1][0] == "exc" else 1)
        if len(hist) >= 2:
            hist.append(hist[0])

        acc = new_acc()
        features(tree, acc)
        evaluated, gave_value, ok = play_history(f, cn, hist, base_w, True, (samples < 4 and i % 1000 == 7, dsrc, psrc))
        if evaluated and samples < 4 and i % 1000 == 7:
            samples += 1
        if evaluated:
            run.case(key=key_of(dsrc), nontrivial=True, n=evaluated)
            for nm in names:
                run.cover("p1_leaf_fields_evaluated", nm)
            if names & BITS_LEAVES:
                run.count("p1_bits_leaf_trees_evaluated")
            if "seq" in names:
                run.count("p1_repeated_leaf_trees_evaluated")
            if names & BYTES_FIELD_LEAVES:
                run.count("p1_bytes_leaf_trees_evaluated")
            dd = depth(tree)
            depth_hist[dd] = depth_hist.get(dd, 0) + 1
            orders_seen |= acc["orders"]
            if gave_value:   # every operator node of the tree was executed without raising
                orders_value_seen |= acc["orders"]
            unary_seen |= acc["unary"]
            nary_seen |= acc["nary"]
            if acc["reflected"]:
                run.count("p1_reflected_const_left_evaluated")
            if acc["unary"]:
                run.count("p1_unary_evaluated")
            if acc["index"]:
                run.count("p1_index_or_slice_evaluated")
            if any(x.startswith("chooses") for x in acc["nary"]):
                run.count("p1_chooses_evaluated")
            if any(x.startswith("if_true") for x in acc["nary"]):
                run.count("p1_ite_evaluated")
        else:
            run.count("p1_trees_without_evaluation")
            continue

        # sibling trees: same shape, same field objects, exactly one constant changed (hash-equal
        # where possible); compiled and evaluated in the same process right after the original
        if not ok or rng.random() >= sibling_share:
            continue
        compiled_before = [dsrc]
        for _ in range(1 if rng.random() < 0.6 else 2):
            sib = make_sibling(rng, tree)
            if sib is None:
                run.count("p1_sibling_impossible_no_constant")
                break
            stree, heq, cold, cnew = sib
            sdsrc, spsrc = render_def(stree), render_py(stree)
            sw = {"part": "1", "operand_class": class_src(cname, copts), "expression": sdsrc,
                  "eager_python": spsrc, "option_set": cname, "sibling_of": dsrc,
                  "changed_constant": "%r -> %r (hash-equal: %s)" % (cold, cnew, heq),
                  "compile_first": list(compiled_before)}
            sf = build_and_compile(stree, sdsrc, env, cn, compiler, sw)
            if sf is None:
                break
            compiled_before.append(sdsrc)
            shist = eager_history(stree, spsrc, [h[0] for h in hist], False)
            sev, _, sok = play_history(sf, cn, shist, sw, False, None)
            if sev:
                run.case(key=key_of(sdsrc), nontrivial=True, n=sev)
                run.count("p1_sibling_pairs_compared")
                differs = False
                owant = {id(h[0]): h[1] for h in hist}
                for c, w in shist:
                    if not same_outcome(w, owant[id(c)]):
                        differs = True
                        break
                if heq:
                    run.count("p1_sibling_hash_equal_pairs_compared")
                    if differs:
                        run.count("p1_sibling_hash_equal_pairs_discriminating")
                elif differs:
                    run.count("p1_sibling_other_pairs_discriminating")
            if not sok:
                break

    for o in orders_seen:
        run.cover("binop_operand_shapes", o)
    for o in orders_value_seen:
        run.cover("binop_operand_shapes_yielding_a_value", o)
    for u in unary_seen:
        run.cover("unary_ops", u)
    for x in nary_seen:
        run.cover("nary_forms", x)
    for e in exc_seen:
        run.cover("exception_types_compared", e)
    for e in type_seen:
        run.cover("result_types_compared", e)
    run.extra["p1_depth_histogram"] = {str(k): v for k, v in sorted(depth_hist.items())}
    run.extra["p1_exception_type_counts"] = dict(sorted(exc_seen.items()))
    run.extra["p1_result_type_counts"] = dict(sorted(type_seen.items()))

    # completeness of the operator x operand-shape grid (vacuity rule)
    lib_ops = set()
    for op in bd.BinaryOperationsByCategory["integer"]:
        lib_ops.add(op.__name__)
    if lib_ops != set(ALLBIN):
        run.inconclusive_because("library-operator-set-differs-from-generator:%s" % sorted(lib_ops ^ set(ALLBIN)))
    if run.counters["violations"] == 0:
        missing = [op + ":" + sh for op in ALLBIN for sh in ("fc", "cf", "ff", "ee") if op + ":" + sh not in orders_value_seen]
        if missing:
            run.inconclusive_because("operator-shape-grid-incomplete:%s" % ",".join(missing[:8]))
        want_nary = {"chooses:list", "chooses:tuple", "chooses:pos", "chooses:dict", "chooses:kw",
                     "if_true_then_else:list", "if_true_then_else:tuple", "if_true_then_else:pos"}
        if want_nary - nary_seen:
            run.inconclusive_because("nary-forms-incomplete:%s" % sorted(want_nary - nary_seen))
        if {"neg", "inv", "truth", "len"} - unary_seen:
            run.inconclusive_because("unary-ops-incomplete")


def part1b(run, rng, classes, ninputs):
    """Bare fields as conditions: the truth/length path of normalize_raw_condition_into_a_callable."""
    import bisturi.structural_fields as bs
    for cname, copts, cls in classes:
        env = field_env(cls)
        conds = {}
        for nm in FIELD_NAMES:
            fld = env[nm]
            if getattr(fld, "field_name", None) != ATTR[nm]:
                run.count("harness_field_name_differs")
                run.inconclusive_because("operand-field-name-differs:%s" % nm)
            try:
                conds[nm] = bs.normalize_raw_condition_into_a_callable(fld)
            except Exception as e:
                run.violation("a bare field was rejected as a condition (%s)" % type(e).__name__,
                              {"part": "1b", "operand_class": class_src(cname, copts), "field": nm, "error": str(e)[:200]})
        for _ in range(ninputs):
            raw, vals = make_full_input(rng)
            pkt = cls.unpack(raw)
            if parsed_values(pkt) != vals:
                run.count("harness_parsed_differs_from_encoded")
                run.inconclusive_because("operand-class-parsed-values-differ-from-encoded")
            for nm in DESCRIBED:
                # the harness' model of what the descriptors show must be what they really show
                # (it only feeds the 'discriminating' counters)
                if not same(getattr(pkt, nm), SHOWN[nm](vals)):
                    run.count("harness_descriptor_model_differs")
                    run.inconclusive_because("descriptor-model-differs:%s" % nm)
            for nm, c in conds.items():
                v = vals[nm]        # decoded from the bytes by the harness
                if nm in DESCRIBED:
                    run.count("p1b_described_conditions")
                    if bool(SHOWN[nm](vals)) != bool(v):
                        run.count("p1b_described_conditions_discriminating")
                try:
                    got = ("val", c(pkt=pkt, raw=raw, offset=0))
                except Exception as e:
                    got = ("exc", type(e))
                run.case(key="1b:%s:%s:%r" % (cname, nm, bool(v)), nontrivial=True)
                if FKIND[nm] in ("data", "seq"):
                    run.count("p1b_length_conditions")
                    if got[0] == "val" and same(got[1], len(v)):
                        run.count("p1b_exact_len_value")
                else:
                    run.count("p1b_truth_conditions")
                    if got[0] == "val" and same(got[1], bool(v)):
                        run.count("p1b_exact_truth_value")
                if got[0] != "val" or bool(got[1]) != bool(v):
                    run.violation("a bare field used as a condition does not have the truthiness of its parsed value",
                                  {"part": "1b", "operand_class": class_src(cname, copts), "field": nm, "raw": raw,
                                   "value": v, "expected_truthiness": bool(v), "got": show(got)})
                    return


# ------------------------------------------------------------------------------------------
# Part 2: the expression placed in real declarations
# ------------------------------------------------------------------------------------------
TAIL = 20
PLACEMENTS = (
    ("size", "    %s = Data(%s)\n"),
    ("count", "    %s = Int(1).repeated(%s)\n"),
    ("when", "    %s = Int(1).when(%s)\n"),
    ("rwhen", "    %s = Int(1).repeated(2, when=%s)\n"),
    ("ref", "    %s = Ref((%s).chooses(Data(1), Data(2), Data(3), Data(4)), default=b'')\n"),
)
REF_SIZES = (1, 2, 3, 4)        # the eager meaning of the options of the 'ref' placement: bytes taken
# bare-field-only placement (Move takes a field or a callable, it does not compile expressions)
AT_TEMPLATE = "    %s = Data(2).at(%s, 'begins')\n"


def observe_unpack(cls, raw):
    """One real Packet.unpack: ('ok', pkt) | ('perr', PacketError) | ('raw', other exception)."""
    from bisturi.packet import PacketError
    try:
        return ("ok", cls.unpack(raw))
    except PacketError as e:
        return ("perr", e)
    except Exception as e:
        return ("raw", e)


def judge_placement(run, place, attr, obs, want, w, vals):
    """Compare what unpack did with field `attr` (x: the expression, y: its sibling placed after x in
    the same class) with the eager outcome `want`.
    Returns 'value' (judged, parsed fine), 'error' (judged, PacketError as demanded), 'unjudged', 'violation'."""
    kind, payload = obs
    holder = payload if kind == "ok" else getattr(payload, "packet", None)
    if holder is not None:
        try:
            parsed = parsed_values(holder)
        except AttributeError:
            parsed = None
        if parsed != vals:
            run.count("harness_p2_operands_differ_from_encoded")
            run.inconclusive_because("part2-operand-values-differ-from-encoded")
            return "unjudged"
    if kind == "ok":
        out = ("ok", getattr(payload, attr))
    elif kind == "raw":
        if attr != "x":
            return "unjudged"
        out = ("raw", payload)
    else:
        try:
            failing = payload.fields_stack[0][1]
        except Exception:
            failing = None
        if isinstance(failing, str) and failing.startswith("_shift_to_"):
            failing = failing[len("_shift_to_"):]
        # declaration order: operands, x, [y,] zz
        if attr == "x":
            out = ("ok", getattr(holder, "x")) if (failing in ("y", "zz") and holder is not None) else ("perr", payload)
        elif failing == "zz" and holder is not None:
            out = ("ok", getattr(holder, "y"))
        else:
            if failing != "y":
                return "unjudged"       # x (or an operand) failed first: y was never reached
            if place in ("size", "count") and holder is not None:
                # x comes first and took more than its share of the input's tail: that y did not find its bytes says nothing
                # about y's expression
                try:
                    taken = len(getattr(holder, "x"))
                except Exception:
                    taken = None
                if taken is None or taken > TAIL:
                    run.count("p2_sibling_not_judged_first_field_beyond_its_share")
                    return "unjudged"
            out = ("perr", payload)

    def bad(what):
        shown = repr(out[1])[:200] if out[0] == "ok" else "%s(%s)" % (
            type(out[1]).__name__, (getattr(out[1], "original_error_message", None) or str(out[1]))[:160])
        run.violation(what, dict(w, placement=place, attr=attr, fields=vals, eager=show(want),
                                 outcome=out[0], got=shown))
        return "violation"

    if out[0] == "raw":
        return bad("a raw %s escaped Packet.unpack instead of a PacketError" % type(out[1]).__name__)
    if want[0] == "exc":
        if out[0] != "perr":
            return bad("the expression raises %s eagerly but the declaration parsed successfully" % want[1].__name__)
        run.count("p2_expr_exception_as_packeterror")
        run.cover("p2_expression_exceptions", want[1].__name__)
        return "error"
    V = want[1]
    if place == "ref":
        # eager meaning of  V.chooses(Data(1), Data(2), Data(3), Data(4)) : the V-th element of the tuple
        try:
            size = REF_SIZES[V]
        except Exception as e:
            if out[0] != "perr":
                return bad("selector evaluates eagerly to %r, choosing raises %s eagerly, but the declaration parsed "
                           "successfully" % (V, type(e).__name__))
            run.count("p2_expr_exception_as_packeterror")
            run.cover("p2_expression_exceptions", type(e).__name__)
            return "error"
        if out[0] != "ok":
            return bad("Ref selector evaluates eagerly to %r (option Data(%d)) but unpack raised PacketError" % (V, size))
        if not isinstance(out[1], bytes) or len(out[1]) != size:
            return bad("Ref selector evaluates eagerly to %r (option Data(%d)) but the field parsed as %r" % (V, size, out[1]))
        run.count("p2_ref_selected")
        run.cover("p2_ref_options_selected", str(size))
        return "value"
    if place == "at":
        raw = w["raw"]
        if not isinstance(V, int) or isinstance(V, bool) or V < 0 or V + 3 > len(raw):
            run.count("p2_at_not_judged")
            return "unjudged"
        if out[0] != "ok":
            return bad("position field holds %d but unpack raised PacketError" % V)
        if out[1] != raw[V:V + 2]:
            return bad("position field holds %d but the field placed .at() it parsed as %r, not %r" % (V, out[1], raw[V:V + 2]))
        run.count("p2_at_position_checked")
        return "value"
    if place in ("size", "count"):
        if not isinstance(V, int):
            run.count("p2_%s_noninteger_not_judged" % place)
            return "unjudged"
        if V > TAIL:
            run.count("p2_%s_beyond_input" % place)
            if out[0] == "ok" and len(out[1]) != V:
                return bad("%s expression evaluates to %d but %d elements/bytes were taken" % (place, V, len(out[1])))
            return "unjudged"
        if place == "size" and V < 0:
            if out[0] != "perr":
                return bad("negative Data size %d did not raise PacketError" % V)
            run.count("p2_size_negative_packeterror")
            return "error"
        expect_len = max(int(V), 0)
        if out[0] != "ok":
            return bad("%s expression evaluates eagerly to %d but unpack raised PacketError" % (place, V))
        if len(out[1]) != expect_len:
            return bad("%s expression evaluates eagerly to %d but the parsed field has length %d" % (place, V, len(out[1])))
        if place == "size":
            run.count("p2_size_len_checked")
        else:
            run.count("p2_count_checked")
            if V < 0:
                run.count("p2_count_negative_empty_list")
        return "value"
    truthy = bool(V)
    if out[0] != "ok":
        return bad("when-condition evaluates eagerly to %r but unpack raised PacketError" % (V,))
    present = (out[1] is not None) if place == "when" else (len(out[1]) == 2)
    absent = (out[1] is None) if place == "when" else (len(out[1]) == 0)
    if (truthy and not present) or (not truthy and not absent):
        return bad("when-condition evaluates eagerly to %r (truthy=%s) but the field is %r" % (V, truthy, out[1]))
    run.count("p2_when_present" if truthy else "p2_when_absent")
    return "value"


def _fails_somewhere(want):
    """Would at least one placement raise PacketError for this eager outcome?"""
    return want[0] == "exc" or (isinstance(want[1], int) and want[1] < 0)


def part2(run, rng, ntrees, maxdepth, ninputs, tag, sibling_share):
    from .. import common
    gen = Gen(rng, p_ill=0.03)
    scratch = common.scratch_dir("bvf_c09_")
    batch = []
    batch_no = [0]

    def flush():
        if not batch:
            return
        batch_no[0] += 1
        mode = "file" if batch_no[0] % 4 == 1 else "exec"
        src = HEADER + "".join(item["src"][p] for item in batch for p, _ in PLACEMENTS)
        try:
            ns = define(src, scratch, mode)
        except Exception:
            ns = None
        for item in batch:
            if ns is None:
                # locate the failing class individually
                one = {}
                for p, _ in PLACEMENTS:
                    try:
                        one.update(define(HEADER + item["src"][p], scratch, "exec"))
                    except Exception as e:
                        run.case(key=key_of(item["dsrc"] + p))
                        run.violation("class definition with a deferred expression as %s raised %s" % (p, type(e).__name__),
                                      {"part": "2", "placement": p, "class_source": HEADER + item["src"][p],
                                       "expression": item["dsrc"], "error": str(e)[:200]})
                space = one
            else:
                space = ns
            run.count("p2_defined_via_" + (mode if ns is not None else "exec"), len(PLACEMENTS))
            sib = item["sib"]
            # inputs and eager outcomes first (guard before the library is called)
            plan = []
            for _ in range(ninputs):
                raw0, vals = make_input(rng)
                raw = raw0 + bytes(rng.randrange(256) for _ in range(2 * TAIL + 4))
                try:
                    want = eager(item["tree"], vals)
                    swant = eager(sib["tree"], vals) if sib else None
                except Skip:
                    run.count("guard_skipped")
                    continue
                disc = False
                if item["described"]:
                    # outcome if the leaves were read through their descriptors while x is being parsed:
                    # the field tracked by dz is not parsed yet, that read raises
                    if "dz" in item["described"]:
                        disc = True
                    else:
                        try:
                            alt = eager(item["tree"], dict(vals, **{nm: SHOWN[nm](vals) for nm in item["described"]}))
                            disc = not same_outcome(alt, want)
                        except Skip:
                            pass
                plan.append((raw, vals, want, swant, disc))
            # history: failing parses first, then valid ones, then the first input again
            plan.sort(key=lambda q: 0 if _fails_somewhere(q[2]) else 1)
            if len(plan) >= 2:
                plan.append(plan[0])
            failed_before = {}
            before = []
            evaluated = 0
            ok = True
            for raw, vals, want, swant, disc in plan:
                for p, _ in PLACEMENTS:
                    cls = space.get(item["names"][p])
                    if cls is None:
                        continue
                    run.count("p2_unpacks_observed")
                    obs = observe_unpack(cls, raw)
                    w = {"part": "2", "class_source": HEADER + item["src"][p], "expression": item["dsrc"],
                         "eager_python": item["psrc"], "raw": raw, "unpacked_before": list(before)}
                    st = judge_placement(run, p, "x", obs, want, w, vals)
                    if item["described"] and st in ("value", "error"):
                        run.count("p2_described_leaf_placements")
                        run.cover("p2_described_leaf_placement_kinds", p)
                        if disc:
                            run.count("p2_described_leaf_placements_discriminating")
                            run.cover("p2_described_leaf_placement_kinds_discriminating", p)
                        if "dz" in item["described"] and st == "value":
                            run.count("p2_described_unparsed_tracked_leaf_placements")
                    if st == "value" and failed_before.get((p, "x")):
                        run.count("p2_valid_parse_after_failing_parse")
                    elif st == "error":
                        failed_before[(p, "x")] = True
                    elif st == "violation":
                        ok = False
                    x_takes_too_much = (p in ("size", "count") and isinstance(want, tuple) and len(want) > 1 and isinstance(want[1], int)
                                        and not isinstance(want[1], bool) and want[1] > TAIL)
                    if sib and x_takes_too_much:
                        # x comes first in the class and takes more than its share of the input's tail: whether y still finds its
                        # bytes says nothing about y's expression
                        run.count("p2_sibling_not_judged_first_field_beyond_its_share")
                    if sib and st in ("value", "unjudged") and not x_takes_too_much:
                        sw = dict(w, expression=sib["dsrc"], eager_python=sib["psrc"], sibling_of=item["dsrc"],
                                  changed_constant=sib["changed"])
                        st2 = judge_placement(run, p, "y", obs, swant, sw, vals)
                        if st2 == "value" and failed_before.get((p, "y")):
                            run.count("p2_valid_parse_after_failing_parse")
                        elif st2 == "error":
                            failed_before[(p, "y")] = True
                        elif st2 == "violation":
                            ok = False
                        if st == "value" and st2 in ("value", "error"):
                            run.count("p2_sibling_pairs_compared")
                            differs = not same_outcome(want, swant)
                            if sib["heq"]:
                                run.count("p2_sibling_hash_equal_pairs_compared")
                                if differs:
                                    run.count("p2_sibling_hash_equal_pairs_discriminating")
                            elif differs:
                                run.count("p2_sibling_other_pairs_discriminating")
                evaluated += 1
                before.append(raw)
                if not ok:
                    break
            if evaluated:
                run.case(key="2:" + key_of(item["dsrc"] + ("|" + sib["dsrc"] if sib else "")), nontrivial=True,
                         n=evaluated * len(PLACEMENTS))
        del batch[:]

    try:
        for i in range(ntrees):
            if run.counters["violations"] > 20:
                break
            D = rng.randint(1, maxdepth)
            seqkind = rng.random() < 0.2   # bytes/list valued: exercises truthiness of sequences in when
            tree = gen.gen(rng.choice(("BYTES", "LIST")) if seqkind else "INT", D)
            if tree[0] in ("f", "k"):
                continue
            r = 1.0 if seqkind else rng.random()
            if r < 0.30:
                tree = ("b", "and_", tree, ("k", rng.choice((3, 7, 15))))
            elif r < 0.50:
                tree = ("b", "mod", tree, ("k", rng.choice((3, 5, 17))))
            elif r < 0.58:
                tree = ("b", "sub", ("k", rng.choice((2, 8))), ("b", "and_", tree, ("k", 7)))
            elif r < 0.70:
                tree = ("b", "add", tree, ("k", rng.choice((-1, 0, 1))))
            dsrc, psrc = render_def(tree), render_py(tree)
            sib = None
            if rng.random() < sibling_share:
                made = make_sibling(rng, tree)
                if made is not None:
                    stree, heq, cold, cnew = made
                    sib = {"tree": stree, "dsrc": render_def(stree), "psrc": render_py(stree), "heq": heq,
                           "changed": "%r -> %r (hash-equal: %s)" % (cold, cnew, heq)}
                    run.count("p2_sibling_trees")
            oname, oopts = OPTION_SETS[i % len(OPTION_SETS)]
            names = {p: "P%s_%d_%s" % (tag, i, p) for p, _ in PLACEMENTS}
            srcs = {p: class_src(names[p], oopts,
                                 tmpl % ("x", dsrc) + (tmpl % ("y", sib["dsrc"]) if sib else ""))
                    for p, tmpl in PLACEMENTS}
            batch.append({"tree": tree, "dsrc": dsrc, "psrc": psrc, "names": names, "src": srcs, "sib": sib,
                          "described": sorted(nm for nm in leaf_names(tree) if nm in DESCRIBED)})
            run.count("p2_trees")
            run.cover("p2_option_sets", oname)
            if len(batch) >= 10:
                flush()
        flush()

        # bare fields placed as conditions / sizes / counts in real declarations
        body = []
        plan = []
        k = 0
        for oname, oopts in OPTION_SETS:
            for nm in FIELD_NAMES:
                k += 1
                cn = "PF%s_%d" % (tag, k)
                proto = "Data(2)" if k % 2 else "Int(1)"
                body.append(class_src(cn, oopts, "    x = %s.when(%s)\n" % (proto, nm)))
                plan.append((cn, "when", nm))
            for nm in SMALL_LEAVES + ("bd1", "da"):
                for place, tmpl in (("size", "    %s = Data(%s)\n"), ("count", "    %s = Int(1).repeated(%s)\n"),
                                    ("ref", dict(PLACEMENTS)["ref"]), ("at", AT_TEMPLATE)):
                    k += 1
                    cn = "PF%s_%d" % (tag, k)
                    body.append(class_src(cn, oopts, tmpl % ("x", nm)))
                    plan.append((cn, place, nm))
        # defined in chunks (a real module file costs the library one source lookup per class, each of which
        # parses the whole file): every third chunk as a file, the others via exec
        CHUNK = 12
        ns = {}
        src_of = {}
        for c0 in range(0, len(body), CHUNK):
            src = HEADER + "".join(body[c0:c0 + CHUNK])
            try:
                ns.update(define(src, scratch, "file" if (c0 // CHUNK) % 3 == 0 else "exec"))
            except Exception as e:
                run.violation("class definition with a bare field as when/size/count/selector/position raised %s"
                              % type(e).__name__, {"part": "2f", "class_source": src, "error": str(e)[:200]})
            for cn, _, _ in plan[c0:c0 + CHUNK]:
                src_of[cn] = src
        for cn, place, nm in plan:
            cls = ns.get(cn)
            if cls is None:
                continue
            src = src_of[cn]
            for _ in range(max(4, ninputs)):
                raw0, vals = make_input(rng)
                raw = raw0 + bytes(rng.randrange(256) for _ in range(TAIL + 4))
                v = vals[nm]
                if place == "when":
                    # truth for numbers/None, length for sequences: both are the value's truthiness
                    want = ("val", bool(v))
                else:
                    want = ("val", v)
                run.case(key="2f:%s:%s:%r" % (place, nm, bool(v)), nontrivial=True)
                run.count("p2_field_condition_checked")
                w = {"part": "2f", "class_source": src, "class": cn, "expression": nm, "eager_python": nm, "raw": raw}
                st = judge_placement(run, place, "x", observe_unpack(cls, raw), want, w, vals)
                if st == "violation":
                    break
                if nm in DESCRIBED and st in ("value", "error"):
                    run.count("p2_described_field_placements")
                    run.cover("p2_described_field_placement_kinds", place)
                    shown = SHOWN[nm](vals)
                    if nm == "dz" or (bool(shown) != bool(v) if place == "when" else shown != v):
                        run.count("p2_described_field_placements_discriminating")
    finally:
        common.drop_scratch(scratch)


# ------------------------------------------------------------------------------------------
# Part 1c / 2c: the space of chooses / if_true_then_else forms, key types, selector types and option values
# ------------------------------------------------------------------------------------------
STR_POOL = ("a", "b", "ab", "ba", "aa", "bb", "", "abab", "short", "long")
BYTES_POOL = tuple(s.encode("ascii") for s in STR_POOL)
TUPLE_POOL = ((), (0,), (1,), (1, 2), (0, 1), ("a",), (b"a",), ("a", 1), (None,), (True,), ("ab", b"ab"))
VALUE_CONSTS = {
    "int": (0, 1, 2, 3, 4, 7, 255, 1000),
    "negint": (-1, -2, -300),
    "bool": (True, False),
    "float": (0.5, 2.0, -1.5, 0.0),
    "bytes": BYTES_POOL,
    "str": STR_POOL,
    "none": (None,),
    "tuple": TUPLE_POOL + ((1, (2, 3)),),
    "list": ([], [0], [1, 2], ["a", b"a"], [None]),
    "dict": ({}, {1: 2}, {"a": b"a"}, {b"k": None}),
}
CONST_KINDS = ("int", "int", "negint", "bool", "float", "bytes", "bytes", "str", "str", "str", "none", "tuple", "list", "dict")
# keyword names: identifiers. 'A' (the name of the first parameter of bisturi's nary closure) is probed apart.
KW_POOL = ("a", "b", "ab", "ba", "aa", "bb", "abab", "short", "long", "k0", "zz", "B", "C", "self", "_")
TABLE_FORMS = ("dict", "dict", "dict", "kw", "list", "tuple", "pos", "ite")
KEYKINDS = ("int", "str", "negint", "bytes", "bool", "twins", "boolint", "str", "float", "tuple", "none", "twins", "mixed", "bytes")
SELECTORS_FOR = {
    "int": ("int", "int", "int", "bool", "float", "byteval", "optint", "label:int", "label:int", "negint", "bytes"),
    "negint": ("negint", "negint", "negint", "int", "label:int"),
    "bool": ("bool", "bool", "bool", "int", "label:bool", "float"),
    "boolint": ("bool", "bool", "int", "int", "label:int", "label:bool", "float"),
    "float": ("float", "float", "int", "int", "bool", "label:float"),
    "bytes": ("bytes", "bytes", "bytes", "optbytes", "label:bytes", "label:bytes", "label:str", "int"),
    "str": ("label:str", "label:str", "label:str", "label:str", "bytes", "bytes", "label:bytes", "optbytes"),
    "twins": ("label:str", "label:bytes", "bytes", "bytes", "label:twins", "label:twins"),
    "tuple": ("label:tuple", "label:tuple", "label:tuple", "list", "int", "label:str"),
    "none": ("optint", "optint", "optbytes", "optbytes", "label:none", "label:none", "label:none", "int"),
    "mixed": ("int", "bool", "float", "bytes", "bytes", "optint", "optbytes", "label:str", "label:bytes", "label:tuple",
              "label:none", "label:int", "label:twins", "list", "negint", "byteval"),
    "seq": ("int", "int", "int", "int", "negint", "negint", "bool", "bool", "float", "bytes", "optint", "label:int", "label:int",
            "label:str", "label:none", "label:bool", "list", "byteval"),
    "kw": ("bytes", "bytes", "bytes", "bytes", "optbytes", "label:bytes", "label:bytes", "label:str", "label:twins", "int"),
    "cond": ("int", "bool", "bool", "float", "bytes", "bytes", "optint", "optbytes", "label:str", "label:bytes", "label:tuple",
             "label:none", "label:int", "list", "negint"),
}
LABEL_POOLS = {
    "int": (0, 1, 2, 3, 4, 5, 7, -1, 255),
    "bool": (True, False, 1, 0),
    "float": (0.0, 0.5, 1.0, 2.0),
    "bytes": BYTES_POOL,
    "str": STR_POOL,
    "twins": STR_POOL[:6] + BYTES_POOL[:6],
    "tuple": TUPLE_POOL,
    "none": (None, None, 0, b"", ""),
}
# option values that raise on some inputs (so that exceptions raised by options NOT selected are compared)
MAY_RAISE = (
    ("b", "floordiv", ("k", 7), ("f", "n")),                # n == 0: ZeroDivisionError
    ("b", "mod", ("k", 7), ("f", "m")),
    ("i", ("f", "v"), ("k", 2)),                            # len(v) < 3: IndexError
    ("i", ("f", "seq"), ("k", 1)),
    ("b", "add", ("f", "o"), ("k", 1)),                     # o is None: TypeError
    ("i", ("f", "ov"), ("k", 0)),
    ("b", "floordiv", ("f", "a"), ("b", "and_", ("f", "b"), ("k", 1))),
)


def _copy_const(c):
    if isinstance(c, list):
        return list(c)
    if isinstance(c, dict):
        return dict(c)
    return c


def _has_nary(n):
    """Does the tree contain a chooses / if_true_then_else node?"""
    t = n[0]
    if t in ("c", "t"):
        return True
    if t == "u":
        return _has_nary(n[2])
    if t == "b":
        return _has_nary(n[2]) or _has_nary(n[3])
    if t == "i":
        return _has_nary(n[1]) or _has_nary(n[2])
    if t == "s":
        return _has_nary(n[1])
    return False


class TableGen:
    """chooses / if_true_then_else trees over the whole space of forms x key types x selector types x option values."""

    def __init__(self, rng):
        self.rng = rng
        self.gen = Gen(rng, p_ill=0.02)

    # -- selectors -----------------------------------------------------------------------
    def small_int(self, D=1):
        r = self.rng
        p = r.random()
        if p < 0.45:
            return ("f", r.choice(("n", "m", "bt1", "dl", "dz", "n", "m")))
        if p < 0.70:
            return ("b", "mod", ("f", r.choice(INT_LEAVES)), ("k", r.choice((2, 3, 4, 5))))
        if p < 0.85:
            return ("b", "and_", ("f", r.choice(("a", "b", "da", "du", "bt2", "bd2", "bd1"))), ("k", r.choice((1, 3, 7))))
        if p < 0.92 and D > 0:
            return self.label_selector("int", LABEL_POOLS["int"][:5], D - 1)
        return ("i", ("f", "seq"), ("k", 0))

    def bytes_sel(self):
        r = self.rng
        return r.choice((
            ("s", ("f", "v"), 0, 1, None), ("s", ("f", "d"), 0, 1, None), ("s", ("f", "d"), 1, 2, None),
            ("s", ("f", "d"), 0, 2, None), ("s", ("f", "d"), 1, 3, None), ("s", ("f", "d"), 2, 4, None),
            ("s", ("f", "dd"), 0, 1, None), ("f", "dd"), ("f", "dd"), ("f", "v"), ("f", "v"), ("s", ("f", "v"), 0, 2, None),
            ("b", "add", ("s", ("f", "d"), 0, 1, None), ("s", ("f", "dd"), 0, 1, None)),
            ("s", ("f", "v"), 0, 0, None), ("f", "d"),
        ))

    def selector(self, kind, keys=(), D=1):
        r = self.rng
        if kind == "int":
            return self.small_int(D)
        if kind == "negint":
            return r.choice((("f", "s"), ("b", "sub", self.small_int(0), ("k", r.choice((1, 2, 3, 5)))),
                             ("u", "neg", self.small_int(0)), ("u", "inv", ("f", "bt1"))))
        if kind == "bool":
            return r.choice((("b", r.choice(CMP + EQ), self.small_int(0), ("k", r.choice((0, 1, 2)))),
                             ("u", "truth", ("f", r.choice(("n", "m", "a", "o", "bt1")))),
                             ("b", "eq", self.bytes_sel(), ("k", r.choice((b"a", b"ab", b"")))),
                             ("b", "lt", ("f", "n"), ("f", "m"))))
        if kind == "float":
            return ("b", "truediv", self.small_int(0), ("k", r.choice((1, 1, 2, 2, 4))))
        if kind == "bytes":
            return self.bytes_sel()
        if kind == "optint":
            return ("f", "o")
        if kind == "optbytes":
            return r.choice((("f", "ov"), ("f", "ov"), ("s", ("f", "ov"), 0, 1, None)))
        if kind == "byteval":
            return ("i", ("f", r.choice(("d", "dd", "v"))), ("k", r.choice((0, 1))))
        if kind == "list":
            return r.choice((("f", "seq"), ("s", ("f", "seq"), 0, 1, None)))
        assert kind.startswith("label:"), kind
        lk = kind[6:]
        pool = LABEL_POOLS[lk]
        if lk == "twins":
            mine = [k for k in keys if isinstance(k, (str, bytes))]
        elif lk in ("str", "bytes"):
            # the letters of the text keys in the type of the label: a label of the other text type must MISS
            want_t = str if lk == "str" else bytes
            mine = [k if type(k) is want_t else _twin(k) for k in keys if isinstance(k, (str, bytes))]
        else:
            mine = [k for k in keys if any(type(k) is type(p) for p in pool)]
        return self.label_selector(lk, mine + [r.choice(pool)] + ([r.choice(pool)] if len(mine) < 2 else []), D - 1)

    def label_selector(self, lk, labels, D):
        """An inner table whose options are constants (the labels an outer table is keyed by): a multi-level table."""
        r = self.rng
        labels = list(labels)
        how = r.choice(("list", "tuple", "pos", "dict", "dict", "kw", "ite", "ite", "cat"))
        if how == "cat" and lk in ("str", "bytes", "twins"):
            # (label + suffix): the outer keys are hit when they hold the concatenation
            base = ("a", "b") if (lk == "str" or (lk == "twins" and r.random() < 0.5)) else (b"a", b"b")
            inner = self.label_selector("str", base, D)
            return ("b", "add", inner, ("k", r.choice(base)))
        if how in ("ite", "cat"):
            cond = self.selector(r.choice(("bool", "bool", "int", "bytes", "optint")), (), 0)
            return ("t", r.choice(("list", "tuple", "pos")), cond, ("k", r.choice(labels)), ("k", r.choice(labels)))
        if how in ("list", "tuple", "pos"):
            opts = [("k", r.choice(labels)) for _ in range(r.choice((5, 5, 5, 4, 3, 2)))]
            return ("c", how, self.small_int(D), opts)
        if how == "dict":
            keys = r.sample((0, 1, 2, 3, 4, 5, 7), r.choice((5, 5, 4, 3, 2)))
            return ("c", "dict", self.small_int(D), [(k, ("k", r.choice(labels))) for k in keys])
        names = r.sample(("a", "b", "ab", "aa", "ba", "bb"), r.randint(2, 5))
        return ("c", "kw", self.bytes_sel(), [(nm.encode("ascii"), ("k", r.choice(labels))) for nm in names])

    # -- keys ----------------------------------------------------------------------------
    def keys(self, kind, n):
        r = self.rng
        if kind == "int":
            pool = (0, 1, 2, 3, 4) if r.random() < 0.6 else (0, 1, 2, 3, 4, 5, 7, 255, 97, 98, 0x41)
        elif kind == "negint":
            pool = (-1, -2, -3, -4, -300, 0, 1, -8)
        elif kind == "bool":
            pool = (True, False)
        elif kind == "boolint":
            pool = (0, 1, True, False, 2)
        elif kind == "float":
            pool = (0.0, 0.5, 1.0, 2.0, 1.5, 1, 3)
        elif kind == "bytes":
            pool = BYTES_POOL[:8]
        elif kind == "str":
            pool = STR_POOL if r.random() < 0.3 else STR_POOL[:8]
        elif kind == "twins":
            base = r.sample(STR_POOL[:7], min(n, 3))
            out = []
            for s in base:
                pair = [s, s.encode("ascii")]
                r.shuffle(pair)
                out.extend(pair if r.random() < 0.8 else pair[:1])
            r.shuffle(out)
            return out
        elif kind == "tuple":
            pool = TUPLE_POOL
        elif kind == "none":
            return [None] + r.sample((0, 1, b"", b"a", "", False, 97), max(n - 1, 1)) if r.random() < 0.8 else \
                r.sample((0, 1, b"", b"a", "", False, 97), max(n - 1, 1)) + [None]
        else:
            pool = (0, 1, 2, -1, True, False, 0.5, 2.0, b"a", b"ab", b"", "a", "ab", "", (), (1,), ("a",), None, 97)
        n = min(n, len(pool))
        return r.sample(pool, n)

    # -- option values -------------------------------------------------------------------
    def value(self, D):
        r = self.rng
        p = r.random()
        if p < 0.42:
            return ("k", _copy_const(r.choice(VALUE_CONSTS[r.choice(CONST_KINDS)])))
        if p < 0.60:
            return ("f", r.choice(FIELD_NAMES))
        if p < 0.74:
            return self.gen.sub("ANY", r.choice((1, 1, 2)))
        if p < 0.78:
            return r.choice(MAY_RAISE)
        if p < 0.83:
            # an operator applied to the text / byte label picked by an inner table
            lk = r.choice(("str", "bytes"))
            inner = self.label_selector(lk, r.sample(LABEL_POOLS[lk], 3), 0)
            return r.choice((("b", "add", inner, ("k", LABEL_POOLS[lk][1])), ("i", inner, ("k", 0)),
                             ("u", "len", inner), ("b", "eq", inner, ("k", LABEL_POOLS[lk][2])), ("s", inner, 0, 1, None)))
        if D <= 0:
            return ("k", _copy_const(r.choice(VALUE_CONSTS[r.choice(CONST_KINDS)])))
        if p < 0.92:
            return self.total_table(D - 1)
        if p < 0.96:
            return self.table(D - 1)
        return self.ite(D - 1)

    # -- tables --------------------------------------------------------------------------
    def table(self, D, form=None, keykind=None, value=None):
        r = self.rng
        value = value or self.value
        if form is None:
            form = r.choice(("dict", "dict", "dict", "kw", "list", "tuple", "pos"))
        if form in ("list", "tuple", "pos"):
            nopt = r.choice((2, 3, 4, 5, 5, 5) if form == "pos" else (1, 2, 3, 4, 5, 5, 5))
            sel = self.selector(r.choice(SELECTORS_FOR["seq"]), range(nopt), D)
            return ("c", form, sel, [value(D) for _ in range(nopt)])
        if form == "kw":
            names = r.sample(KW_POOL, r.randint(1, 5))
            keys = [nm.encode("ascii") for nm in names]
            sel = self.selector(r.choice(SELECTORS_FOR["kw"]), keys + names, D)
            return ("c", "kw", sel, [(k, value(D)) for k in keys])
        if keykind is None:
            keykind = r.choice(KEYKINDS)
        keys = self.keys(keykind, r.choice((1, 2, 3, 3, 4, 4, 5, 5)))
        sel = self.selector(r.choice(SELECTORS_FOR[keykind]), keys, D)
        opts = [(k, value(D)) for k in keys]
        for idx, (k, o) in enumerate(opts):
            # keys that are equal (1 / True / 1.0) collapse when Python builds the dict display, BEFORE bisturi is called:
            # Python itself drops the value object of the earlier key and moves the later value to the earlier position.
            # The values of such keys are constants here, so that neither is observable (a dropped / moved
            # sub-expression would be evaluated, in source order, by the eager expression).
            if o[0] != "k" and any(k == k2 for j, (k2, _) in enumerate(opts) if j != idx):
                opts[idx] = (k, ("k", _copy_const(r.choice(VALUE_CONSTS[r.choice(CONST_KINDS)]))))
        return ("c", "dict", sel, opts)

    def total_table(self, D):
        """A nested table whose selection cannot miss: (x % n) into n options, a comparison into {True: .., False: ..}."""
        r = self.rng
        how = r.choice(("list", "tuple", "pos", "dict", "dict"))
        x = ("f", r.choice(("a", "b", "n", "m", "bt1", "bt2", "da", "du", "dl", "s")))
        if how == "dict":
            keys = [True, False] if r.random() < 0.5 else [False, True]
            sel = ("b", r.choice(CMP + EQ), x, ("k", r.choice((0, 1, 2, 3, 64))))
            return ("c", "dict", sel, [(k, self.value(D)) for k in keys])
        nopt = r.randint(2, 4)
        return ("c", how, ("b", "mod", x, ("k", nopt)), [self.value(D) for _ in range(nopt)])

    def ite(self, D, value=None):
        r = self.rng
        value = value or self.value
        cond = self.selector(r.choice(SELECTORS_FOR["cond"]), ("", "a", b"", b"a", (), (0,), None, 0, 1), D)
        return ("t", r.choice(("list", "tuple", "pos", "pos")), cond, value(D), value(D))


def _twin(k):
    """The same letters in the other text type (str <-> bytes), or a marker nothing equals."""
    if isinstance(k, str):
        try:
            return k.encode("ascii")
        except UnicodeError:
            return Unjudged
    if isinstance(k, bytes):
        try:
            return k.decode("ascii")
        except UnicodeError:
            return Unjudged
    return Unjudged


def _typename(v):
    return "none" if v is None else type(v).__name__


def _value_kind(node):
    return {"k": "const", "f": "field", "c": "chooses", "t": "ite"}.get(node[0], "subexpr")


def table_facts(tree, vals):
    """What the eager evaluation of a top-level chooses / if_true_then_else consists of - only to COUNT what was
    exercised (never the oracle). Returns a list of fact names."""
    facts = []
    if tree[0] == "t":
        try:
            c = walk(tree[2], vals)
        except Exception:
            return ["ite_condition_raises"]
        facts.append("ite_condition_" + _typename(c))
        if not isinstance(c, bool):
            facts.append("ite_nonbool_truthy_condition" if c else "ite_nonbool_falsy_condition")
        picked = tree[3] if c else tree[4]
        other = tree[4] if c else tree[3]
        try:
            walk(picked, vals)
        except Exception:
            return facts + ["ite_picked_alternative_raises"]
        try:
            walk(other, vals)
        except Exception:
            return facts + ["ite_unpicked_alternative_raises"]
        return facts + ["ite_picked", "ite_picked_value_" + _value_kind(picked)]
    if tree[0] != "c":
        return facts
    form = tree[1]
    grp = "seq" if form in ("list", "tuple", "pos") else form
    try:
        sel = walk(tree[2], vals)
    except Exception:
        return [grp + "_selector_raises"]
    multi = _has_nary(tree[2])
    facts.append("selector_" + _typename(sel))
    if multi:
        facts.append("multilevel")
    nodes = [(o[1] if grp != "seq" else o) for o in tree[3]]
    keys = [o[0] for o in tree[3]] if grp != "seq" else None
    # which option does the selection pick (None: the lookup itself raises)?
    picked = None
    verdict = None
    if grp == "seq":
        if not isinstance(sel, int):
            verdict = "seq_nonint_selector"
        elif not (-len(nodes) <= sel < len(nodes)):
            verdict = "seq_indexerror"
        else:
            picked = sel % len(nodes)
            verdict = "seq_selected"
    else:
        try:
            hash(sel)
        except TypeError:
            verdict = grp + "_unhashable_selector"
        else:
            for idx, k in enumerate(keys):
                if k == sel:
                    picked = idx        # the last equal key holds the value (1 / True collapse in a dict display)
            verdict = (grp + "_hit") if picked is not None else (grp + "_miss_keyerror")
    for idx, node in enumerate(nodes):
        try:
            walk(node, vals)
        except Exception:
            facts.append("option_raises")
            if picked is not None and picked != idx:
                facts.append("unselected_option_raises")
            return facts
    if grp == "kw" and isinstance(sel, str):
        return facts + ["kw_text_selector"]
    facts.append(verdict)
    facts.append("form_" + form)
    if picked is None:
        if grp != "seq" and verdict.endswith("_miss_keyerror"):
            tw = _twin(sel)
            if isinstance(sel, bytes) and any(type(k) is str and k == tw for k in keys):
                facts.append(grp + "_bytes_selector_str_key_miss")
            if isinstance(sel, str) and any(type(k) is bytes and k == tw for k in keys):
                facts.append(grp + "_str_selector_bytes_key_miss")
        if verdict == "seq_nonint_selector":
            facts.append("seq_nonint_selector_" + _typename(sel))
        return facts
    facts.append("selected_value_" + _value_kind(nodes[picked]))
    if multi:
        facts.append("multilevel_selected")
    if grp == "seq":
        if isinstance(sel, bool):
            facts.append("seq_bool_index")
        elif sel < 0:
            facts.append("seq_negative_index")
        return facts
    key = [k for k in keys if k == sel][0]
    facts.append("%s_hit_%s" % (grp, _typename(key)))
    if type(key) is not type(sel) or any(type(k) is not type(key) for k in keys if k == sel):
        facts.append(grp + "_hit_cross_type")           # 1 / True / 1.0 coincidences
    if isinstance(key, int) and not isinstance(key, bool) and key < 0:
        facts.append(grp + "_hit_negative")
    if isinstance(key, (str, bytes)) and any(type(k) is not type(key) and k == _twin(key) for k in keys):
        facts.append(grp + "_hit_with_twin")            # b'ab' and 'ab' both present: the right one was picked
    if multi and isinstance(key, (str, bytes, tuple)) or (multi and key is None):
        facts.append("multilevel_%s_label_hit" % _typename(key))
    return facts


P1C_REQUIRED = (
    "p1c_tables_evaluated", "p1c_values_compared", "p1c_exceptions_compared",
    "p1c_dict_hit_str", "p1c_dict_hit_bytes", "p1c_dict_hit_int", "p1c_dict_hit_negative", "p1c_dict_hit_bool",
    "p1c_dict_hit_float", "p1c_dict_hit_tuple", "p1c_dict_hit_none", "p1c_dict_hit_cross_type", "p1c_dict_hit_with_twin",
    "p1c_dict_bytes_selector_str_key_miss", "p1c_dict_str_selector_bytes_key_miss", "p1c_dict_miss_keyerror",
    "p1c_dict_unhashable_selector", "p1c_kw_hit", "p1c_kw_miss_keyerror",
    "p1c_seq_selected", "p1c_seq_negative_index", "p1c_seq_bool_index", "p1c_seq_indexerror", "p1c_seq_nonint_selector",
    "p1c_multilevel_selected", "p1c_multilevel_str_label_hit", "p1c_multilevel_bytes_label_hit",
    "p1c_multilevel_tuple_label_hit", "p1c_multilevel_none_label_hit",
    "p1c_unselected_option_raises",
    "p1c_selected_value_const", "p1c_selected_value_field", "p1c_selected_value_subexpr", "p1c_selected_value_chooses",
    "p1c_selected_value_ite",
    "p1c_ite_picked", "p1c_ite_nonbool_falsy_condition", "p1c_ite_unpicked_alternative_raises",
    "p1c_evaluations_after_raise",
    "p2c_size_checked", "p2c_multilevel_size_checked", "p2c_lookup_error_as_packeterror", "p2c_when_checked",
    # keyword names equal to parameter names of bisturi's own closures (F20: the keyword A)
    "p1c_keyword_parameter_names_agreeing", "p1c_keyword_parameter_name_hits", "p1c_keyword_name_A_hits",
    "p2c_keyword_parameter_name_sizes_checked",
)
REQUIRED = REQUIRED + P1C_REQUIRED


def _cands(run, rng, cls, ninputs):
    cands = []
    for _ in range(ninputs):
        raw, vals = make_full_input(rng)
        try:
            pkt = cls.unpack(raw)
        except Exception as e:
            run.count("harness_operand_unpack_failed")
            run.inconclusive_because("operand-class-unpack-failed:%s" % type(e).__name__)
            continue
        parsed = parsed_values(pkt)
        if parsed != vals:
            run.count("harness_parsed_differs_from_encoded")
            run.inconclusive_because("operand-class-parsed-values-differ-from-encoded")
        for nm in DESCRIBED:
            parsed[nm] = vals[nm]
        cands.append((raw, parsed, pkt))
    return cands


def part1c(run, rng, classes, ntrees, ninputs):
    """Tables: every form of chooses (dict, keyword, list, tuple, positional) and if_true_then_else x key types
    x selector types (fields, comparisons, byte strings, optional fields, labels picked by inner tables) x option
    values (constants of every type, fields, sub-expressions, nested tables), compiled once and called as a history."""
    import bisturi.deferred as bd
    import bisturi.structural_fields as bs
    from bisturi.field import Field
    expr_types = (bd.UnaryExpr, bd.BinaryExpr, bd.NaryExpr)
    compilers = (("compile_expr_into_callable", bd.compile_expr_into_callable),
                 ("normalize_raw_condition_into_a_callable", bs.normalize_raw_condition_into_a_callable),
                 ("normalize_count_condition_into_a_callable", bs.normalize_count_condition_into_a_callable))
    tg = TableGen(rng)
    envs = [(name, opts, cls, field_env(cls)) for name, opts, cls in classes]
    samples = 0
    kw_text_outcomes = {}

    def compile_tree(dsrc, env, cn, compiler, w):
        try:
            built = eval(compile(dsrc, "<c09-expr>", "eval"), dict(env))
        except Exception as e:
            run.case(key=key_of(dsrc))
            run.violation("an expression over fields with supported operators was rejected when written "
                          "(%s: %s)" % (type(e).__name__, str(e)[:120]), w)
            return None
        if not isinstance(built, expr_types + (Field,)):
            run.count("harness_built_object_not_deferred")
            run.inconclusive_because("generator-produced-non-deferred-expression")
            return None
        try:
            return compiler(built)
        except Exception as e:
            run.case(key=key_of(dsrc))
            run.violation("%s raised %s on a well-formed expression tree" % (cn, type(e).__name__),
                          dict(w, error=str(e)[:200]))
            return None

    for i in range(ntrees):
        if run.counters["violations"] > 20:
            break
        form = TABLE_FORMS[i % len(TABLE_FORMS)]
        D = 1 + (i // len(TABLE_FORMS)) % 2
        if form == "ite":
            tree = tg.ite(D)
        else:
            keykind = KEYKINDS[(i // len(TABLE_FORMS)) % len(KEYKINDS)] if form == "dict" else None
            tree = tg.table(D, form, keykind)
        if rng.random() < 0.08:
            # the table as an operand of a further operator
            tree = rng.choice((("b", "eq", tree, ("k", rng.choice((1, "a", b"a", None)))),
                               ("b", "add", tree, ("k", rng.choice((1, "a", b"a")))),
                               ("i", tree, ("k", 0)), ("u", "truth", tree)))
        dsrc, psrc = render_def(tree), render_py(tree)
        cname, copts, cls, env = envs[i % len(envs)]
        cn, compiler = compilers[0] if i % 4 < 2 else compilers[1 + (i % 2)]
        run.count("p1c_trees")
        w = {"part": "1", "subpart": "1c", "operand_class": class_src(cname, copts), "expression": dsrc,
             "eager_python": psrc, "option_set": cname}
        f = compile_tree(dsrc, env, cn, compiler, w)
        if f is None:
            continue
        pcode = compile(psrc, "<c09-py>", "eval")
        hist = []
        unjudged = []
        for c in _cands(run, rng, cls, ninputs):
            try:
                want = eager(tree, c[1])
            except Unjudged:
                unjudged.append(c)
                continue
            except Skip as sk:
                run.count("guard_skipped")
                run.count("guard_skipped_" + str(sk))
                continue
            if not same_outcome(want, eager_from_source(pcode, c[1])):
                run.count("harness_oracle_self_disagreement")
                run.inconclusive_because("oracle-walk-vs-python-source-disagree: %s" % psrc[:150])
                continue
            hist.append((c, want))
        for raw, parsed, pkt in unjudged:
            # keyword names against a TEXT selector: observed and counted, not judged
            try:
                f(pkt=pkt)
                o = "a value (the name matched)"
            except Exception as e:
                o = type(e).__name__
            run.count("p1c_kw_text_selector_not_judged")
            kw_text_outcomes[o] = kw_text_outcomes.get(o, 0) + 1
        hist.sort(key=lambda h: 0 if h[1][0] == "exc" else 1)
        if len(hist) >= 2:
            hist.append(hist[0])
        raised_before = False
        before = []
        evaluated = 0
        top = tree if tree[0] in ("c", "t") else None
        for j, (c, want) in enumerate(hist):
            raw, parsed, pkt = c
            try:
                got = ("val", f(pkt=pkt, raw=raw, offset=0, root=pkt) if j % 2 else f(pkt=pkt))
            except Exception as e:
                got = ("exc", type(e))
            evaluated += 1
            if not same_outcome(want, got):
                what = ("compiled chooses / if_true_then_else table and eager Python evaluation disagree (value/type)"
                        if want[0] == got[0] == "val" else
                        "compiled chooses / if_true_then_else table and eager Python evaluation disagree (exception behaviour)")
                run.violation(what, dict(w, raw=raw, fields=parsed, compiled_with=cn, evaluated_before=list(before),
                                         expected=show(want), got=show(got)))
                break
            run.count("p1c_values_compared" if want[0] == "val" else "p1c_exceptions_compared")
            if want[0] == "val":
                run.cover("p1c_result_types", _typename(want[1]))
            else:
                run.cover("p1c_exception_types", want[1].__name__)
            if raised_before:
                run.count("p1c_evaluations_after_raise")
            if top is not None:
                run.count("p1c_tables_evaluated")
                for fact in table_facts(top, parsed):
                    if fact.startswith(("selector_", "ite_condition_", "seq_nonint_selector_", "form_")):
                        run.cover("p1c_" + fact.rsplit("_", 1)[0] + "s", fact.rsplit("_", 1)[1])
                    else:
                        run.count("p1c_" + fact)
            if samples < 2 and j == 0 and i % 1500 == 11:
                samples += 1
                run.sample({"part": "1c", "expression": dsrc, "eager_python": psrc, "raw": raw, "fields": parsed,
                            "result": show(got)})
            if want[0] == "exc":
                raised_before = True
            before.append(raw)
        if evaluated:
            run.case(key=key_of(dsrc), nontrivial=True, n=evaluated)
    run.extra["p1c_kw_text_selector_library_outcomes"] = dict(sorted(kw_text_outcomes.items()))


KW_PARAMETER_NAMES = ("A", "B", "C", "self", "cls", "op", "index", "options", "methodname", "target")
KW_NAME_MECH = "kw-name-collides-with-nary-parameter"
D_OFFSET = 13       # a b s s bits bits n m dl da du du dz | d


def part1c_keyword_names(run, rng, classes):
    """Keyword names that are valid Python names but happen to be the names bisturi's own functions use for their
    parameters (F20: `def nary(A, *B, **C)` rejected the keyword A): per the docs any pool of valid Python names can be
    written as keywords, meaning {b'<name>': ..}[selector]. Compiled expression and a real `Data(<table>)` declaration."""
    from .. import common
    import bisturi.deferred as bd
    scratch = common.scratch_dir("bvf_c09k_")
    try:
        for ci, (cname, copts, cls) in enumerate(classes):
            env = field_env(cls)
            for nm in KW_PARAMETER_NAMES:
                key = nm.encode("ascii")
                tree = ("c", "kw", ("s", ("f", "d"), 0, min(len(nm), 4), None),
                        [(key, ("b", "and_", ("f", "a"), ("k", 3))), (b"zz", ("k", 2)), (b"ab", ("k", 1))])
                dsrc, psrc = render_def(tree), render_py(tree)
                w = {"part": "1", "subpart": "1c-keyword-names", "operand_class": class_src(cname, copts),
                     "expression": dsrc, "eager_python": psrc, "option_set": cname}
                pname = "PK%d_%s" % (ci, nm)
                psrc_cls = class_src(pname, copts, "    x = Data(%s)\n" % dsrc)
                inputs = []
                for k in range(3):
                    raw0, vals = make_input(rng)
                    if k == 0:      # a packet whose field d starts with the keyword name: the lookup must hit
                        pad = (key + b"abab")[:4]
                        raw0 = raw0[:D_OFFSET] + pad + raw0[D_OFFSET + 4:]
                        vals = dict(vals, d=pad)
                    inputs.append((raw0 + bytes(rng.randrange(256) for _ in range(TAIL)), vals))
                run.count("p1c_keyword_parameter_names_probed")
                # (1) the compiled expression
                err = ""
                f = None
                try:
                    f = bd.compile_expr_into_callable(eval(compile(dsrc, "<c09-expr>", "eval"), dict(env)))
                except Exception as e:
                    err = "%s: %s" % (type(e).__name__, str(e)[:160])
                    built = ("exc", type(e))
                for raw, vals in inputs:
                    want = eager(tree, vals)
                    if f is None:
                        got = built
                    else:
                        try:
                            pkt = cls.unpack(raw)
                            if pkt.d != vals["d"]:
                                run.inconclusive_because("keyword-name-probe-input-layout")
                                break
                            got = ("val", f(pkt=pkt))
                        except Exception as e:
                            got = ("exc", type(e))
                    run.case(key=key_of(dsrc), nontrivial=True)
                    if same_outcome(want, got):
                        run.count("p1c_keyword_parameter_names_agreeing")
                        if want[0] == "val":
                            run.count("p1c_keyword_parameter_name_hits")
                            if nm == "A":
                                run.count("p1c_keyword_name_A_hits")
                        continue
                    run.violation("a keyword-form table whose keyword is the valid Python name %r does not mean "
                                  "{%r: ..}[selector]%s" % (nm, key, (" (rejected when written: %s)" % err) if err else ""),
                                  dict(w, raw=raw, fields=vals, expected=show(want), got=show(got)),
                                  mech=KW_NAME_MECH if (f is None or nm == "A") else None)
                    break
                # (2) the same table as the size of a Data field in a real class body
                w2 = {"part": "2", "subpart": "2c-keyword-names", "class_source": HEADER + psrc_cls, "expression": dsrc,
                      "eager_python": psrc}
                try:
                    pcls = define(HEADER + psrc_cls, scratch, "exec")[pname]
                except Exception as e:
                    run.case(key=key_of(psrc_cls))
                    run.violation("class definition with the keyword %r in a keyword-form table raised %s" % (nm, type(e).__name__),
                                  dict(w2, error=str(e)[:200]), mech=KW_NAME_MECH)
                    continue
                for raw, vals in inputs:
                    run.case(key=key_of(psrc_cls), nontrivial=True)
                    st = judge_placement(run, "size", "x", observe_unpack(pcls, raw), eager(tree, vals),
                                         dict(w2, raw=raw, unpacked_before=[]), vals)
                    if st == "value":
                        run.count("p2c_keyword_parameter_name_sizes_checked")
                    elif st == "violation":
                        break
    finally:
        common.drop_scratch(scratch)


def part1c_unjudged_forms(run, classes):
    """Forms whose meaning neither the statement nor the docs fix: what the library does is recorded, never judged."""
    import bisturi.deferred as bd
    cname, copts, cls = classes[0]
    env = field_env(cls)
    raw, _ = make_full_input(rng_for(0, "c09-unjudged", 0))
    pkt = cls.unpack(raw)
    for src in ("n.chooses([])", "n.chooses({})", "n.chooses(5)", "n.chooses(m + 1)", "v.chooses(**{'\xe9': 1, 'b': 2})",
                "n.if_true_then_else(1, 2, 3)", "n.if_true_then_else([1])", "n.if_true_then_else({1: 2, 3: 4})",
                "n.if_true_then_else(x=1, y=2)"):
        try:
            built = eval(src, dict(env))
        except Exception as e:
            out = "rejected when written (%s)" % type(e).__name__
        else:
            try:
                out = "evaluates to a %s" % type(bd.compile_expr_into_callable(built)(pkt=pkt)).__name__
            except Exception as e:
                out = "raises %s when evaluated" % type(e).__name__
        run.count("p1c_unjudged_forms_observed")
        run.cover("p1c_unjudged_forms_observed", "%s: %s" % (src, out))


def part2c(run, rng, ntrees, ninputs, tag):
    """Tables placed in real declarations: multi-level tables as a Data size (a missing key / index out of range must be a
    PacketError) and tables of any value type as a when-condition (truthiness of the selected value)."""
    from .. import common
    tg = TableGen(rng)
    scratch = common.scratch_dir("bvf_c09c_")

    def size_value(D):
        p = rng.random()
        if p < 0.6:
            return ("k", rng.choice((0, 1, 2, 3, 4, 4)))
        if p < 0.8:
            return ("f", rng.choice(("n", "m", "bt1")))
        if p < 0.9:
            return ("b", "add", ("f", rng.choice(("n", "m"))), ("k", 1))
        return ("b", "floordiv", ("k", 4), ("f", "n"))     # n == 0: every option is evaluated, ZeroDivisionError

    try:
        items = []
        for i in range(ntrees):
            place = "size" if i % 3 != 2 else "when"
            if place == "size":
                keykind = ("str", "str", "bytes", "twins", "tuple", "none", "int", "boolint", "negint", "twins")[(i // 3) % 10]
                form = ("dict", "dict", "dict", "kw", "list", "pos")[(i // 3) % 6]
                tree = tg.table(1, form, keykind, value=size_value)
            else:
                tree = tg.table(1) if i % 2 else tg.ite(1)
            oname, oopts = OPTION_SETS[i % len(OPTION_SETS)]
            name = "PC%s_%d_%s" % (tag, i, place)
            dsrc, psrc = render_def(tree), render_py(tree)
            src = class_src(name, oopts, dict(PLACEMENTS)[place] % ("x", dsrc))
            items.append({"tree": tree, "dsrc": dsrc, "psrc": psrc, "name": name, "src": src, "place": place})
        for b0 in range(0, len(items), 10):
            batch = items[b0:b0 + 10]
            mode = "file" if (b0 // 10) % 4 == 1 else "exec"
            try:
                ns = define(HEADER + "".join(it["src"] for it in batch), scratch, mode)
            except Exception:
                ns = {}
                for it in batch:
                    try:
                        ns.update(define(HEADER + it["src"], scratch, "exec"))
                    except Exception as e:
                        run.case(key=key_of(it["dsrc"] + it["place"]))
                        run.violation("class definition with a chooses / if_true_then_else table as %s raised %s"
                                      % (it["place"], type(e).__name__),
                                      {"part": "2", "placement": it["place"], "class_source": HEADER + it["src"],
                                       "expression": it["dsrc"], "error": str(e)[:200]})
            for it in batch:
                cls = ns.get(it["name"])
                if cls is None:
                    continue
                run.count("p2c_classes")
                plan = []
                for _ in range(ninputs):
                    raw0, vals = make_input(rng)
                    raw = raw0 + bytes(rng.randrange(256) for _ in range(2 * TAIL + 4))
                    try:
                        want = eager(it["tree"], vals)
                    except Skip:
                        run.count("p2c_inputs_not_judged")
                        continue
                    plan.append((raw, vals, want))
                plan.sort(key=lambda q: 0 if _fails_somewhere(q[2]) else 1)
                if len(plan) >= 2:
                    plan.append(plan[0])
                before = []
                multi = it["tree"][0] == "c" and _has_nary(it["tree"][2])
                for raw, vals, want in plan:
                    w = {"part": "2", "subpart": "2c", "class_source": HEADER + it["src"], "expression": it["dsrc"],
                         "eager_python": it["psrc"], "raw": raw, "unpacked_before": list(before)}
                    st = judge_placement(run, it["place"], "x", observe_unpack(cls, raw), want, w, vals)
                    before.append(raw)
                    if st == "violation":
                        break
                    if st == "value":
                        run.count("p2c_%s_checked" % it["place"])
                        if multi and it["place"] == "size":
                            run.count("p2c_multilevel_size_checked")
                    elif st == "error" and want[0] == "exc":
                        run.count("p2c_expression_exception_as_packeterror")
                        if want[1] in (KeyError, IndexError):
                            run.count("p2c_lookup_error_as_packeterror")
                if plan:
                    run.case(key="2c:" + key_of(it["dsrc"] + it["place"]), nontrivial=True, n=len(plan))
    finally:
        common.drop_scratch(scratch)


# ------------------------------------------------------------------------------------------
def define_operand_classes(run, scratch):
    src = HEADER + "".join(class_src("Ops_%s" % nm, opts) for nm, opts in OPTION_SETS)
    ns = define(src, scratch, "file")
    return [("Ops_%s" % nm, opts, ns["Ops_%s" % nm]) for nm, opts in OPTION_SETS]


def run(run):
    from .. import common
    shard, nshards = run.shard
    rng = rng_for(run.seed, "c09", shard)
    quick = run.tier == "quick"
    scratch = common.scratch_dir("bvf_c09ops_")
    try:
        classes = define_operand_classes(run, scratch)
        if quick:
            ntrees, maxdepth, ninputs = 30000, 4, 3
            n2, d2 = 300, 3
        else:
            ntrees, maxdepth, ninputs = 1000000 // max(nshards, 1), 6, 3
            n2, d2 = 350, 4
        part1(run, rng, classes, ntrees, maxdepth, ninputs, 0.3)
        part1b(run, rng_for(run.seed, "c09-1b", shard), classes, 150 if quick else 400)
        t0 = time.time()
        part1c(run, rng_for(run.seed, "c09-1c", shard), classes, 12000 if quick else 30000, 3)
        part1c_keyword_names(run, rng_for(run.seed, "c09-1ck", shard), classes)
        part1c_unjudged_forms(run, classes)
        part2c(run, rng_for(run.seed, "c09-2c", shard), 150 if quick else 300, 6, "s%d" % shard)
        run.extra["p1c_p2c_cpu_wall_s"] = round(time.time() - t0, 1)
        part2(run, rng_for(run.seed, "c09-2", shard), n2, d2, 6, "s%d" % shard, 0.5)
        run.extra["max_nesting_depth"] = maxdepth
    finally:
        common.drop_scratch(scratch)


# ------------------------------------------------------------------------------------------
def _unj(o):
    """Undo common.to_json for witness values (bytes)."""
    if isinstance(o, dict):
        if set(o) == {"__bytes__"}:
            return bytes.fromhex(o["__bytes__"])
        return {k: _unj(v) for k, v in o.items()}
    if isinstance(o, list):
        return [_unj(x) for x in o]
    return o


def replay(run, rec):
    """Re-execute one recorded witness exactly: define the class from its source, compile the
    expressions that were compiled before it (sibling pass), replay the earlier calls of the same
    callable / class (history pass), then evaluate the recorded expression on the recorded bytes and
    compare with the recorded eager Python text."""
    from .. import common
    import bisturi.deferred as bd
    w = _unj(rec["witness"])
    scratch = common.scratch_dir("bvf_c09rp_")
    try:
        part = w.get("part")
        if part == "1":
            ns = define(HEADER + w["operand_class"], scratch, "file")
            cls = [v for k, v in ns.items() if k.startswith("Ops_")][0]
            env = field_env(cls)
            try:
                for src in w.get("compile_first", []):
                    bd.compile_expr_into_callable(eval(src, dict(env)))
                f = bd.compile_expr_into_callable(eval(w["expression"], dict(env)))
            except Exception as e:
                f = None
                got = ("exc", type(e))
            for j, raw in enumerate(w.get("evaluated_before", [])):
                p0 = cls.unpack(raw)
                try:
                    f(pkt=p0, raw=raw, offset=0, root=p0) if j % 2 else f(pkt=p0)
                except Exception:
                    pass
            pkt = cls.unpack(w["raw"])
            parsed = parsed_values(pkt)     # the fields' own slots (a described field: its hidden slot)
            want = eager_from_source(compile(w["eager_python"], "<py>", "eval"), parsed)
            if f is not None:
                try:
                    got = ("val", f(pkt=pkt))
                except Exception as e:
                    got = ("exc", type(e))
            run.case(key=key_of(w["expression"]))
            run.count("replayed")
            if not same_outcome(want, got):
                run.violation("compiled expression and eager Python evaluation disagree (replay)",
                              dict(w, expected=show(want), got=show(got)))
        elif part == "1b" and "raw" in w:
            import bisturi.structural_fields as bs
            ns = define(HEADER + w["operand_class"], scratch, "file")
            cls = [v for k, v in ns.items() if k.startswith("Ops_")][0]
            cond = bs.normalize_raw_condition_into_a_callable(field_env(cls)[w["field"]])
            pkt = cls.unpack(w["raw"])
            v = parsed_values(pkt)[w["field"]]
            try:
                got = ("val", cond(pkt=pkt, raw=w["raw"], offset=0))
            except Exception as e:
                got = ("exc", type(e))
            run.case(key="1b:" + w["field"])
            run.count("replayed")
            if got[0] != "val" or bool(got[1]) != bool(v):
                run.violation("a bare field used as a condition does not have the truthiness of its parsed value (replay)",
                              dict(w, expected_truthiness=bool(v), got=show(got)))
        elif part in ("2", "2f"):
            ns = define(w["class_source"], scratch, "file")
            if "class" in w:
                cls = ns[w["class"]]
            else:
                cls = [v for k, v in ns.items() if k.startswith("P") and isinstance(v, type) and k != "Packet"][0]
            for raw in w.get("unpacked_before", []):
                observe_unpack(cls, raw)
            vals = w["fields"]
            want = eager_from_source(compile(w["eager_python"], "<py>", "eval"), vals)
            run.case(key=key_of(w["expression"]))
            run.count("replayed")
            w2 = {k: v for k, v in w.items() if k not in ("placement", "attr", "fields", "eager", "outcome", "got")}
            judge_placement(run, w["placement"], w.get("attr", "x"), observe_unpack(cls, w["raw"]), want, w2, vals)
        else:
            run.inconclusive_because("witness-part-not-replayable:%s" % part)
    finally:
        common.drop_scratch(scratch)
