"""C18  The regexp pre-filter never rejects a matching packet.

For flat declarations over Int / Bits / Data (every sizing mode; delimiters kept or literal;
regex delimiters not kept are excluded as the statement says) and for every subset of fields
fixed to concrete values (the rest Any(), and Any(startswith/endswith/contains) on Data):
  * pattern.as_regular_expression() must not raise;
  * for every corpus string r:  Cls.unpack(r, silent=True) == pattern  =>  rx.match(r);
  * pattern_matching.filter(pattern, corpus) returns the same packets with and without the
    regexp pre-filter.
Corpus per pattern: the encoding the pattern was derived from, other valid encodings of the
declaration, near misses (one byte altered inside a fixed field), random strings.  Values
include regex metacharacters, newlines, NULs, bit patterns with fixed low / mixed bits.
"""
import itertools

from .. import common, driver, harness, model, monitors, render
from ..common import rng_for, b2j

LEVEL = "exploration"
SHARDS = {"quick": 1, "thorough": 16}
REQUIRED = ("bits_patterns_enumerated", "bits_matching_bytes_judged", "patterns_built", "regexps_built", "corpus_strings_judged", "equal_and_matched", "unequal_and_rejected_by_regexp",
            "filter_equivalence_checked", "patterns_all_any", "patterns_with_bits_partially_fixed", "patterns_with_constrained_any",
            "patterns_with_any_size_field", "metachar_values_fixed", "source_string_parsed_before_and_after_deriving_the_regexp")
MIN_NONTRIVIAL = 150
RULE = {
    "quick": "~330 flat generated declarations (Int all widths/orders, Bits runs, Data const/field/expr/callable/marker/kept-regex/EOS, class "
             "endianness and search_buffer_length) x up to 3 source encodings x 8 subsets of fixed fields (none, each single, random, all, "
             "constrained Any on Data) x corpus of ~25 strings. Non-trivial = one (pattern, corpus string) judgement where the string unpacks; "
             "distinct = (skeleton, set of fixed fields incl. kind of Any, equal?, matched?).",
    "thorough": "16 shards x 1500 declarations.",
}
ASSUMPTIONS = [
    "equality between the pattern and an unpacked packet is the library's own == (pattern on the left), as used by filter()",
    "byte strings ended by a regex delimiter that is not kept in the value are excluded (statement)",
    "only in-range, non-negative values are fixed on bit fields",
]

VARIANTS = {"d": {}}
META = b".^$*+?{}[]\\|()-\n\r\x00"


def make_pattern(bench, fam, pv, fixed, anys):
    """Pattern packet: `fixed` field names take pv's values, `anys` maps name -> Any(...) kwargs."""
    from bisturi.pattern_matching import Any
    cls = bench.root("d")
    pkt = cls()
    for f in fam["decls"][fam["root"]]["fields"]:
        name = f["name"]
        if name in fixed:
            setattr(pkt, name, pv.vals[name])
        else:
            setattr(pkt, name, Any(**anys.get(name, {})))
    return pkt


def subsets(fam, pv, rng):
    fields = fam["decls"][fam["root"]]["fields"]
    names = [f["name"] for f in fields]
    out = [((), {})]
    for n in names[:5]:
        out.append(((n,), {}))
    out.append((tuple(names), {}))
    for _ in range(2):
        k = rng.randint(1, max(1, len(names) - 1))
        out.append((tuple(sorted(rng.sample(names, k))), {}))
    # constrained Any on data fields
    for f in fields:
        v = pv.vals.get(f["name"])
        if f["t"] == "data" and isinstance(v, bytes) and len(v) >= 1:
            kind = rng.choice(["startswith", "endswith", "contains", "both"])
            if kind == "startswith":
                kw = {"startswith": v[:rng.randint(1, len(v))]}
            elif kind == "endswith":
                kw = {"endswith": v[-rng.randint(1, len(v)):]}
            elif kind == "contains":
                a = rng.randrange(len(v))
                kw = {"contains": v[a:a + rng.randint(1, 2)]}
            else:
                kw = {"startswith": v[:1], "endswith": v[-1:]}
            others = tuple(sorted(rng.sample([n for n in names if n != f["name"]], rng.randint(0, max(0, len(names) - 1)))))
            out.append((others, {f["name"]: kw}))
            break
    return out


def near_misses(rng, raw, mr, fixed_names):
    spans = [(p[-1] if isinstance(p[-1], str) else p[0], a, b) for (p, a, b) in mr.trace.spans]
    for name, a, b in spans:
        if name in fixed_names and b > a and b <= len(raw):
            pos = rng.randrange(a, b)
            x = bytearray(raw)
            x[pos] ^= rng.choice([1, 0x80, 0xFF, 0x20])
            yield bytes(x)


class AnyEmu:
    """Behaves like bisturi's Any() inside a size expression: equal to everything, every other
    operator unsupported."""
    def __eq__(self, other):
        return True

    def __ne__(self, other):
        return False

    __hash__ = None


CONTEXT_REGEXES = ("noesc_quote", "lb_semi", "caret_or_comma")


def context_dependent_delimiter(fam, fixed, raw):
    """Known finding F17: a regex delimiter whose match depends on what precedes the cursor (look-behind,
    ^ anchor) is searched on a copy that starts at the cursor while parsing, but sees the preceding
    bytes / the real start of the string inside the packet regexp. Confirmed from the witness: searching
    the delimiter in place gives another match than searching the copy."""
    import re as _re
    from ..spec import REGEXES
    st, mr = harness.model_parse(fam, raw, 0)
    if st != "ok":
        return False
    W = fam["decls"][fam["root"]]["opts"].get("search_buffer_length")
    for fe in mr.trace.fields:
        f = next((x for x in fam["decls"][fam["root"]]["fields"] if x["name"] == fe["name"]), None)
        if not f or f["t"] != "data" or f.get("mode") != "regex" or f["rx"] not in CONTEXT_REGEXES or f["name"] in fixed:
            continue
        pat = _re.compile(REGEXES[f["rx"]][0])
        start = fe["start"]
        window = raw[start:start + W] if W else raw[start:]
        a = pat.search(window)
        b = pat.search(raw, start, start + W if W else len(raw))
        sa = (a.start(), a.end()) if a else None
        sb = (b.start() - start, b.end() - start) if b else None
        if sa != sb:
            return True
    return False


def classify_false_negative(fam, fixed, u_pv):
    """Known finding F15: the size of a Data field is computed from an ==/!= comparison with a field
    that is Any in the pattern; Any answers the comparison instead of making the size unknown.
    Confirmed from the witness: evaluating the size expression with Any-like operands yields an
    integer different from the real length of that field in the string's own packet."""
    fields = fam["decls"][fam["root"]]["fields"]
    emu = {}
    for f in fields:
        emu[f["name"]] = u_pv.vals[f["name"]] if f["name"] in fixed else AnyEmu()
    for f in fields:
        if f["t"] != "data" or f.get("mode") != "dyn" or f["name"] in fixed:
            continue
        if f["size"]["form"] == "rawlambda" or not has_eq(f["size"]["e"]):
            continue
        try:
            n = model.eval_dyn(f["size"], emu)
        except Exception:
            continue
        if isinstance(n, AnyEmu) or not isinstance(n, int):
            continue
        if int(n) != len(u_pv.vals[f["name"]]):
            return "size-from-equality-with-any"
    # Known finding F16: with search_buffer_length=W a regex delimiter containing '$' matches at the edge
    # of the W-byte search window while parsing, but the packet regexp can only express the end of the string.
    W = fam["decls"][fam["root"]]["opts"].get("search_buffer_length")
    if W:
        for f in fields:
            if f["t"] == "data" and f.get("mode") == "regex" and f["rx"] == "nl_or_end" and f["name"] not in fixed:
                v = u_pv.vals[f["name"]]
                if len(v) == W and not v.endswith(b"\n"):
                    return "dollar-matches-at-search-window-edge"
    return None


def has_eq(e):
    if not isinstance(e, list):
        return False
    if e[0] == "b" and e[1] in ("eq", "ne"):
        return True
    return any(has_eq(x) for x in e[1:])


def one_source(run, bench, rng, raw, mr, corpus_base):
    from bisturi import pattern_matching as pm
    fam = bench.fam
    cls = bench.root("d")
    pv = mr.value
    fields = fam["decls"][fam["root"]]["fields"]
    src = driver.src_of(bench, "d")
    for fixed, anys in subsets(fam, pv, rng):
        witness = {"source": src, "derived_from": b2j(raw), "fixed_fields": list(fixed),
                   "constrained_any": {k: {a: b2j(b) for a, b in kw.items()} for k, kw in anys.items()},
                   "values": pv.to_json(), "fam": fam}
        try:
            pattern = make_pattern(bench, fam, pv, set(fixed), anys)
        except Exception as e:
            run.count("pattern_construction_failed")
            continue
        run.count("patterns_built")
        if not fixed and not anys:
            run.count("patterns_all_any")
        if anys:
            run.count("patterns_with_constrained_any")
        bits = [f for f in fields if f["t"] == "bits"]
        if bits and any(b["name"] in fixed for b in bits) and any(b["name"] not in fixed for b in bits):
            run.count("patterns_with_bits_partially_fixed")
        for f in fields:
            if f["t"] == "data" and f.get("mode") == "dyn" and f["name"] not in fixed:
                pass
            if f["t"] == "data" and f.get("mode") == "dyn" and f["size"]["e"][0] == "f" and f["size"]["e"][1] not in fixed:
                run.count("patterns_with_any_size_field")
            v = pv.vals.get(f["name"])
            if f["name"] in fixed and isinstance(v, bytes) and any(c in META for c in v):
                run.count("metachar_values_fixed")
        # what the class makes of the source string BEFORE the expression is derived: deriving it evaluates the declaration's size
        # expressions on placeholders, and whatever that leaves behind must not change later parses (filter() with the pre-filter
        # derives the expression first and parses afterwards; without it nothing is derived)
        try:
            u0 = cls.unpack(raw, silent=True)
            before = None if u0 is None else monitors.pkt_to_pv(fam, fam["root"], u0)
        except Exception:
            before = None
        try:
            rx = pattern.as_regular_expression()
        except Exception as e:
            run.violation("as_regular_expression() raised %s: %s" % (type(e).__name__, str(e)[:120]), witness, None)
            continue
        run.count("regexps_built")
        if before is not None:
            run.count("source_string_parsed_before_and_after_deriving_the_regexp")
            try:
                u1 = cls.unpack(raw, silent=True)
                after = None if u1 is None else monitors.pkt_to_pv(fam, fam["root"], u1)
            except Exception as e:
                after = "raised %s" % type(e).__name__
            if after != before:
                run.violation("deriving the regular expression changes what the class parses afterwards: filter() with the pre-filter "
                              "loses packets that filter() without it returns",
                              dict(witness, string=b2j(raw), regexp=b2j(rx.pattern), before=before.to_json(),
                                   after=after.to_json() if hasattr(after, "to_json") else repr(after)), None)
                continue
        corpus = [raw] + list(corpus_base) + list(near_misses(rng, raw, mr, set(fixed)))
        for _ in range(3):
            corpus.append(bytes(rng.choice(b"\x00\x01ab;\n\xff") for _ in range(rng.randint(0, 12))))
        bad = False
        for r in corpus:
            u = cls.unpack(r, silent=True)
            if u is None:
                run.count("corpus_strings_not_unpackable")
                continue
            try:
                eq = bool(pattern == u)
            except Exception as e:
                run.violation("pattern == packet raised %s" % type(e).__name__, dict(witness, string=b2j(r)), None)
                bad = True
                break
            matched = bool(rx.match(r))
            run.count("corpus_strings_judged")
            run.case(key=(bench.skeleton, fixed, tuple(sorted(anys)), eq, matched), nontrivial=True)
            if eq and matched:
                run.count("equal_and_matched")
            elif not eq and not matched:
                run.count("unequal_and_rejected_by_regexp")
            elif not eq and matched:
                run.count("unequal_but_passed_by_regexp(fine)")
            else:
                try:
                    mech = classify_false_negative(fam, set(fixed), monitors.pkt_to_pv(fam, fam["root"], u))
                    if mech is None and context_dependent_delimiter(fam, set(fixed), r):
                        mech = "context-dependent-regex-delimiter"
                except Exception:
                    mech = None
                run.violation("the regexp pre-filter rejects a string that unpacks to a packet equal to the pattern",
                              dict(witness, string=b2j(r), regexp=b2j(rx.pattern)), mech)
                bad = True
                break
        if bad:
            continue
        # filter with / without the pre-filter
        try:
            with_rx = [monitors.pkt_to_pv(fam, fam["root"], p) for p in pm.filter(pattern, corpus, True)]
            without = [monitors.pkt_to_pv(fam, fam["root"], p) for p in pm.filter(pattern, corpus, False)]
        except Exception as e:
            run.violation("pattern_matching.filter raised %s: %s" % (type(e).__name__, str(e)[:100]), witness, None)
            continue
        run.count("filter_equivalence_checked")
        if with_rx != without:
            run.violation("filter() returns different packets with and without the regexp pre-filter (%d vs %d)" % (len(with_rx), len(without)),
                          dict(witness, regexp=b2j(rx.pattern)), None)


def compositions(total):
    if total == 0:
        yield []
        return
    for first in range(1, total + 1):
        for rest in compositions(total - first):
            yield [first] + rest


def bits_part(run, rng, quick):
    """Bit-field patterns, enumerated: every composition of 8 bits into consecutive Bits fields x subsets of
    fixed members x every value of the fixed members; the derived regexp is matched against all 256
    first bytes.  Soundness per byte: if the byte carries the fixed bits, the regexp must match."""
    from bisturi.pattern_matching import Any
    shard, nshards = run.shard
    d = common.scratch_dir("bvf_c18b_")
    comps = [c for c in compositions(8) if 2 <= len(c) <= 8]
    comps = [c for i, c in enumerate(comps) if i % nshards == shard]
    all_bytes = [bytes([b, 0x5A]) for b in range(256)]
    for ci in range(0, len(comps), 8):
        chunk = comps[ci:ci + 8]
        src = [render.HEADER]
        for n, widths in enumerate(chunk):
            src.append("class B%d(Packet):" % (ci + n))
            for k, w in enumerate(widths):
                src.append("    b%d = Bits(%d)" % (k, w))
            src.append("    t = Int(1)")
            src.append("")
        module, path = render.load_source("\n".join(src), d)
        for n, widths in enumerate(chunk):
            cls = getattr(module, "B%d" % (ci + n))
            k = len(widths)
            shifts = []
            acc = 8
            for w in widths:
                acc -= w
                shifts.append(acc)
            subsets = [(i,) for i in range(k)] + [tuple(j for j in range(k) if j != i) for i in range(k) if k > 2]
            for _ in range(3):
                subsets.append(tuple(sorted(rng.sample(range(k), rng.randint(1, k - 1)))))
            for sub in sorted(set(subsets)):
                nbits = sum(widths[i] for i in sub)
                combos = 1 << nbits
                step = max(1, combos // 128)
                for combo in range(0, combos, step):
                    # distribute combo bits over the fixed members
                    vals = {}
                    rest = combo
                    for i in reversed(sub):
                        vals[i] = rest & ((1 << widths[i]) - 1)
                        rest >>= widths[i]
                    pkt = cls()
                    for i in range(k):
                        setattr(pkt, "b%d" % i, vals[i] if i in vals else Any())
                    pkt.t = Any()
                    try:
                        rx = pkt.as_regular_expression()
                    except Exception as e:
                        run.violation("as_regular_expression() raised %s for a bit-field pattern" % type(e).__name__,
                                      {"widths": widths, "fixed": {("b%d" % i): v for i, v in vals.items()}}, None)
                        return
                    run.count("bits_patterns_enumerated")
                    fixed_mask = sum(((1 << widths[i]) - 1) << shifts[i] for i in sub)
                    fixed_val = sum(vals[i] << shifts[i] for i in sub)
                    for b, s in enumerate(all_bytes):
                        if (b & fixed_mask) == fixed_val:
                            run.count("bits_matching_bytes_judged")
                            if not rx.match(s):
                                run.violation("the regexp derived for a partly fixed bit-field byte rejects a byte that carries the fixed bits",
                                              {"widths": widths, "fixed": {("b%d" % i): v for i, v in vals.items()}, "byte": b,
                                               "regexp": b2j(rx.pattern), "source": "\n".join(src)}, None)
                                return
                    run.case(key=("bits", tuple(widths), sub, combo), nontrivial=True, n=0)
    common.drop_scratch(d)


def run(run):
    shard, nshards = run.shard
    rng = rng_for(run.seed, "c18", shard)
    bits_part(run, rng, run.tier == "quick")
    nfam = 330 if run.tier == "quick" else 1500
    profile = {"flat": True, "allow_regex_nokeep_single": False, "allow_regex_nokeep_multi": False, "max_fields": 6,
               "p_class_align": 0.0, "allow_noconsume": True}
    sampled = 0
    for bench in driver.families(run, rng, profile, VARIANTS, nfam, instrument=(), tag="c18"):
        fam = bench.fam
        valid = []
        for j in range(14):
            raw, oc = model.generate_input(fam, rng, maxlen=80)
            st, mr = harness.model_parse(fam, raw, 0)
            if st == "ok":
                valid.append((raw, mr))
        if not valid:
            run.count("families_without_valid_input")
            continue
        base = [r for r, _ in valid]
        for raw, mr in valid[:3]:
            one_source(run, bench, rng, raw, mr, [r for r in base if r != raw][:10])
            if sampled < 3:
                sampled += 1
                run.sample({"source": driver.src_of(bench, "d"), "derived_from": raw, "values": mr.value.to_json()})
        if run.counters["violations"] > 40:
            break


def replay(run, rec):
    """Re-executes the recorded (pattern, string) judgement."""
    from bisturi import pattern_matching as pm
    w = rec["witness"]
    if "fam" not in w:
        print("bit-field pattern witness:", {k: w[k] for k in w if k != "source"})
        return
    fam = common.from_json(w["fam"])
    d = common.scratch_dir("bvf_replay_")
    bench = harness.Bench(fam, VARIANTS, d, instrument=())
    pv = model.val_from_json(w["values"])
    anys = {k: {a: common.from_json(b) for a, b in kw.items()} for k, kw in (w.get("constrained_any") or {}).items()}
    pattern = make_pattern(bench, fam, pv, set(w["fixed_fields"]), anys)
    try:
        rx = pattern.as_regular_expression()
    except Exception as e:
        run.violation("as_regular_expression() raised %s: %s" % (type(e).__name__, str(e)[:120]), w, None)
        return
    if "string" not in w:
        return
    r = common.from_json(w["string"])
    u = bench.root("d").unpack(r, silent=True)
    print("regexp:", rx.pattern)
    print("unpacks:", u is not None, " equal to pattern:", (pattern == u) if u is not None else None, " regexp matches:", bool(rx.match(r)))
    if u is not None and (pattern == u) and not rx.match(r):
        mech = classify_false_negative(fam, set(w["fixed_fields"]), monitors.pkt_to_pv(fam, fam["root"], u))
        if mech is None and context_dependent_delimiter(fam, set(w["fixed_fields"]), r):
            mech = "context-dependent-regex-delimiter"
        run.violation("the regexp pre-filter rejects a string that unpacks to a packet equal to the pattern", w, mech)
