"""C04  Unpack is strict: no value is decoded from bytes that are not there.

Two oracles on every execution:
  * cursor monitor (model-free): in a successful unpack of the all-generic variant no
    value-bearing leaf field may have a cursor span that extends past len(raw);
  * strict reference model: an input the model rejects because bytes are missing must not be
    accepted (over-acceptance), and an accepted input must yield exactly the model's values
    (no shortened / zero-extended / fabricated values); a failing unpack must raise
    PacketError (nothing else) and return None under silent=True.
Workload: for every valid input produced by the lazy-buffer generator EVERY truncation point,
plus corruptions aimed at length/count/selector/position bytes, plus random strings; both the
generic and the generated/vectorised variant.  Widths 3,5,6,7,9,16 and bit groups of 24/40/48
bits are produced by the generator's width table.
"""
from .. import common, driver, harness, model, monitors, render, workloads
from ..common import rng_for, b2j

LEVEL = "exploration"
SHARDS = {"quick": 1, "thorough": 16}
REQUIRED = ("families_whose_size_expression_can_go_negative", "families_whose_selector_builds_fresh_fields", "truncations_run", "rejections_observed", "accepted_checked_against_model", "leaf_spans_checked",
            "silent_none_checked", "odd_width_int_truncations", "odd_bits_run_truncations")
MIN_NONTRIVIAL = 200
RULE = {
    "quick": "~260 generated families x 8 valid inputs x every cut point (all strict prefixes) + 6 targeted corruptions + random strings, "
             "each run through the generic (monitored) and the default generated variant. Non-trivial = a truncated/corrupted input "
             "(not the valid original); distinct = (declaration skeleton, kind of input, failing/accepting, first failing field kind).",
    "thorough": "16 shards x 1200 families x 10 valid inputs x every cut point + corruptions + random strings.",
}
ASSUMPTIONS = [
    "the strict reference model (bvf/model.py) is the meaning of 'as many bytes as its declaration requires'",
    "inputs on which the model is Undefined (negative cursor, read-to-end past the end, runaway repetition) are skipped and counted",
    "the library being *stricter* than the model is not a C04 matter (counted; C02/C06/C08 judge acceptance)",
]

VARIANTS = {"g": render.VARIANTS["g"], "d": {}}

ODD = (3, 5, 6, 7, 9, 16)


def family_flags(fam):
    odd_int = odd_bits = False
    for d in fam["decls"].values():
        run_bits = 0
        for f in d["fields"]:
            if f["t"] == "int" and f["n"] in ODD:
                odd_int = True
            if f["t"] == "sel":
                for o in f["options"].values():
                    if o["t"] == "int" and o["n"] in ODD:
                        odd_int = True
            if f["t"] == "bits":
                run_bits += f["w"]
            else:
                if run_bits // 8 in (3, 5, 6, 7):
                    odd_bits = True
                run_bits = 0
        if run_bits // 8 in (3, 5, 6, 7):
            odd_bits = True
    return odd_int, odd_bits


def judge(run, bench, label, raw, flags):
    """One hostile input through model + both variants."""
    fam = bench.fam
    st, mr = harness.model_parse(fam, raw, 0)
    if st == "undefined":
        run.count("model_undefined_skipped")
        return
    kind = label.split("@")[0]
    run.count("truncations_run" if kind == "cut" else "%s_inputs_run" % kind)
    if kind == "cut":
        if flags[0]:
            run.count("odd_width_int_truncations")
        if flags[1]:
            run.count("odd_bits_run_truncations")
    witness = {"source": driver.src_of(bench), "raw": b2j(raw), "input": label, "fam": fam}
    res, roots, slices, failnode = bench.traced_unpack("g", raw, 0)
    outcomes = [("g", res)]
    outcomes.append(("d", harness.lib_unpack(bench.root("d"), raw, 0)))
    first_kind = None
    for v, r in outcomes:
        if r.status == "timeout":
            run.count("watchdog_skipped")
            continue
        if r.status == "exception":
            run.violation("unpack raised %s instead of PacketError" % r.etype,
                          dict(witness, variant=v, error=repr(r.err)[:300]), None)
            continue
        if r.status == "ok":
            if v == "g":
                for n in monitors.leaves(roots):
                    if n.exit is not None and n.exit > n.enter:
                        run.count("leaf_spans_checked")
                        if n.exit > len(raw):
                            run.violation("a value-bearing field consumed bytes beyond the end of the input (cursor monitor)",
                                          dict(witness, variant=v, field=n.name, cls=n.cls, span=[n.enter, n.exit], length=len(raw)), None)
                            break
            if st == "fail":
                run.violation("over-acceptance: unpack succeeded on an input the strict model rejects (%s)" % mr.why,
                              dict(witness, variant=v, model_path=mr.path), None)
                continue
            try:
                pv = monitors.pkt_to_pv(fam, fam["root"], r.pkt)
            except monitors.Unreadable as e:
                run.violation("accepted packet has an unreadable field: %s" % e, dict(witness, variant=v), None)
                continue
            run.count("accepted_checked_against_model")
            if pv != mr.value:
                run.violation("accepted input decoded to values different from the strict model (fabricated/shortened value)",
                              dict(witness, variant=v, library=pv.to_json(), model=mr.value.to_json()), None)
            elif r.end is not None and r.end != mr.end:
                run.violation("accepted input: end offset differs from the model",
                              dict(witness, variant=v, library_end=r.end, model_end=mr.end), None)
        else:
            run.count("rejections_observed")
            if st == "ok":
                run.count("library_stricter_than_model")
                run.extra.setdefault("stricter_samples", [])
                if len(run.extra["stricter_samples"]) < 3:
                    run.extra["stricter_samples"].append(dict(witness, variant=v, error=str(r.err)[:200]))
            # silent mode must give None
            try:
                out = bench.root(v).unpack(raw, silent=True)
            except Exception as e:
                run.violation("unpack(silent=True) raised %s" % type(e).__name__, dict(witness, variant=v), None)
            else:
                run.count("silent_none_checked")
                if out is not None:
                    run.violation("unpack(silent=True) returned a packet on a failing input", dict(witness, variant=v), None)
    accepted = res.status == "ok"
    if st == "fail" and mr.path:
        first_kind = mr.path[0][0][:1]
    run.case(key=(bench.skeleton, kind, accepted, first_kind), nontrivial=(kind != "valid"), n=1)


def run(run):
    shard, nshards = run.shard
    rng = rng_for(run.seed, "c04", shard)
    nfam = 260 if run.tier == "quick" else 1200
    ninputs = 8 if run.tier == "quick" else 10
    profile = {"int_widths": [1, 2, 3, 3, 4, 5, 6, 7, 8, 9, 16], "p_move": 0.12,
               "kinds": {"int": 36, "data": 24, "bits": 14, "ref": 12, "sel": 6, "em": 2}}
    if run.tier == "thorough":
        profile["max_depth"] = 4
    sampled = 0
    def builds_fresh_fields(fam):
        # a run-time selected reference whose callable constructs a new field per call, with alternatives of different sizes
        for d in fam["decls"].values():
            for f in d["fields"]:
                if f["t"] == "sel" and f.get("form") == "fresh" and "share" not in f:
                    sizes = set((o["t"], o.get("n"), o.get("size"), o.get("mode")) for o in f["options"].values() if o["t"] != "ref")
                    if len(sizes) >= 2:
                        return True
        return False
    def size_can_go_negative(fam):
        # Data(field - 1) / Data(3 - field): a corrupted or small steering value makes the declared size negative
        for d in fam["decls"].values():
            for f in d["fields"]:
                if f["t"] == "data" and f.get("mode") == "dyn" and isinstance(f["size"].get("e"), list) and f["size"]["e"][:2] == ["b", "sub"]:
                    return True
        return False
    negative_profile = dict(profile, kinds={"int": 40, "data": 45, "bits": 4, "ref": 8, "sel": 2, "em": 1}, accept=size_can_go_negative)
    fresh_profile = dict(profile, kinds={"int": 30, "data": 16, "bits": 4, "ref": 6, "sel": 40, "em": 1}, p_rep=0.3, accept=builds_fresh_fields)
    import itertools
    for bench in itertools.chain(driver.families(run, rng, profile, VARIANTS, nfam, tag="c04"),
                                 driver.families(run, rng, fresh_profile, VARIANTS, max(12, nfam // 8), tag="c04f"),
                                 driver.families(run, rng, negative_profile, VARIANTS, max(12, nfam // 8), tag="c04n")):
        if size_can_go_negative(bench.fam):
            run.count("families_whose_size_expression_can_go_negative")
        if builds_fresh_fields(bench.fam):
            run.count("families_whose_selector_builds_fresh_fields")
        fam = bench.fam
        flags = family_flags(fam)
        seen = set()
        for j in range(ninputs):
            raw, oc = model.generate_input(fam, rng, maxlen=120)
            if raw in seen:
                continue
            seen.add(raw)
            st, mr = harness.model_parse(fam, raw, 0)
            if st != "ok":
                judge(run, bench, "invalid@0", raw, flags)
                continue
            run.count("valid_inputs")
            used = raw[:mr.trace.extent] if mr.trace.extent <= len(raw) else raw
            judge(run, bench, "valid@%d" % len(used), used, flags)
            for label, t in workloads.truncations(used):
                judge(run, bench, label, t, flags)
            for label, t in workloads.corruptions(fam, rng, used, mr, n=6):
                judge(run, bench, label, t, flags)
            if sampled < 3 and len(used) > 3:
                sampled += 1
                run.sample({"source": driver.src_of(bench), "valid_input": used, "cuts": "every prefix of it",
                            "model_value": mr.value.to_json()})
        for label, t in workloads.random_strings(rng, 3):
            judge(run, bench, label, t, flags)
        if run.counters["violations"] > 30:
            break


def replay(run, rec):
    w = common.from_json(rec["witness"])
    d = common.scratch_dir("bvf_replay_")
    bench = harness.Bench(w["fam"], VARIANTS, d)
    bench.skeleton = "replay"
    judge(run, bench, w.get("input", "cut@0"), w["raw"], family_flags(w["fam"]))
