"""C07  Bit fields partition their bytes MSB-first and never disturb neighbours.

Executable model + enumeration.  The oracle is plain integer arithmetic written from the
statement: a run of consecutive Bits fields with widths w_1..w_k (sum a multiple of 8) is one
big-endian integer of sum/8 bytes; field i occupies bits [shift_i, shift_i + w_i) with
shift_i = sum(w_{i+1}..w_k) (first field most significant);
    unpack:  field_i = (I >> shift_i) & (2^w_i - 1)
    pack:    I = sum((v_i mod 2^w_i) << shift_i)        (mathematical mod: result in [0, 2^w_i))
so a value of one field, however large or negative, changes no bit outside its own slice.
A run whose total width is not a multiple of 8 must make the class definition raise
bisturi.field.Bits.ByteBoundaryError.

Every verdict comes from executing the real library: classes are defined from source text
(files in a scratch directory, exactly as a user defines them, or exec() for bulk), then
Packet.unpack / Packet(**kw) / attribute assignment / Packet.pack are called and their results are
compared with the model.  Supporting oracles that do not use the model: pack(unpack(raw)) == raw,
repeated pack() is idempotent and leaves the fields as assigned, unpack(pack(values)) gives
values mod 2^w.

Histories (every part): pack of packet A fails part-way through a run (a non-integer or unset bit field at
        position j, A's other bit fields all-ones), then another packet of the same class (fresh, brand-new with
        defaults, obtained from unpack, existing before the failure, or A itself repaired) is packed and compared
        with the model of ITS OWN values; a failing pack must leave A's fields reading what was assigned.

Part A  all 128 compositions of 8 bits x 3 code-generation option sets x all 256 byte patterns
        (unpack, round trip, pack from the decoded values) + every field x every value class on pack.
Part T  (thorough) all 32768 compositions of 16 bits (exec, generation off) + a sample of them
        from source files with generation on + all 65536 patterns for a few compositions.
Part B  seeded sample of compositions of 16..64 (some 72..128) bits in five class shapes
        (alone, between other fields, between vectorisable Ints, two runs separated by a non-Bits field).
Part C  runs whose total is not a multiple of 8 (alone, embedded, one of two runs, the
        "split" case of the documentation) must be rejected with ByteBoundaryError.
Part D  the bit-run packets are reached through the other ways a packet object comes to be: nested as Ref(X),
        Ref(X(member values)), Ref(X).repeated(n[, default=[..]]), Ref(X).when(c[, default=..]), Ref(callable, default=X(..)),
        two levels deep, inside a container that is default-constructed / keyword-constructed / unpacked; and as
        copy.copy / copy.deepcopy / pickle round trip / as_prototype().clone() of built and of parsed packets (bit-run
        packets, containers, packets taken out of / put into a container; classes importable = picklable, function-local and
        exec-defined = the library clones live objects).  After each: every member reads its slice / assigned value, pack
        equals the arithmetic model of the packet's own values (modulo 2^w, MSB first), assignments after the copy are
        honoured, the source is not disturbed by operations on the copy and vice versa, siblings cloned from the same Ref
        prototype are independent.  A copy protocol that raises (pickle protocols 0/1 on the unchanged tree) is counted,
        not judged.
"""
import os
import sys
import time

from .. import common, render
from ..common import rng_for, b2j

LEVEL = "exploration"
SHARDS = {"quick": 1, "thorough": 16}
SHARD_TIMEOUT = {"quick": 300, "thorough": 900}
EXHAUSTIVE = {"quick": True, "thorough": True}
MIN_NONTRIVIAL = 50
REQUIRED = (
    "classes_defined", "classes_embedded", "classes_two_runs",
    "unpack_compared", "roundtrip_compared",
    "pack_compared", "pack_kw_compared", "pack_attr_compared", "pack_after_unpack_compared",
    "pack_out_of_range_compared", "pack_negative_compared", "pack_huge_compared",
    "repack_compared", "reparse_compared",
    "truncations_rejected", "nonint_packeterror",
    "bad_total_rejected", "bad_total_rejected_embedded",
    "failed_packs_observed", "own_fields_after_failed_pack_checked", "packs_after_failed_pack_compared",
    "packs_after_failed_pack_fresh", "packs_after_failed_pack_brand_new_defaults", "packs_after_failed_pack_unpacked",
    "packs_after_failed_pack_repaired", "packs_after_failed_pack_existing",
    "histories_solo", "histories_embedded", "histories_two_runs", "histories_failure_at_non_first_field",
    "histories_variant_g", "histories_variant_d", "histories_variant_nv",
    # part D: packets that come to be through nesting / copying
    "nest_families_defined", "nest_families_define_file", "nest_families_define_local", "nest_families_define_exec",
    "nest_families_instances_picklable", "nest_families_instances_not_picklable",
    "nested_default_checked", "nested_kw_checked", "nested_unpack_checked", "nested_then_assigned_compared",
    "nested_ref_class_packets_compared", "nested_ref_instance_packets_compared", "nested_repeated_packets_compared",
    "nested_optional_packets_compared", "nested_optional_absent_checked", "nested_callable_ref_packets_compared",
    "nested_two_levels_packets_compared", "nested_two_levels_instance_packets_compared",
    "copies_copy_compared", "copies_deepcopy_compared", "copies_pickle_compared", "copies_clone_compared",
    "copies_of_built_compared", "copies_of_parsed_compared", "copies_of_bit_run_packets_compared",
    "copies_of_nesting_packets_compared", "copies_of_a_nested_packet_compared", "copies_attached_to_container_compared",
    "copies_picklable_class_compared", "copies_live_object_path_compared",
    "copy_then_assign_compared", "original_after_ops_on_copy_compared", "copy_after_ops_on_original_compared",
    "sibling_after_ops_on_sibling_compared",
    "nest_checks_inner_variant_g", "nest_checks_inner_variant_d", "nest_checks_inner_variant_nv",
    "nest_checks_outer_variant_g", "nest_checks_outer_variant_d", "nest_checks_outer_variant_nv",
)
RULE = {
    "quick": "Part A (exhaustive): every composition of 8 bits (128) as a class of consecutive Bits fields under the three "
             "code-generation option sets, x all 256 byte patterns on unpack (+ pack of the parsed packet, + pack of a packet "
             "built from the decoded values by keywords/attributes), x every field x 19 value classes (in range, 2^w-1, 2^w, "
             "2^w+1, 2^64, 2^70, -1, -2^w, -2^70 ...) on pack over all-zero/all-one/random neighbours.  Part B: ~1500 seeded "
             "compositions of 16,24,32,40,48,56,64 (few 72..128) bits in shapes solo/emb (a=Int(1);run;z=Data(2))/vec (Ints "
             "around)/two/two_emb (two runs separated by a non-Bits field), option sets rotating; unpack of walking ones/zeros, "
             "per-field all-ones and complements, random patterns; pack as in A for sampled fields; every truncation inside a run; "
             "non-integer values; multi-packet histories (pack of A fails at bit field j holding a non-integer/unset, then fresh / "
             "brand-new / unpacked / pre-existing / repaired packets of the same class are packed and compared with the model "
             "of their own values; 7 templates incl. valid-fail-valid-valid interleavings) for positions j of every run.  Part C: ~1000 runs with total not a multiple of 8 (all compositions of 1..7 bits, samples of "
             "9..63 incl. totals = 4 mod 8; alone, embedded, first/second/both of two runs, split 9,4|Int|3) must raise "
             "ByteBoundaryError at class definition.  Part D: ~200 seeded families = one bit-run class X (every third an 8-bit "
             "composition rotating through all 128, the others 16..64 bits, all shapes, declared defaults) + X_O (f=Ref(X), "
             "g=Ref(X(values)), h=Ref(X).repeated(n or 2[, default]), o=Ref(X).when(tag == 1[, default]), c=Ref(callable, "
             "default=X(..))) + X_M/X_T (two levels), inner/outer option sets in all 9 pairs, defined in an importable module "
             "(instances picklable) / inside a function / through exec (not picklable: live-object clone path); per family ~23 "
             "histories: copy x {copy, deepcopy, pickle default/-1/2, as_prototype().clone()} of built/parsed/default bit-run "
             "packets and containers (copy of a copy, clone twice from one prototype, packet taken out of / attached into a "
             "container), containers default/keyword(partial, full)/unpacked, then assignments (19 value classes) on copy and "
             "source and a check of each against its own model.  One evaluation = one library call sequence compared with the model "
             "(one unpack, one pack scenario, one truncation, one definition, one part-D history).  Non-trivial: the run has >= 2 "
             "fields (a neighbour exists) or the case is a definition-time rejection or a part-D history; distinct = distinct "
             "(shape, widths, option set(s), operation kind / history template) tuples.",
    "thorough": "As quick, plus Part T (exhaustive, sharded by composition index): every composition of 16 bits (32768) defined "
                "through exec with generation off, each with walking/per-field/random unpack patterns, every field x 19 value "
                "classes on pack, truncations; every 8th embedded between other fields; a sample per shard from source files with "
                "generation on (default and vectorize=False); all 65536 patterns for a few compositions per shard.  Part B with "
                "~2000 compositions per shard, Part C with all compositions of totals 1..7 and 9..15 sharded plus samples, Part D with "
                "~400 families per shard (family index interleaved over shards) and the richer history set.  "
                "Non-trivial/distinct as in quick.",
}
ASSUMPTIONS = [
    "the arithmetic model (big-endian shared integer, first field most significant, v mod 2^w with a non-negative result) "
    "is the specification of C07",
    "a Python bool is an integer (True packs as 1); it is not used as a 'non-integer' value",
    "non-integer values (None, float, str, bytes, list, tuple, dict, complex) on pack: only judged that nothing but PacketError "
    "escapes and that no bytes are returned",
    "a pack that fails because a bit field is UNSET (slot deleted) is only required not to disturb later packs; which "
    "exception it raises, or whether it returns bytes, is counted and not judged",
    "truncated input inside a run is judged only as 'must raise PacketError' (which field/offset it names is C12's business)",
    "the non-Bits fields around a run (Int, Data of fixed size) always get valid in-range values; they are compared too, "
    "only to detect a run that reads/writes a wrong number of bytes",
    "part D: a copy protocol that raises for packets (pickle protocols 0 and 1 on the unchanged tree: slots without "
    "__getstate__) is counted and not judged; when the copy call returns, the copy is judged like any packet: it must read "
    "the values of its source at that moment and pack them per the model",
    "part D: copy.copy is shallow by Python's definition: on a shallow copy of a container only whole sub-packets are replaced, "
    "shared ones are never mutated, so the verdict does not depend on what is shared",
    "part D: containers follow the documented semantics that are not C07's subject: Ref(X) defaults to a clone of its prototype, "
    "repeated/when default to the declared default ([] / None if none), pack writes the list/packet held (count/when ignored on "
    "pack), unpack reads n elements and the optional part iff tag == 1",
    "classes are defined with the default class endianness except a small marked subset using {'endianness': 'little'} in shapes "
    "without multi-byte Ints: the statement fixes the run as big-endian unconditionally",
]
EXPLANATION = ("exhaustive sub-space: all 128 compositions of 8 bits x all 256 byte patterns x 3 option sets (quick and thorough); "
               "thorough additionally all 32768 compositions of 16 bits (with sampled, not all, 16-bit patterns except for a few "
               "compositions per shard). Everything wider is sampled.")

HEADER = "from bisturi.packet import Packet\nfrom bisturi.field import Bits, Int, Data\n\n"
OPTS = {
    "g": {"generate_for_pack": False, "generate_for_unpack": False},
    "d": {},
    "nv": {"vectorize": False},
}
VARIANTS = ("g", "d", "nv")
SHAPES = ("solo", "emb", "vec", "two", "two_emb")
NONINTS = [("None", None), ("float", 1.5), ("float_integral", 2.0), ("str", "1"), ("bytes", b"\x01"),
           ("list", [1]), ("tuple", (1,)), ("dict", {}), ("complex", 1j)]
MODES = ("kw", "attr", "after_unpack")
MAX_VIOL = 20
FILE_CHUNK = 8
ESSENTIAL_VALUES = ("max", "2^w", "-1", "-2^w", "2^70")


# =============================================================================================
# declarations
# =============================================================================================
class Decl:
    __slots__ = ("name", "shape", "runs", "variant", "defaults", "little", "segs", "src", "nbytes",
                 "names", "bits", "nonbits", "cls", "mode", "run_spans")

    def spec(self):
        return {"name": self.name, "shape": self.shape, "runs": [list(r) for r in self.runs], "variant": self.variant,
                "defaults": self.defaults, "little": self.little}

    def key(self):
        return "%s|%s|%s%s%s" % (self.shape, ";".join(",".join(str(w) for w in r) for r in self.runs), self.variant,
                                 "|dflt" if self.defaults else "", "|le" if self.little else "")

    def nfields(self):
        return sum(len(r) for r in self.runs)


def shape_layout(shape, nruns_given):
    """Sequence of ('int', name, n) / ('data', name, n) / ('run', index)."""
    if shape == "solo":
        return [("run", 0)]
    if shape == "emb":
        return [("int", "a", 1), ("run", 0), ("data", "z", 2)]
    if shape == "vec":
        return [("int", "a", 2), ("int", "a2", 1), ("run", 0), ("int", "y", 4), ("int", "z", 1)]
    if shape == "two":
        return [("run", 0), ("int", "m", 2), ("run", 1)]
    if shape == "two_emb":
        return [("int", "a", 1), ("run", 0), ("data", "m", 1), ("run", 1), ("int", "z", 1)]
    raise ValueError(shape)


def nruns_of(shape):
    return 2 if shape in ("two", "two_emb") else 1


def build_decl(name, shape, runs, variant, defaults=None, little=False):
    """defaults: None or list (per run) of lists of default values (None = no default given)."""
    d = Decl()
    d.name, d.shape, d.runs, d.variant = name, shape, [list(r) for r in runs], variant
    d.defaults, d.little = defaults, bool(little)
    d.cls, d.mode = None, None
    opts = dict(OPTS[variant])
    if little:
        opts["endianness"] = "little"
    lines = ["class %s(Packet):" % name]
    if opts or variant != "d":
        lines.append("    __bisturi__ = %r" % (opts,))
    segs, names, bits, nonbits, spans = [], [], {}, [], []
    off = 0
    prefix = "bc"
    for item in shape_layout(shape, len(runs)):
        if item[0] == "int":
            lines.append("    %s = Int(%d)" % (item[1], item[2]))
            segs.append(item)
            names.append(item[1])
            nonbits.append(item)
            off += item[2]
        elif item[0] == "data":
            lines.append("    %s = Data(%d)" % (item[1], item[2]))
            segs.append(item)
            names.append(item[1])
            nonbits.append(item)
            off += item[2]
        else:
            r = item[1]
            widths = d.runs[r]
            total = sum(widths)
            members = []
            shift = total
            for i, w in enumerate(widths):
                shift -= w
                fname = "%s%d" % (prefix[r], i)
                dv = None
                if defaults is not None and defaults[r] is not None:
                    dv = defaults[r][i]
                if dv is None:
                    lines.append("    %s = Bits(%d)" % (fname, w))
                else:
                    lines.append("    %s = Bits(%d, default=%d)" % (fname, w, dv))
                members.append((fname, w, shift))
                names.append(fname)
                bits[fname] = (w, shift, r, 0 if dv is None else dv)
            nb = total // 8       # only meaningful when total % 8 == 0
            segs.append(("run", members, nb, off))
            spans.append((off, nb))
            off += nb
    d.segs, d.names, d.bits, d.nonbits, d.nbytes, d.run_spans = segs, names, bits, nonbits, off, spans
    d.src = "\n".join(lines) + "\n"
    return d


def decl_from_spec(s):
    return build_decl(s["name"], s["shape"], s["runs"], s["variant"], s.get("defaults"), s.get("little", False))


# =============================================================================================
# the model (specification) - independent arithmetic
# =============================================================================================
def model_encode(d, values):
    out = bytearray()
    for seg in d.segs:
        if seg[0] == "int":
            out += int(values[seg[1]]).to_bytes(seg[2], "big")
        elif seg[0] == "data":
            out += values[seg[1]]
        else:
            acc = 0
            for fname, w, shift in seg[1]:
                acc += (values[fname] % (1 << w)) << shift      # python %: result in [0, 2^w)
            out += acc.to_bytes(seg[2], "big")
    return bytes(out)


def model_decode(d, raw):
    vals = {}
    off = 0
    for seg in d.segs:
        if seg[0] == "int":
            vals[seg[1]] = int.from_bytes(raw[off:off + seg[2]], "big")
            off += seg[2]
        elif seg[0] == "data":
            vals[seg[1]] = bytes(raw[off:off + seg[2]])
            off += seg[2]
        else:
            acc = int.from_bytes(raw[off:off + seg[2]], "big")
            for fname, w, shift in seg[1]:
                vals[fname] = (acc >> shift) & ((1 << w) - 1)
            off += seg[2]
    return vals


def reduced(d, name, v):
    b = d.bits.get(name)
    if b is None:
        return v
    return v % (1 << b[0])


def default_values(d):
    """Values of a packet built without keywords, for the Bits fields only."""
    return {n: b[3] for n, b in d.bits.items()}


# =============================================================================================
# running the real library
# =============================================================================================
class Ctx:
    def __init__(self, run):
        import bisturi.packet as bp
        import bisturi.field as bf
        self.run = run
        self.PacketError = bp.PacketError
        self.ByteBoundaryError = bf.Bits.ByteBoundaryError
        self.scratch = None
        self.sampled = {}
        self.covered = set()
        self.anchors = Anchors()      # not started: pause/resume are no-ops until run() starts it
        self.t0 = time.time()

    def stop(self):
        return self.run.counters["violations"] > MAX_VIOL

    def lib_unpack(self, cls, raw):
        try:
            return "ok", cls.unpack(raw)
        except self.PacketError as e:
            return "packeterror", e
        except RecursionError:
            raise
        except Exception as e:
            return "exception", e

    def lib_pack(self, pkt):
        try:
            return "ok", pkt.pack()
        except self.PacketError as e:
            return "packeterror", e
        except RecursionError:
            raise
        except Exception as e:
            return "exception", e

    def witness(self, d, op, **more):
        w = {"decl": d.spec(), "source": HEADER + d.src, "define_mode": d.mode, "op": op}
        w.update(more)
        return w

    def sample(self, kind, d, op, **more):
        if self.sampled.get(kind, 0) < 1 and len(self.run.samples) < 6:
            self.sampled[kind] = 1
            self.run.sample(self.witness(d, op, **more))


def err_text(e):
    s = getattr(e, "original_error_message", None)
    if s is None:
        s = str(e)
    return "%s: %s" % (type(e).__name__, str(s)[:160])


def define_exec(ctx, src):
    """exec() in a namespace without __name__ (bisturi's interactive path); cwd is the scratch
    directory so a generated-code cache lands there."""
    ns = {}
    old = os.getcwd()
    os.chdir(ctx.scratch)
    try:
        exec(HEADER + src, ns)
    finally:
        os.chdir(old)
    return ns


def define_file(ctx, src):
    module, path = render.load_source(HEADER + src, ctx.scratch)
    return module


def forget_module(module):
    name = module.__name__
    sys.modules.pop(name, None)
    for k in [k for k in sys.modules if k.startswith(name + "_")]:
        sys.modules.pop(k, None)


def define_batch(ctx, decls, mode):
    """Define valid declarations. mode 'file': one source file for the batch (fallback: one file per
    class to isolate a failing definition); mode 'exec': one exec per class. Returns the list of
    decls that got a class; a definition that raises is a violation (the property covers class
    definition: a run whose total IS a multiple of 8 must be accepted)."""
    run = ctx.run
    ok = []

    def failed(d, e):
        run.case(key="define|" + d.key(), nontrivial=True)
        what = "class with a bit run whose total width is a multiple of 8 could not be defined"
        if isinstance(e, ctx.ByteBoundaryError):
            what = "bit run whose total width is a multiple of 8 was rejected with ByteBoundaryError"
        run.violation(what, ctx.witness(d, {"kind": "define"}, raised=err_text(e)))

    if mode == "file" and len(decls) > FILE_CHUNK:
        # bisturi re-reads the defining file for every class: keep the files small
        for i in range(0, len(decls), FILE_CHUNK):
            ok.extend(define_batch(ctx, decls[i:i + FILE_CHUNK], mode))
        return ok
    if mode == "file":
        module = None
        try:
            module = define_file(ctx, "\n".join(d.src for d in decls))
        except RecursionError:
            raise
        except Exception:
            module = None
        if module is not None:
            for d in decls:
                d.cls, d.mode = getattr(module, d.name), "file"
                ok.append(d)
            forget_module(module)
        else:
            for d in decls:
                try:
                    m = define_file(ctx, d.src)
                except RecursionError:
                    raise
                except Exception as e:
                    d.mode = "file"
                    failed(d, e)
                    continue
                d.cls, d.mode = getattr(m, d.name), "file"
                forget_module(m)
                ok.append(d)
    else:
        for d in decls:
            d.mode = "exec"
            try:
                ns = define_exec(ctx, d.src)
            except RecursionError:
                raise
            except Exception as e:
                failed(d, e)
                continue
            d.cls = ns[d.name]
            ok.append(d)
    for d in ok:
        run.count("classes_defined")
        run.count("classes_defined_%s" % d.mode)
        run.count("classes_variant_%s" % d.variant)
        if d.shape != "solo":
            run.count("classes_embedded")
        if len(d.runs) == 2:
            run.count("classes_two_runs")
        if d.little:
            run.count("classes_little_endian_option")
        if d.defaults:
            run.count("classes_with_declared_defaults")
        run.cover("shapes", d.shape)
        run.cover("option_sets", d.variant)
        for r in d.runs:
            run.cover("run_total_bits", "%03d" % sum(r))
            run.cover("run_field_counts", "%02d" % len(r))
            for w in r:
                run.cover("widths", "%03d" % w)
    return ok


# ---------------------------------------------------------------------------------------------
# operations; every one is (ctx, decl, op-dict) so that replay() re-executes exactly the op
# ---------------------------------------------------------------------------------------------
def op_unpack(ctx, d, op, roundtrip=True):
    """valid input of exactly the class size: every field must hold its own slice; then pack of
    the parsed packet must reproduce the input."""
    run = ctx.run
    raw = op["raw"]
    st, pkt = ctx.lib_unpack(d.cls, raw)
    if st != "ok":
        run.violation("unpack of a valid input (exactly the declared number of bytes) raised",
                      ctx.witness(d, op, raised=err_text(pkt), status=st))
        return False
    want = model_decode(d, raw)
    bad = []
    for n in d.names:
        try:
            got = getattr(pkt, n)
        except AttributeError:
            got = "<unset>"
        if got != want[n]:
            bad.append({"field": n, "want": want[n], "got": got,
                        "slice": None if n not in d.bits else {"width": d.bits[n][0], "shift": d.bits[n][1]}})
    if bad:
        run.violation("unpack: a bit field does not hold exactly its own bit slice of the big-endian integer",
                      ctx.witness(d, op, mismatches=bad[:8], want=want))
        return False
    run.count("unpack_compared")
    run.count("unpack_fields_compared", len(d.names))
    if roundtrip:
        st, out = ctx.lib_pack(pkt)
        if st != "ok":
            run.violation("pack of a just-parsed packet raised", ctx.witness(d, op, raised=err_text(out), status=st))
            return False
        if out != raw:
            run.violation("unpack then pack does not reproduce the parsed bytes",
                          ctx.witness(d, op, got=b2j(out), want=b2j(raw)))
            return False
        run.count("roundtrip_compared")
    return True


def value_class(d, name, v):
    b = d.bits.get(name)
    if b is None:
        return None
    w = b[0]
    if v < 0:
        return "negative"
    if v >= (1 << 64):
        return "huge" if v >= (1 << w) else "in_range"
    if v >= (1 << w):
        return "out_of_range"
    return "in_range"


def op_pack(ctx, d, op, light=False):
    """Build a packet (keywords / attribute assignment / parse then assign), pack it, compare with
    the model; pack again (same bytes, fields untouched); parse the bytes back (v mod 2^w)."""
    run = ctx.run
    mode = op["mode"]
    vals = op["values"]
    cls = d.cls
    try:
        if mode == "kw":
            pkt = cls(**vals)
            full = default_values(d)
            full.update(vals)
        elif mode == "attr":
            pkt = cls()
            for n, v in vals.items():
                setattr(pkt, n, v)
            full = default_values(d)
            full.update(vals)
        elif mode == "after_unpack":
            pkt = cls.unpack(op["raw0"])
            for n, v in vals.items():
                setattr(pkt, n, v)
            full = model_decode(d, op["raw0"])
            full.update(vals)
        else:
            raise ValueError(mode)
    except RecursionError:
        raise
    except Exception as e:
        run.violation("building the packet (%s) raised" % mode, ctx.witness(d, op, raised=err_text(e)))
        return False
    want = model_encode(d, full)
    st, got = ctx.lib_pack(pkt)
    classes = set()
    for n, v in vals.items():
        c = value_class(d, n, v)
        if c:
            classes.add(c)
    if st != "ok":
        run.violation("pack of integer values raised instead of writing each value modulo 2^width",
                      ctx.witness(d, op, raised=err_text(got), status=st, want=b2j(want), values=full))
        return False
    if got != want:
        diag = []
        if isinstance(got, bytes) and len(got) == len(want):
            dec = model_decode(d, got)
            for n in d.names:
                exp = reduced(d, n, full[n])
                if dec[n] != exp:
                    diag.append({"field": n, "assigned": full[n], "want_bits": exp, "got_bits": dec[n]})
        oor = [n for n in d.bits if not (0 <= full[n] < (1 << d.bits[n][0]))]
        what = "pack: bytes differ from sum((v mod 2^w) << shift) as a big-endian integer"
        if oor and any(x["field"] not in oor for x in diag):
            what = "pack: an out-of-range/negative value of one bit field altered the bits of another field"
        run.violation(what, ctx.witness(d, op, got=b2j(got), want=b2j(want), values=full,
                                        damaged_fields=diag[:8], out_of_range_fields=oor[:8]))
        return False
    run.count("pack_compared")
    run.count("pack_%s_compared" % mode)
    for c in classes:
        run.count("pack_%s_compared" % c)
        if c not in ctx.covered:
            ctx.covered.add(c)
            run.cover("value_classes", c)
    if light:
        return True
    # -- repeated pack: same bytes, fields as assigned --------------------------------------
    st, again = ctx.lib_pack(pkt)
    if st != "ok" or again != got:
        run.violation("a second pack() of the same packet did not return the same bytes",
                      ctx.witness(d, op, first=b2j(got), second=(b2j(again) if st == "ok" else err_text(again))))
        return False
    changed = []
    for n in d.names:
        now = getattr(pkt, n, "<unset>")
        if now != full[n] or type(now) is not type(full[n]):
            changed.append({"field": n, "assigned": full[n], "after_pack": now})
    if changed:
        run.violation("pack() changed the value of a field of the packet",
                      ctx.witness(d, op, changed=changed[:8], values=full))
        return False
    run.count("repack_compared")
    # -- parse back (supporting, model-free except the mod) -------------------------------------
    st, back = ctx.lib_unpack(cls, got)
    if st != "ok":
        run.violation("bytes produced by pack() could not be parsed back", ctx.witness(d, op, raised=err_text(back), got=b2j(got)))
        return False
    wrong = []
    for n in d.names:
        exp = reduced(d, n, full[n])
        if getattr(back, n, "<unset>") != exp:
            wrong.append({"field": n, "assigned": full[n], "want": exp, "got": getattr(back, n, "<unset>")})
    if wrong:
        run.violation("pack then unpack does not give each value modulo 2^width", ctx.witness(d, op, wrong=wrong[:8], packed=b2j(got)))
        return False
    run.count("reparse_compared")
    return True


def op_truncated(ctx, d, op):
    """input that ends inside a bit run: must raise PacketError."""
    run = ctx.run
    st, res = ctx.lib_unpack(d.cls, op["raw"])
    if st == "packeterror":
        run.count("truncations_rejected")
        return True
    if st == "ok":
        got = {}
        for n in d.names:
            got[n] = getattr(res, n, "<unset>")
        run.violation("input shorter than the bit run was parsed (no PacketError)",
                      ctx.witness(d, op, parsed=got, needed=d.nbytes, given=len(op["raw"])))
    else:
        run.violation("input shorter than the bit run raised something other than PacketError",
                      ctx.witness(d, op, raised=err_text(res)))
    return False


def op_nonint(ctx, d, op):
    """a non-integer value in a bit field: pack may only fail with PacketError, never return bytes."""
    run = ctx.run
    label, bad = NONINTS[op["nonint_index"]]
    vals = dict(op["values"])
    vals[op["field"]] = bad
    try:
        if op["mode"] == "kw":
            pkt = d.cls(**vals)
        else:
            pkt = d.cls()
            for n, v in vals.items():
                setattr(pkt, n, v)
    except RecursionError:
        raise
    except Exception:
        run.count("nonint_rejected_at_construction")   # not fixed by the statement: counted only
        return True
    st, res = ctx.lib_pack(pkt)
    run.cover("nonint_kinds", label)
    if st == "packeterror":
        run.count("nonint_packeterror")
        return True
    if st == "ok":
        run.violation("pack returned bytes although a bit field holds a non-integer value",
                      ctx.witness(d, op, bad_value=repr(bad), got=b2j(res) if isinstance(res, bytes) else repr(res)))
    else:
        run.violation("non-integer value in a bit field: an exception other than PacketError escaped pack()",
                      ctx.witness(d, op, bad_value=repr(bad), raised=err_text(res)))
    return False


def op_define_bad(ctx, d, op):
    """total width of (at least) one run is not a multiple of 8: class definition must raise
    Bits.ByteBoundaryError."""
    run = ctx.run
    mode = op.get("define_mode", "exec")
    d.mode = mode
    try:
        if mode == "file":
            m = define_file(ctx, d.src)
            forget_module(m)
        else:
            define_exec(ctx, d.src)
    except ctx.ByteBoundaryError:
        run.count("bad_total_rejected")
        if d.shape != "solo":
            run.count("bad_total_rejected_embedded")
        if len(d.runs) == 2:
            run.count("bad_total_rejected_two_runs")
        run.count("bad_total_rejected_%s" % mode)
        return True
    except RecursionError:
        raise
    except Exception as e:
        run.violation("bit run with a total width that is not a multiple of 8: class definition raised something "
                      "other than Bits.ByteBoundaryError", ctx.witness(d, op, raised=err_text(e), totals=[sum(r) for r in d.runs]))
        return False
    run.violation("bit run with a total width that is not a multiple of 8 was accepted at class definition",
                  ctx.witness(d, op, totals=[sum(r) for r in d.runs]))
    return False


class _Unset:
    def __repr__(self):
        return "<unset>"


UNSET = _Unset()


def _hval(v):
    """value of a history step: an integer / bytes, or {'nonint': index into NONINTS}."""
    if isinstance(v, dict) and "nonint" in v:
        return NONINTS[v["nonint"]][1]
    return v


def op_history(ctx, d, op):
    """A history over one or more packets of the same class:
        make (keywords / attributes / unpack), set, unset, pack expecting success, pack expecting failure.
    Every successful pack is compared with the arithmetic model of THAT packet's own values - whatever
    happened to other packets (or to this one) before, in particular a pack that failed part-way through
    a run.  A failing pack must leave the packet's own fields reading what was assigned."""
    run = ctx.run
    cls = d.cls
    pk, mv = {}, {}
    fails = 0            # failed packs so far in this history
    trace = []
    for si, st in enumerate(op["steps"]):
        do = st["do"]
        pid = st["id"]
        if do == "make":
            try:
                if st["mode"] == "unpack":
                    pk[pid] = cls.unpack(st["raw"])
                    mv[pid] = model_decode(d, st["raw"])
                else:
                    vals = {n: _hval(v) for n, v in st["values"].items()}
                    if st["mode"] == "kw":
                        pk[pid] = cls(**vals)
                    else:
                        pk[pid] = cls()
                        for n, v in vals.items():
                            setattr(pk[pid], n, v)
                    mv[pid] = default_values(d)
                    mv[pid].update(vals)
            except RecursionError:
                raise
            except Exception as e:
                what = "building a packet raised"
                if fails:
                    what = "building/parsing a packet raised after a failed pack of another packet of the same class"
                run.violation(what, ctx.witness(d, op, step=si, raised=err_text(e), trace=trace))
                return False
            trace.append("%d make %s" % (si, pid))
        elif do == "set":
            v = _hval(st["value"])
            setattr(pk[pid], st["field"], v)
            mv[pid][st["field"]] = v
            trace.append("%d set %s.%s" % (si, pid, st["field"]))
        elif do == "unset":
            try:
                delattr(pk[pid], st["field"])
            except AttributeError:
                pass
            mv[pid][st["field"]] = UNSET
            trace.append("%d unset %s.%s" % (si, pid, st["field"]))
        elif do == "pack" and st["expect"] == "fail":
            status, res = ctx.lib_pack(pk[pid])
            has_unset = any(v is UNSET for v in mv[pid].values())
            trace.append("%d pack %s -> %s" % (si, pid, status))
            if status == "ok":
                if has_unset:
                    run.count("pack_with_unset_field_returned_bytes")      # not fixed by the statement
                else:
                    run.violation("pack returned bytes although a bit field holds a non-integer value",
                                  ctx.witness(d, op, step=si, got=b2j(res) if isinstance(res, bytes) else repr(res), trace=trace))
                    return False
            elif status == "exception" and not has_unset:
                run.violation("non-integer value in a bit field: an exception other than PacketError escaped pack()",
                              ctx.witness(d, op, step=si, raised=err_text(res), trace=trace))
                return False
            else:
                fails += 1
                run.count("failed_packs_observed")
                if status == "exception":
                    run.count("failed_packs_unset_field_other_exception")  # unset slot: which exception is not judged here
            # the failing pack must not change what the packet's own fields read
            changed = []
            for n in d.names:
                want = mv[pid][n]
                if want is UNSET:
                    continue
                now = getattr(pk[pid], n, UNSET)
                if now is UNSET or type(now) is not type(want) or now != want:
                    changed.append({"field": n, "assigned": repr(want), "after_failed_pack": repr(now)})
            if changed:
                run.violation("a failing pack() changed the value of a field of the packet",
                              ctx.witness(d, op, step=si, changed=changed[:8], trace=trace))
                return False
            run.count("own_fields_after_failed_pack_checked")
        elif do == "pack":
            want = model_encode(d, mv[pid])
            status, got = ctx.lib_pack(pk[pid])
            trace.append("%d pack %s -> %s" % (si, pid, status))
            if status != "ok":
                what = "pack of integer values raised"
                if fails:
                    what = "pack of integer values raised after an earlier failed pack (of this or another packet of the same class)"
                run.violation(what, ctx.witness(d, op, step=si, raised=err_text(got), want=b2j(want), trace=trace))
                return False
            if got != want:
                diag = []
                if isinstance(got, bytes) and len(got) == len(want):
                    dec = model_decode(d, got)
                    for n in d.names:
                        exp = reduced(d, n, mv[pid][n])
                        if dec[n] != exp:
                            diag.append({"field": n, "assigned": mv[pid][n], "want_bits": exp, "got_bits": dec[n]})
                what = "pack: bytes differ from sum((v mod 2^w) << shift) as a big-endian integer"
                if fails:
                    what = ("pack after a failed pack: bytes differ from the model of the packet's own values "
                            "(bits left over from the failed pack of a packet altered the fields of this one)")
                run.violation(what, ctx.witness(d, op, step=si, packet=pid, got=b2j(got), want=b2j(want),
                                                values=mv[pid], damaged_fields=diag[:8], trace=trace))
                return False
            run.count("history_packs_compared")
            if fails:
                run.count("packs_after_failed_pack_compared")
                run.count("packs_after_failed_pack_%s" % st.get("role", "other"))
            # own fields unchanged by the successful pack too
            for n in d.names:
                now = getattr(pk[pid], n, UNSET)
                if now is UNSET or now != mv[pid][n]:
                    run.violation("pack() changed the value of a field of the packet",
                                  ctx.witness(d, op, step=si, field=n, assigned=mv[pid][n], after_pack=repr(now), trace=trace))
                    return False
        else:
            raise ValueError(st)
    run.count("histories_run")
    return True


OPS = {"unpack": op_unpack, "pack": op_pack, "truncated": op_truncated, "nonint": op_nonint, "define_bad": op_define_bad,
       "history": op_history}


# =============================================================================================
# case generation
# =============================================================================================
def composition_from_mask(total, mask):
    """bit j of mask set <=> a field boundary after bit j+1 (from the most significant side)."""
    out = []
    cur = 0
    for j in range(total - 1):
        cur += 1
        if (mask >> j) & 1:
            out.append(cur)
            cur = 0
    out.append(cur + 1)
    return out


def random_composition(rng, total):
    style = rng.random()
    if total == 1:
        return [1]
    if style < 0.22:
        p = 0.5
    elif style < 0.50:
        p = rng.choice([0.08, 0.12, 0.2])
    elif style < 0.58:
        p = rng.choice([0.75, 0.9])
    elif style < 0.85:
        k = rng.randint(2, min(5, total))
        cuts = sorted(rng.sample(range(1, total), k - 1))
        return [b - a for a, b in zip([0] + cuts, cuts + [total])]
    else:
        # boundaries hugging byte boundaries: widths 7/9/1 ...
        out = []
        left = total
        while left > 0:
            w = rng.choice([1, 7, 9, 15, 17, 3, 5, 31, 33, 8, 16])
            w = min(w, left)
            out.append(w)
            left -= w
        return out
    mask = 0
    for j in range(total - 1):
        if rng.random() < p:
            mask |= 1 << j
    return composition_from_mask(total, mask)


def field_values(rng, w):
    """(label, value) list for a field of width w: in range, boundary, out of range, negative, huge."""
    full = (1 << w) - 1
    return [
        ("zero", 0), ("one", 1), ("max", full), ("msb", 1 << (w - 1)), ("rand", rng.getrandbits(w)),
        ("2^w", 1 << w), ("2^w+1", (1 << w) + 1), ("2^(w+1)-1", (1 << (w + 1)) - 1), ("2^w+rand", (1 << w) + rng.getrandbits(w)),
        ("rand<<w", (rng.getrandbits(9) | 1) << w),
        ("2^64", 1 << 64), ("2^70", 1 << 70), ("2^70+rand", (1 << 70) + rng.getrandbits(64)), ("2^200-1", (1 << 200) - 1),
        ("-1", -1), ("-2^w", -(1 << w)), ("-2^w-1", -(1 << w) - 1), ("-2^(w-1)", -(1 << (w - 1))),
        ("-2^70", -(1 << 70)), ("-rand", -rng.getrandbits(w + 3) - 1),
    ]


def nonbits_values(rng, d):
    vals = {}
    for kind, name, n in d.nonbits:
        if kind == "int":
            vals[name] = rng.getrandbits(8 * n)
        else:
            vals[name] = bytes(rng.getrandbits(8) for _ in range(n))
    return vals


def neighbours(rng, d, style):
    vals = {}
    for n, (w, shift, r, dv) in d.bits.items():
        if style == "zeros":
            vals[n] = 0
        elif style == "ones":
            vals[n] = (1 << w) - 1
        else:
            vals[n] = rng.getrandbits(w)
    return vals


def run_int_patterns(rng, members, nbytes, tier_random, walking_zeros="all"):
    """integers for one run: zeros, ones, alternating, walking ones (every bit), walking zeros (every bit, or
    only the two bits at each field boundary), per-field all-ones and complement, random."""
    total = nbytes * 8
    ones = (1 << total) - 1
    pats = [0, ones, int.from_bytes(b"\xaa" * nbytes, "big"), int.from_bytes(b"\x55" * nbytes, "big")]
    for j in range(total):
        pats.append(1 << j)
    if walking_zeros == "all":
        for j in range(total):
            pats.append(ones ^ (1 << j))
    else:
        for fname, w, shift in members:
            pats.append(ones ^ (1 << shift))
            if w > 1:
                pats.append(ones ^ (1 << (shift + w - 1)))
    for fname, w, shift in members:
        m = ((1 << w) - 1) << shift
        pats.append(m)
        pats.append(ones ^ m)
    for _ in range(tier_random):
        pats.append(rng.getrandbits(total))
    return pats


def raw_with_runs(rng, d, run_ints):
    """Full class input: given integers for the runs, random bytes for the other fields."""
    out = bytearray()
    ri = 0
    for seg in d.segs:
        if seg[0] == "run":
            out += run_ints[ri].to_bytes(seg[2], "big")
            ri += 1
        else:
            out += bytes(rng.getrandbits(8) for _ in range(seg[2]))
    return bytes(out)


def nontrivial(d):
    return any(len(r) >= 2 for r in d.runs)


def exercise(ctx, rng, d, unpack_random=8, max_fields=6, all_patterns=False, exhaustive_values=False, nonint_n=1,
             walking_zeros="all", roundtrip_every=1, full_every=1, value_subset=None, hist_positions=4, hist_templates=1):
    """All operation kinds on one defined class. Returns number of evaluations."""
    run = ctx.run
    nt = nontrivial(d)
    key = d.key()
    run_segs = [s for s in d.segs if s[0] == "run"]

    # ---- unpack -----------------------------------------------------------------------------
    n = 0
    if all_patterns:
        seg = run_segs[0]
        total = seg[2] * 8
        for I in range(1 << total):
            op = {"kind": "unpack", "raw": raw_with_runs(rng, d, [I] + [rng.getrandbits(s[2] * 8) for s in run_segs[1:]])}
            ok = op_unpack(ctx, d, op)
            n += 1
            if ok and I == 0xA5 % (1 << total):
                ctx.sample("unpack", d, op, want=model_decode(d, op["raw"]))
            if not ok and ctx.stop():
                break
            if all_patterns == "with_pack":
                # pack of a packet built from the decoded values: every in-range tuple of the run
                vals = model_decode(d, op["raw"])
                pop = {"kind": "pack", "mode": "kw" if I & 1 else "attr", "values": vals}
                okp = op_pack(ctx, d, pop, light=bool(I % 16))
                n += 1
                if not okp and ctx.stop():
                    break
    else:
        for ri, seg in enumerate(run_segs):
            for pi, I in enumerate(run_int_patterns(rng, seg[1], seg[2], unpack_random, walking_zeros)):
                ints = [rng.getrandbits(s[2] * 8) for s in run_segs]
                ints[ri] = I
                op = {"kind": "unpack", "raw": raw_with_runs(rng, d, ints)}
                ok = op_unpack(ctx, d, op, roundtrip=(pi % roundtrip_every == 0))
                n += 1
                if not ok and ctx.stop():
                    break
        ctx.sample("unpack_wide", d, op, want=model_decode(d, op["raw"]))
    run.case(key="unpack|" + key, nontrivial=nt, n=n)
    if ctx.stop():
        return

    # ---- pack: per-field values over zero / one / random neighbours ----------------------------
    names = list(d.bits)
    if len(names) > max_fields:
        # one field at an edge of a run (most/least significant), the others anywhere
        edges = []
        for seg in run_segs:
            edges.append(seg[1][0][0])
            edges.append(seg[1][-1][0])
        pick = {rng.choice(edges)}
        while len(pick) < max_fields:
            pick.add(rng.choice(names))
        chosen = [x for x in names if x in pick]
    else:
        chosen = names
    counts = {"in": 0, "oor": 0}
    styles = ("zeros", "ones", "random")
    si = rng.randrange(3)
    for fname in chosen:
        w = d.bits[fname][0]
        fvals = field_values(rng, w)
        if value_subset:
            # the five essential ones (max, 2^w, -1, -2^w, 2^70) + a random subset of the others
            rest = [x for x in fvals if x[0] not in ESSENTIAL_VALUES]
            fvals = [x for x in fvals if x[0] in ESSENTIAL_VALUES] + rng.sample(rest, value_subset - len(ESSENTIAL_VALUES))
        for label, v in fvals:
            for rep in range(3 if exhaustive_values else 1):
                style = styles[si % 3]
                si += 1
                vals = neighbours(rng, d, style)
                vals[fname] = v
                mode = MODES[(si // 3 + si) % 3] if not exhaustive_values else MODES[rep]
                op = {"kind": "pack", "mode": mode, "target": fname, "value_label": label, "neighbours": style}
                if mode == "after_unpack":
                    # parse arbitrary bytes first (the shared integer then holds foreign bits), assign every bit field of
                    # the target's run... or only the target: the other fields keep their parsed values
                    raw0 = raw_with_runs(rng, d, [rng.getrandbits(s[2] * 8) for s in run_segs])
                    op["raw0"] = raw0
                    if si % 2:
                        vals = {fname: v}
                else:
                    vals.update(nonbits_values(rng, d))
                    if si % 5 == 0 and mode == "kw":
                        # leave some bit fields to their defaults
                        for other in names:
                            if other != fname and rng.random() < 0.5:
                                del vals[other]
                op["values"] = vals
                ok = op_pack(ctx, d, op, light=bool(si % full_every))
                if label not in ctx.covered:
                    ctx.covered.add(label)
                    run.cover("value_labels", label)
                if 0 <= v < (1 << w):
                    counts["in"] += 1
                else:
                    counts["oor"] += 1
                    if ok:
                        ctx.sample("pack_oor", d, op, want=b2j(model_encode(d, _full_values(d, op))))
                if not ok and ctx.stop():
                    return
    run.case(key="pack_in_range|" + key, nontrivial=nt, n=counts["in"])
    run.case(key="pack_out_of_range|" + key, nontrivial=nt, n=counts["oor"])

    # ---- pack: every field out of range at once -----------------------------------------------------
    n = 0
    for rep in range(3):
        vals = {}
        for fname, (w, shift, r, dv) in d.bits.items():
            k = rng.choice([-3, -2, -1, 1, 2, 1 << 40, -(1 << 66)])
            vals[fname] = rng.getrandbits(w) + k * (1 << w)
        vals.update(nonbits_values(rng, d))
        op = {"kind": "pack", "mode": ("kw", "attr")[rep % 2], "values": vals, "value_label": "all_out_of_range"}
        ok = op_pack(ctx, d, op)
        n += 1
        if not ok and ctx.stop():
            return
    # defaults only: a packet built without bit keywords packs its declared defaults
    vals = nonbits_values(rng, d)
    op = {"kind": "pack", "mode": "kw", "values": vals, "value_label": "defaults_only"}
    op_pack(ctx, d, op)
    run.count("pack_defaults_only")
    n += 1
    run.case(key="pack_all_fields|" + key, nontrivial=nt, n=n)

    # ---- truncation inside each run ------------------------------------------------------------------
    n = 0
    full_raw = raw_with_runs(rng, d, [rng.getrandbits(s[2] * 8) for s in run_segs])
    for off, nb in d.run_spans:
        for cut in range(off, off + nb):
            op = {"kind": "truncated", "raw": full_raw[:cut], "cut": cut}
            ok = op_truncated(ctx, d, op)
            n += 1
            if not ok and ctx.stop():
                return
    run.case(key="truncated|" + key, nontrivial=nt, n=n)

    # ---- non-integer values --------------------------------------------------------------------------
    n = 0
    for _ in range(nonint_n):
        fname = rng.choice(names)
        vals = neighbours(rng, d, "random")
        vals.update(nonbits_values(rng, d))
        op = {"kind": "nonint", "mode": rng.choice(["kw", "attr"]), "field": fname, "values": vals,
              "nonint_index": rng.randrange(len(NONINTS))}
        op_nonint(ctx, d, op)
        n += 1
    run.case(key="nonint|" + key, nontrivial=nt, n=n)
    if ctx.stop():
        return

    # ---- histories: a failed pack of one packet, then packs of other packets of the class -----------
    n = run_histories(ctx, rng, d, hist_positions, hist_templates)
    run.case(key="history_failed_pack|" + key, nontrivial=nt, n=n)


HISTORY_TEMPLATES = ("fresh_kw", "fresh_default", "from_unpack", "repair", "interleave", "existing", "two_failures")


def make_history(rng, d, target, template, bad):
    """Steps of one history. `target` = name of the bit field that holds the bad value in packet A; A's other bit
    fields are all-ones (so anything left behind by the failed pack is visible), B's values are zero/small.
    bad = {'nonint': i} or 'unset'."""
    run_segs = [s for s in d.segs if s[0] == "run"]

    def small_bits():
        style = rng.randrange(3)
        out = {}
        for n, (w, shift, r, dv) in d.bits.items():
            out[n] = 0 if style == 0 else (rng.getrandbits(1) if style == 1 else rng.getrandbits(w) & rng.getrandbits(w))
        return out

    def a_values(with_bad):
        vals = neighbours(rng, d, "ones")
        vals.update(nonbits_values(rng, d))
        if with_bad and bad != "unset":
            vals[target] = bad
        return vals

    def make_a(pid="A"):
        steps = [{"do": "make", "id": pid, "mode": rng.choice(["kw", "attr"]), "values": a_values(True)}]
        if bad == "unset":
            steps.append({"do": "unset", "id": pid, "field": target})
        return steps

    def b_fresh(pid="B", mode=None):
        vals = small_bits()
        vals.update(nonbits_values(rng, d))
        return [{"do": "make", "id": pid, "mode": mode or rng.choice(["kw", "attr"]), "values": vals}]

    def b_default(pid="B"):
        # brand-new packet: only the non-Bits fields are given, the bit fields keep their (declared) defaults
        return [{"do": "make", "id": pid, "mode": rng.choice(["kw", "attr"]), "values": nonbits_values(rng, d)}]

    def b_unpacked(pid="B"):
        ints = []
        for sgm in run_segs:
            total = sgm[2] * 8
            ints.append(rng.choice([0, 1, rng.getrandbits(total) & rng.getrandbits(total)]))
        return [{"do": "make", "id": pid, "mode": "unpack", "raw": raw_with_runs(rng, d, ints)}]

    fail_a = {"do": "pack", "id": "A", "expect": "fail"}

    def ok(pid, role):
        return {"do": "pack", "id": pid, "expect": "ok", "role": role}

    repair = {"do": "set", "id": "A", "field": target, "value": rng.choice([0, 1, 0, rng.getrandbits(d.bits[target][0])])}
    if template == "fresh_kw":
        steps = make_a() + [fail_a] + b_fresh() + [ok("B", "fresh"), ok("B", "fresh_again")]
    elif template == "fresh_default":
        steps = make_a() + [fail_a] + b_default() + [ok("B", "brand_new_defaults"), ok("B", "brand_new_again")]
    elif template == "from_unpack":
        steps = make_a() + [fail_a] + b_unpacked() + [ok("B", "unpacked")]
    elif template == "repair":
        steps = make_a() + [fail_a, repair, ok("A", "repaired"), ok("A", "repaired_again")]
    elif template == "interleave":
        steps = b_fresh() + [ok("B", "before")] + make_a() + [fail_a, ok("B", "existing"), ok("B", "existing_again"),
                                                                repair, ok("A", "repaired")]
    elif template == "existing":
        steps = b_unpacked() + b_fresh("C") + make_a() + [fail_a, ok("B", "unpacked_existing"), fail_a, ok("C", "existing")]
    elif template == "two_failures":
        steps = make_a() + [fail_a, fail_a] + b_fresh() + [ok("B", "fresh"), fail_a, repair, ok("A", "repaired"), ok("B", "existing")]
    else:
        raise ValueError(template)
    return {"kind": "history", "template": template, "target": target, "steps": steps}


def run_histories(ctx, rng, d, max_positions, templates_per_position):
    """Failed pack of one packet followed by packs of others, for the positions j of every run (j > 0 leaves earlier
    fields of the run already processed when the pack fails)."""
    run = ctx.run
    run_segs = [s for s in d.segs if s[0] == "run"]
    targets = []
    for ri, seg in enumerate(run_segs):
        members = seg[1]
        js = list(range(1, len(members)))
        if len(js) > max_positions:
            keep = {js[-1]}                       # last field: every earlier field of the run was processed
            while len(keep) < max_positions:
                keep.add(rng.choice(js))
            js = sorted(keep)
        if not js or rng.random() < 0.15:
            js = [0] + js                         # first field of the run: nothing processed before the failure
        for j in js:
            targets.append((ri, j, members[j][0]))
    n = 0
    t0 = rng.randrange(len(HISTORY_TEMPLATES))
    for ti, (ri, j, fname) in enumerate(targets):
        for rep_ in range(templates_per_position):
            template = HISTORY_TEMPLATES[(t0 + ti * templates_per_position + rep_) % len(HISTORY_TEMPLATES)]
            bad = "unset" if rng.random() < 0.12 else {"nonint": rng.randrange(len(NONINTS))}
            op = make_history(rng, d, fname, template, bad)
            ok = op_history(ctx, d, op)
            n += 1
            if ok:
                run.count("histories_%s" % ("solo" if d.shape == "solo" else "embedded"))
                if len(d.runs) == 2:
                    run.count("histories_two_runs")
                    run.count("histories_two_runs_failure_in_run_%d" % ri)
                run.count("histories_variant_%s" % d.variant)
                if j > 0:
                    run.count("histories_failure_at_non_first_field")
                if template not in ctx.covered:
                    ctx.covered.add(template)
                    run.cover("history_templates", template)
                if j > 0 and template == "interleave":
                    ctx.sample("history", d, op)
            elif ctx.stop():
                return n
    return n


def _full_values(d, op):
    if op["mode"] == "after_unpack":
        full = model_decode(d, op["raw0"])
    else:
        full = default_values(d)
    full.update(op["values"])
    return full


# =============================================================================================
# parts
# =============================================================================================
_uid = [0]


def fresh_name(prefix):
    _uid[0] += 1
    return "%s%d" % (prefix, _uid[0])


def part_a(ctx, rng, shard, nshards):
    """all compositions of 8 bits x 3 option sets x all 256 patterns."""
    run = ctx.run
    masks = [m for m in range(128) if m % nshards == shard]
    for variant in VARIANTS:
        decls = [build_decl("A8_%s_%03d" % (variant, m), "solo", [composition_from_mask(8, m)], variant) for m in masks]
        for d in define_batch(ctx, decls, "file"):
            exercise(ctx, rng, d, all_patterns="with_pack", max_fields=8, nonint_n=2, hist_positions=8, hist_templates=3)
            run.count("partA_classes")
            ctx.anchors.pause()
            if ctx.stop():
                return
    # the same compositions between other fields (option sets rotating), sampled patterns
    decls = []
    for i, m in enumerate(masks):
        shape = ("emb", "vec", "emb")[i % 3]
        decls.append(build_decl("A8e_%03d" % m, shape, [composition_from_mask(8, m)], VARIANTS[(i + m) % 3]))
    for d in define_batch(ctx, decls, "file"):
        exercise(ctx, rng, d, unpack_random=16, max_fields=8, hist_positions=8, hist_templates=3)
        run.count("partA_embedded_classes")
        ctx.anchors.pause()
        if ctx.stop():
            return
    run.extra["partA_compositions_of_8_bits"] = len(masks)
    ctx.anchors.resume()


def sample_decl(rng, idx, totals):
    r = rng.random()
    if r < 0.38:
        shape = "solo"
    elif r < 0.62:
        shape = "emb"
    elif r < 0.74:
        shape = "vec"
    elif r < 0.89:
        shape = "two"
    else:
        shape = "two_emb"
    runs = []
    for _ in range(nruns_of(shape)):
        total = rng.choice(totals)
        runs.append(random_composition(rng, total))
    variant = VARIANTS[idx % 3]
    defaults = None
    if rng.random() < 0.2:
        defaults = []
        for r_ in runs:
            defaults.append([rng.getrandbits(w) if rng.random() < 0.7 else None for w in r_])
    little = shape in ("solo", "emb") and rng.random() < 0.06
    return build_decl(fresh_name("B"), shape, runs, variant, defaults, little)


def part_b(ctx, rng, count, deadline, thorough, batch=8):
    """seeded sample of wider compositions in all shapes."""
    run = ctx.run
    totals = [16, 24, 32, 40, 48, 56, 64] * 6 + [72, 80, 96, 128]
    seen = set()
    done = 0
    idx = 0
    while done < count:
        if time.time() > deadline:
            run.extra["partB_classes_done_when_time_capped"] = done
            break
        decls = []
        while len(decls) < min(batch, count - done):
            d = sample_decl(rng, idx, totals)
            idx += 1
            if d.key() in seen:
                run.count("partB_duplicates_skipped")
                if idx > 20 * count:
                    break
                continue
            seen.add(d.key())
            decls.append(d)
        if not decls:
            break
        # as a user would (source files); one batch in five through exec
        mode = "exec" if (done // batch) % 5 == 4 else "file"
        for d in define_batch(ctx, decls, mode):
            if thorough:
                exercise(ctx, rng, d, unpack_random=8, max_fields=6, roundtrip_every=2, full_every=2, hist_positions=6)
            else:
                exercise(ctx, rng, d, unpack_random=4, max_fields=3, walking_zeros="boundaries", roundtrip_every=4, full_every=3,
                         value_subset=10)
            run.count("partB_classes")
            if run.counters["partB_classes"] == 30:
                ctx.anchors.pause()
            d.cls = None
            if ctx.stop():
                return
        done += len(decls)
    run.extra["partB_sampled_classes"] = done


def bad_decl(rng, kind, widths, variant, idx):
    """kind: solo | emb | vec | first | second | both | split"""
    name = fresh_name("Bad")
    if kind in ("solo", "emb", "vec"):
        return build_decl(name, kind, [widths], variant)
    good = random_composition(rng, rng.choice([8, 16, 24]))
    shape = ("two", "two_emb")[idx % 2]
    if kind == "first":
        return build_decl(name, shape, [widths, good], variant)
    if kind == "second":
        return build_decl(name, shape, [good, widths], variant)
    if kind == "both":
        other = random_composition(rng, rng.choice([t for t in range(1, 40) if t % 8]))
        return build_decl(name, shape, [widths, other], variant)
    if kind == "split":
        # the documentation's case: the two parts sum to a multiple of 8 but are not contiguous
        total = sum(widths)
        rest = (-total) % 8
        return build_decl(name, shape, [widths, random_composition(rng, rest + rng.choice([0, 8]))], variant)
    raise ValueError(kind)


def part_c(ctx, rng, shard, nshards, thorough):
    """totals that are not a multiple of 8 must be rejected at class definition."""
    run = ctx.run
    jobs = []
    # all compositions of 1..7 bits (127), alone
    for total in range(1, 8):
        for m in range(1 << (total - 1)):
            jobs.append(("solo", composition_from_mask(total, m)))
    # 9..15: all (thorough) or a sample
    for total in range(9, 16):
        space = 1 << (total - 1)
        if thorough:
            for m in range(space):
                jobs.append(("solo" if m % 4 else "emb", composition_from_mask(total, m)))
        else:
            for _ in range(24):
                jobs.append(("solo", composition_from_mask(total, rng.randrange(space))))
    # wider, with the totals = 4 mod 8 and = 1/7 mod 8 emphasised
    wide_totals = [t for t in range(17, 72) if t % 8]
    emphasised = [4, 12, 20, 28, 36, 44, 60, 9, 15, 17, 23, 31, 33, 63, 65]
    nwide = 1200 if thorough else 420
    kinds = ["solo", "emb", "vec", "first", "second", "both", "split"]
    for i in range(nwide):
        total = rng.choice(emphasised) if i % 2 else rng.choice(wide_totals)
        jobs.append((kinds[i % len(kinds)], random_composition(rng, total)))
    # embedded / two-run forms of small totals
    for i in range(160 if not thorough else 400):
        total = rng.choice([1, 2, 3, 4, 5, 6, 7, 9, 10, 11, 12, 13, 14, 15])
        jobs.append((kinds[1 + i % (len(kinds) - 1)], random_composition(rng, total)))
    n = 0
    for i, (kind, widths) in enumerate(jobs):
        if nshards > 1 and i % nshards != shard:
            continue
        variant = VARIANTS[i % 3]
        d = bad_decl(rng, kind, widths, variant, i)
        # a few through real source files, the rest through exec
        mode = "file" if (i % 40 == 7) else "exec"
        op = {"kind": "define_bad", "define_mode": mode, "form": kind}
        ok = op_define_bad(ctx, d, op)
        run.case(key="reject|%s|%s" % (kind, d.key()), nontrivial=True)
        run.cover("bad_totals_mod_8", str(sum(widths) % 8))
        run.cover("bad_forms", kind)
        n += 1
        if ok and kind == "split":
            ctx.sample("reject", d, op, expected="Bits.ByteBoundaryError")
        if not ok and ctx.stop():
            return
    run.extra["partC_rejection_cases"] = n


def part_t16(ctx, rng, shard, nshards, deadline):
    """thorough: every composition of 16 bits."""
    run = ctx.run
    masks = [m for m in range(1 << 15) if m % nshards == shard]
    batch = 64
    done = 0
    for b0 in range(0, len(masks), batch):
        if time.time() > deadline:
            run.inconclusive_because("exhaustive-16-bit-part-time-capped-at-%d-of-%d" % (done, len(masks)))
            break
        decls = []
        for m in masks[b0:b0 + batch]:
            shape = "solo"
            if (m // nshards) % 8 == 5:
                shape = ("emb", "vec")[(m // nshards // 8) % 2]
            decls.append(build_decl("T16_%05d" % m, shape, [composition_from_mask(16, m)], "g"))
        for d in define_batch(ctx, decls, "exec"):
            exercise(ctx, rng, d, unpack_random=8, max_fields=16, full_every=2, hist_positions=16)
            run.count("partT_classes_16_bits")
            if run.counters["partT_classes_16_bits"] == 30:
                ctx.anchors.pause()
            d.cls = None
            if ctx.stop():
                return
        done += len(decls)
    run.extra["partT_compositions_of_16_bits"] = done
    # a sample of this shard's compositions from source files with generation on
    pick = rng.sample(masks, min(160, len(masks)))
    decls = [build_decl("T16g_%05d" % m, ("solo", "emb", "vec")[i % 3], [composition_from_mask(16, m)], ("d", "nv")[i % 2])
             for i, m in enumerate(pick)]
    for b0 in range(0, len(decls), 40):
        if time.time() > deadline:
            run.extra["partT_generated_sample_time_capped"] = 1
            break
        for d in define_batch(ctx, decls[b0:b0 + 40], "file"):
            exercise(ctx, rng, d, unpack_random=8, max_fields=16, full_every=2, hist_positions=16)
            run.count("partT_classes_16_bits_generated")
            d.cls = None
            if ctx.stop():
                return
    # all 65536 patterns for a few compositions
    pick = rng.sample(masks, min(4, len(masks)))
    decls = [build_decl("T16x_%05d" % m, "solo", [composition_from_mask(16, m)], VARIANTS[i % 3]) for i, m in enumerate(pick)]
    for d in define_batch(ctx, decls, "file"):
        if time.time() > deadline:
            break
        n = 0
        for I in range(1 << 16):
            op = {"kind": "unpack", "raw": I.to_bytes(2, "big")}
            ok = op_unpack(ctx, d, op, roundtrip=not (I & 3))
            n += 1
            if not ok and ctx.stop():
                return
        run.case(key="unpack_all_65536|" + d.key(), nontrivial=nontrivial(d), n=n)
        run.count("partT_classes_all_65536_patterns")


# =============================================================================================
# Part D: bit-run packets that come to be through nesting and copying
# =============================================================================================
# A "family" is one bit-run class X (a Decl, exactly as in the other parts) plus packets that reach X
# through the library's ways of making packet objects:
#     X_O:  tag=Int(1); n=Int(1, default=2); f=Ref(X); g=Ref(X(<member values>));
#           h=Ref(X).repeated(n[, default=[X(..), X(..)]]); o=Ref(X).when(tag == 1[, default=X(..)]);
#           c=Ref(lambda **k: X(), default=X(..)); end=Int(1)
#     X_M:  k=Int(1); f=Ref(X)                                  (middle packet)
#     X_T:  m=Ref(X_M); q=Ref(X_M(k=.., f=X(..))); e=Int(1)     (two levels of nesting)
# The model of a container is the concatenation of the models of its parts (a repeated field holds n elements on
# unpack and packs the elements of its list; an optional one is present on unpack iff tag == 1 and packs iff it is
# not None); the model of every X inside is the arithmetic model of the run (model_encode / model_decode).
NEST_HEADER = "from bisturi.packet import Packet\nfrom bisturi.field import Bits, Int, Data, Ref\n\n"
DEFINE_MODES = ("file", "local", "exec")
HOWS_MAIN = ("copy", "deepcopy", "pickle", "pickle_hi", "pickle2", "clone")
HOWS_PROBE = ("pickle0", "pickle1")
PICKLE_PROTOCOL = {"pickle": None, "pickle_hi": -1, "pickle2": 2, "pickle0": 0, "pickle1": 1}
HOW_TEXT = {"copy": "copy.copy", "deepcopy": "copy.deepcopy", "clone": "as_prototype().clone()",
            "pickle": "pickle round trip (default protocol)", "pickle_hi": "pickle round trip (protocol -1)",
            "pickle2": "pickle round trip (protocol 2)", "pickle0": "pickle round trip (protocol 0)",
            "pickle1": "pickle round trip (protocol 1)"}
PATH_KIND = {"f": "ref_class", "g": "ref_instance", "h": "repeated", "o": "optional", "c": "callable_ref",
             "m": "two_levels", "q": "two_levels_instance"}


class Family:
    __slots__ = ("d", "spec", "src", "mode", "classes", "lays", "picklable", "module")

    def key(self):
        return "%s|o=%s|%s" % (self.d.key(), self.spec["ovariant"], self.mode)


def _kwsrc(lay, partial):
    """source text of the keyword arguments that build `partial` (see default_model)."""
    out = []
    if lay[0] == "leaf":
        for n in lay[1].names:
            if n in partial:
                out.append("%s=%r" % (n, partial[n]))
        return ", ".join(out)
    for e in lay[2]:
        if e[1] not in partial:
            continue
        p = partial[e[1]]
        if e[0] == "int":
            out.append("%s=%r" % (e[1], p))
        elif e[0] == "pkt":
            out.append("%s=%s(%s)" % (e[1], lay_class(e[2]), _kwsrc(e[2], p)))
        elif e[0] == "seq":
            out.append("%s=[%s]" % (e[1], ", ".join("%s(%s)" % (lay_class(e[2]), _kwsrc(e[2], x)) for x in p)))
        elif e[0] == "opt":
            out.append("%s=%s" % (e[1], "None" if p is None else "%s(%s)" % (lay_class(e[2]), _kwsrc(e[2], p))))
    return ", ".join(out)


def lay_class(lay):
    return lay[1].name if lay[0] == "leaf" else lay[1]


def build_family(d, fspec):
    """fspec: {'ovariant', 'g', 'hd', 'od', 'cd', 'q', 'count', 'define'} (partials are keyword values of X)."""
    fam = Family()
    fam.d, fam.mode, fam.classes, fam.picklable, fam.module = d, fspec["define"], {}, None, None
    fam.spec = dict(fspec)
    fam.spec["inner"] = d.spec()
    X = d.name
    leaf = ("leaf", d)
    count = "n" if fspec["count"] == "field" else 2
    lay_m = ("node", X + "_M", [("int", "k", 0), ("pkt", "f", leaf, {})])
    lay_o = ("node", X + "_O", [
        ("int", "tag", 0), ("int", "n", 2),
        ("pkt", "f", leaf, {}),
        ("pkt", "g", leaf, fspec["g"]),
        ("seq", "h", leaf, count, fspec["hd"]),
        ("opt", "o", leaf, fspec["od"]),
        ("pkt", "c", leaf, fspec["cd"]),
        ("int", "end", 0)])
    lay_t = ("node", X + "_T", [("pkt", "m", lay_m, {}), ("pkt", "q", lay_m, fspec["q"]), ("int", "e", 0)])
    fam.lays = {"leaf": leaf, "outer": lay_o, "mid": lay_m, "deep": lay_t}
    opts = dict(OPTS[fspec["ovariant"]])
    optline = ["    __bisturi__ = %r" % (opts,)] if fspec["ovariant"] != "d" else []
    L = [d.src.rstrip("\n"), ""]
    L += ["class %s_O(Packet):" % X] + optline
    L += ["    tag = Int(1)", "    n = Int(1, default=2)",
          "    f = Ref(%s)" % X,
          "    g = Ref(%s(%s))" % (X, _kwsrc(leaf, fspec["g"]))]
    cnt = "n" if fspec["count"] == "field" else "2"
    if fspec["hd"] is None:
        L.append("    h = Ref(%s).repeated(%s)" % (X, cnt))
    else:
        L.append("    h = Ref(%s).repeated(%s, default=[%s])" % (X, cnt, ", ".join("%s(%s)" % (X, _kwsrc(leaf, p)) for p in fspec["hd"])))
    if fspec["od"] is None:
        L.append("    o = Ref(%s).when(tag == 1)" % X)
    else:
        L.append("    o = Ref(%s).when(tag == 1, default=%s(%s))" % (X, X, _kwsrc(leaf, fspec["od"])))
    L.append("    c = Ref(lambda **k: %s(), default=%s(%s))" % (X, X, _kwsrc(leaf, fspec["cd"])))
    L.append("    end = Int(1)")
    L += ["", "class %s_M(Packet):" % X] + optline + ["    k = Int(1)", "    f = Ref(%s)" % X]
    L += ["", "class %s_T(Packet):" % X] + optline
    L += ["    m = Ref(%s_M)" % X, "    q = Ref(%s_M(%s))" % (X, _kwsrc(lay_m, fspec["q"])), "    e = Int(1)"]
    body = "\n".join(L) + "\n"
    if fam.mode == "local":
        # function-local classes: instances cannot be pickled (the library then clones live objects)
        names = [X, X + "_O", X + "_M", X + "_T"]
        body = ("def _make_%s():\n" % X + "".join("    " + ln + "\n" if ln else "\n" for ln in body.split("\n")[:-1])
                + "    return {%s}\n\n_classes_%s = _make_%s()\n" % (", ".join("%r: %s" % (n, n) for n in names), X, X))
    fam.src = body
    return fam


def family_from_spec(spec):
    return build_family(decl_from_spec(spec["inner"]), {k: v for k, v in spec.items() if k != "inner"})


def define_family(ctx, fam):
    """Define the classes of the family (file: importable module that stays registered so that instances can be
    pickled by reference; local: inside a function of such a module; exec: namespace without __name__)."""
    X = fam.d.name
    names = [X, X + "_O", X + "_M", X + "_T"]
    if fam.mode == "exec":
        ns = {}
        old = os.getcwd()
        os.chdir(ctx.scratch)
        try:
            exec(NEST_HEADER + fam.src, ns)
        finally:
            os.chdir(old)
        fam.classes = {n: ns[n] for n in names}
    else:
        module, path = render.load_source(NEST_HEADER + fam.src, ctx.scratch)
        fam.module = module
        if fam.mode == "local":
            fam.classes = dict(getattr(module, "_classes_" + X))
        else:
            fam.classes = {n: getattr(module, n) for n in names}
    fam.d.cls, fam.d.mode = fam.classes[X], fam.mode
    import pickle
    try:
        pickle.loads(pickle.dumps(fam.classes[X]()))
        fam.picklable = True
    except Exception:
        fam.picklable = False


def undefine_family(fam):
    if fam.module is not None:
        forget_module(fam.module)
    fam.module = None
    fam.classes = {}
    fam.d.cls = None


# ---- the model of nested layouts ----------------------------------------------------------------------
def leaf_defaults(d):
    vals = default_values(d)
    for kind, name, n in d.nonbits:
        vals[name] = 0 if kind == "int" else b"\x00" * n
    return vals


def default_model(lay, partial):
    """model of Cls(**partial): every part not named keeps the declared default (a clone of the Ref prototype,
    a copy of the declared default list/packet, [] / None when nothing is declared)."""
    if lay[0] == "leaf":
        vals = leaf_defaults(lay[1])
        vals.update(partial)
        return vals
    out = {}
    for e in lay[2]:
        attr = e[1]
        if e[0] == "int":
            out[attr] = partial.get(attr, e[2])
        elif e[0] == "pkt":
            out[attr] = default_model(e[2], partial[attr] if attr in partial else e[3])
        elif e[0] == "seq":
            lst = partial[attr] if attr in partial else (e[4] or [])
            out[attr] = [default_model(e[2], p) for p in lst]
        elif e[0] == "opt":
            p = partial[attr] if attr in partial else e[3]
            out[attr] = None if p is None else default_model(e[2], p)
    return out


def nest_encode(lay, mv):
    if lay[0] == "leaf":
        return model_encode(lay[1], mv)
    out = bytearray()
    for e in lay[2]:
        v = mv[e[1]]
        if e[0] == "int":
            out += int(v).to_bytes(1, "big")
        elif e[0] == "pkt":
            out += nest_encode(e[2], v)
        elif e[0] == "seq":
            for x in v:
                out += nest_encode(e[2], x)
        elif e[0] == "opt":
            if v is not None:
                out += nest_encode(e[2], v)
    return bytes(out)


def nest_decode(lay, raw, off=0):
    if lay[0] == "leaf":
        nb = lay[1].nbytes
        return model_decode(lay[1], raw[off:off + nb]), off + nb
    out = {}
    for e in lay[2]:
        if e[0] == "int":
            out[e[1]] = raw[off]
            off += 1
        elif e[0] == "pkt":
            out[e[1]], off = nest_decode(e[2], raw, off)
        elif e[0] == "seq":
            cnt = out[e[3]] if isinstance(e[3], str) else e[3]
            lst = []
            for _ in range(cnt):
                x, off = nest_decode(e[2], raw, off)
                lst.append(x)
            out[e[1]] = lst
        elif e[0] == "opt":
            if out["tag"] == 1:
                out[e[1]], off = nest_decode(e[2], raw, off)
            else:
                out[e[1]] = None
    return out, off


def lay_at(lay, path):
    for step in path:
        if isinstance(step, int):
            continue                      # element of a repeated field: lay is already the element's
        for e in lay[2]:
            if e[1] == step:
                lay = e[2]
                break
        else:
            raise KeyError(step)
    return lay


def obj_at(obj, path):
    for step in path:
        obj = obj[step] if isinstance(step, int) else getattr(obj, step)
    return obj


def model_at(mv, path):
    for step in path:
        mv = mv[step]
    return mv


def leaf_paths(lay, mv, path=()):
    """paths of the bit-run packets present in a model value."""
    if lay[0] == "leaf":
        yield list(path)
        return
    for e in lay[2]:
        v = mv[e[1]]
        if e[0] == "pkt":
            for p in leaf_paths(e[2], v, path + (e[1],)):
                yield p
        elif e[0] == "seq":
            for i, x in enumerate(v):
                for p in leaf_paths(e[2], x, path + (e[1], i)):
                    yield p
        elif e[0] == "opt" and v is not None:
            for p in leaf_paths(e[2], v, path + (e[1],)):
                yield p


def nest_build(fam, lay, partial):
    """Cls(**partial) with nested packets built the same way (keyword construction)."""
    cls = fam.classes[lay_class(lay)]
    if lay[0] == "leaf":
        return cls(**partial)
    kw = {}
    for e in lay[2]:
        if e[1] not in partial:
            continue
        p = partial[e[1]]
        if e[0] == "int":
            kw[e[1]] = p
        elif e[0] == "pkt":
            kw[e[1]] = nest_build(fam, e[2], p)
        elif e[0] == "seq":
            kw[e[1]] = [nest_build(fam, e[2], x) for x in p]
        elif e[0] == "opt":
            kw[e[1]] = None if p is None else nest_build(fam, e[2], p)
    return cls(**kw)


def nest_read_mismatches(fam, lay, pkt, mv, path, bad):
    """what the packet reads versus the model, recursively; appends {'path', 'field', 'want', 'got'}."""
    if len(bad) >= 8:
        return
    if lay[0] == "leaf":
        d = lay[1]
        for n in d.names:
            now = getattr(pkt, n, UNSET)
            want = mv[n]
            if now is UNSET or type(now) is not type(want) or now != want:
                bad.append({"path": list(path), "field": n, "want": want, "got": repr(now) if now is UNSET else now})
        return
    for e in lay[2]:
        attr = e[1]
        now = getattr(pkt, attr, UNSET)
        want = mv[attr]
        if e[0] == "int":
            if now is UNSET or type(now) is not type(want) or now != want:
                bad.append({"path": list(path), "field": attr, "want": want, "got": repr(now)})
        elif e[0] == "pkt" or (e[0] == "opt" and want is not None):
            if not isinstance(now, fam.classes[lay_class(e[2])]):
                bad.append({"path": list(path), "field": attr, "want": "a %s packet" % lay_class(e[2]), "got": repr(now)[:80]})
            else:
                nest_read_mismatches(fam, e[2], now, want, path + [attr], bad)
        elif e[0] == "opt":
            if now is not None:
                bad.append({"path": list(path), "field": attr, "want": None, "got": repr(now)[:80]})
        elif e[0] == "seq":
            if not isinstance(now, list) or len(now) != len(want):
                bad.append({"path": list(path), "field": attr, "want": "list of %d packets" % len(want), "got": repr(now)[:80]})
            else:
                for i, x in enumerate(want):
                    if not isinstance(now[i], fam.classes[lay_class(e[2])]):
                        bad.append({"path": list(path) + [attr], "field": i, "want": "a packet", "got": repr(now[i])[:80]})
                    else:
                        nest_read_mismatches(fam, e[2], now[i], x, path + [attr, i], bad)


def nest_witness(ctx, fam, op, **more):
    w = {"family": fam.spec, "decl": fam.d.spec(), "source": NEST_HEADER + fam.src, "define_mode": fam.mode,
         "instances_picklable": fam.picklable, "op": op}
    w.update(more)
    return w


def do_copy(how, obj, protos, proto_id):
    import copy
    import pickle
    if how == "copy":
        return copy.copy(obj)
    if how == "deepcopy":
        return copy.deepcopy(obj)
    if how == "clone":
        if proto_id is None:
            return obj.as_prototype().clone()
        if proto_id not in protos:
            protos[proto_id] = obj.as_prototype()
        return protos[proto_id].clone()
    proto = PICKLE_PROTOCOL[how]
    data = pickle.dumps(obj) if proto is None else pickle.dumps(obj, proto)
    return pickle.loads(data)


def how_family(how):
    return "pickle" if how.startswith("pickle") else how


def op_nest(ctx, fam, op):
    """A history over packets of one family.  Steps:
        make    a packet of layout leaf/outer/mid/deep: default-constructed, keyword-constructed (nested packets built by
                keywords too; parts not named keep their declared default) or unpacked
        copy    a new packet from an existing one (or from a packet nested in it): copy.copy / copy.deepcopy / pickle round
                trip / as_prototype().clone()
        set     assign a field of the packet at a path;  put: assign a freshly built bit-run packet;  attach: assign packet B
        check   the packet must read the values of its own model (type-exact), pack() must return the model's bytes (every
                bit field modulo 2^w in its own slice), twice, and still read the same values afterwards.
    The model of a copy is a copy of the model of its source at that moment (a shallow one for copy.copy: nested packets are
    then only ever replaced, never mutated, so nothing depends on the sharing)."""
    import copy as _copy
    run = ctx.run
    pk, mv, ly, info, protos, proto_mv = {}, {}, {}, {}, {}, {}
    trace = []
    touched_leaf_kinds = set()

    def relatives(pid):
        g = info[pid]["group"]
        return [x for x in info if x != pid and info[x]["group"] == g]

    def is_ancestor(a, b):
        """a is (transitively) the source of b"""
        p = info[b]["parent"]
        while p is not None:
            if p == a:
                return True
            p = info[p]["parent"]
        return False

    def mark_touched(pid):
        info[pid]["touched"] = True
        for other in relatives(pid):
            if is_ancestor(other, pid):
                info[other]["dirty"].add("derived")        # a packet derived from `other` was modified
            elif is_ancestor(pid, other):
                info[other]["dirty"].add("source")         # the source of `other` was modified after the copy
            else:
                info[other]["dirty"].add("sibling")
        for host in info[pid]["hosts"]:
            mark_touched(host)

    for si, st in enumerate(op["steps"]):
        do = st["do"]
        pid = st["id"]
        if do == "make":
            lay = fam.lays[st["lay"]]
            cls = fam.classes[lay_class(lay)]
            mode = st["mode"]
            try:
                if mode == "unpack":
                    pk[pid] = cls.unpack(st["raw"])
                    mv[pid], used = nest_decode(lay, st["raw"])
                elif mode == "default":
                    pk[pid] = cls()
                    mv[pid] = default_model(lay, {})
                elif mode == "kw":
                    pk[pid] = nest_build(fam, lay, st["values"])
                    mv[pid] = default_model(lay, st["values"])
                else:
                    raise ValueError(mode)
            except RecursionError:
                raise
            except Exception as e:
                run.violation("building/parsing a packet that nests a bit-run packet raised (%s)" % mode,
                              nest_witness(ctx, fam, op, step=si, raised=err_text(e), trace=trace))
                return False
            ly[pid] = lay
            group = pid
            if mode != "unpack":
                # packets whose parts come from the same class-level prototypes/defaults: relatives ("siblings")
                for x in info:
                    if info[x]["lay"] == st["lay"] and info[x]["origin"] != "unpack" and info[x]["parent"] is None:
                        group = info[x]["group"]
                        break
            info[pid] = {"lay": st["lay"], "origin": mode, "parent": None, "how": None, "group": group, "dirty": set(),
                         "touched": False, "hosts": [], "extracted": False}
            trace.append("%d make %s %s %s" % (si, pid, st["lay"], mode))
        elif do == "copy":
            src = st["from"]
            path = st.get("path") or []
            how = st["how"]
            try:
                obj = obj_at(pk[src], path)
            except Exception as e:
                run.violation("a nested bit-run packet is missing from its container",
                              nest_witness(ctx, fam, op, step=si, raised=err_text(e), trace=trace))
                return False
            m = model_at(mv[src], path)
            if how == "clone" and st.get("proto") is not None and st["proto"] in protos:
                m = proto_mv[st["proto"]]          # the prototype was taken earlier: a snapshot of that moment
            try:
                new = do_copy(how, obj, protos, st.get("proto"))
            except RecursionError:
                raise
            except Exception as e:
                # whether a copy protocol is supported at all is not C07's business: counted, not judged
                run.count("copy_raised_%s" % how)
                run.cover("copy_protocols_raising", "%s: %s" % (how, type(e).__name__))
                trace.append("%d copy %s <- %s %s raised %s" % (si, pid, src, how, type(e).__name__))
                run.count("nest_histories_ended_by_unsupported_copy")
                return True
            if how == "clone" and st.get("proto") is not None and st["proto"] not in proto_mv:
                proto_mv[st["proto"]] = _copy.deepcopy(m)
            pk[pid] = new
            mv[pid] = dict(m) if how == "copy" else _copy.deepcopy(m)
            ly[pid] = lay_at(ly[src], path)
            info[pid] = {"lay": "leaf" if ly[pid][0] == "leaf" else info[src]["lay"], "origin": info[src]["origin"],
                         "parent": src, "how": how, "group": info[src]["group"], "dirty": set(), "touched": False,
                         "hosts": [], "extracted": bool(path), "src_touched": info[src]["touched"]}
            run.cover("copy_protocols_working", how)
            trace.append("%d copy %s <- %s%s %s" % (si, pid, src, "".join("[%r]" % x for x in path), how))
        elif do == "set":
            path = st.get("path") or []
            try:
                setattr(obj_at(pk[pid], path), st["field"], st["value"])
            except RecursionError:
                raise
            except Exception as e:
                run.violation("assigning a field of a nested/copied bit-run packet raised",
                              nest_witness(ctx, fam, op, step=si, raised=err_text(e), trace=trace))
                return False
            model_at(mv[pid], path)[st["field"]] = st["value"]
            if path:
                touched_leaf_kinds.add(path[0])
            mark_touched(pid)
            trace.append("%d set %s%s.%s" % (si, pid, "".join("[%r]" % x for x in path), st["field"]))
        elif do == "put":
            path = st.get("path") or []
            host_lay = lay_at(ly[pid], path)
            sub = lay_at(host_lay, [st["attr"]])
            try:
                setattr(obj_at(pk[pid], path), st["attr"], nest_build(fam, sub, st["values"]))
            except RecursionError:
                raise
            except Exception as e:
                run.violation("building a bit-run packet and assigning it to a Ref field raised",
                              nest_witness(ctx, fam, op, step=si, raised=err_text(e), trace=trace))
                return False
            model_at(mv[pid], path)[st["attr"]] = default_model(sub, st["values"])
            mark_touched(pid)
            trace.append("%d put %s.%s" % (si, pid, st["attr"]))
        elif do == "attach":
            other = st["obj"]
            setattr(pk[pid], st["attr"], pk[other])
            mv[pid][st["attr"]] = mv[other]          # the same object on both sides: later sets through `other` show in pid
            info[other]["hosts"].append(pid)
            if info[other]["parent"] is not None:
                info[pid]["holds_copy"] = True
            mark_touched(pid)
            trace.append("%d attach %s.%s = %s" % (si, pid, st["attr"], other))
        elif do == "check":
            lay = ly[pid]
            inf = info[pid]
            origin_txt = describe_origin(inf, info)
            bad = []
            nest_read_mismatches(fam, lay, pk[pid], mv[pid], [], bad)
            if bad:
                what = "unpack of a packet nesting bit-run packets: a bit field does not hold exactly its own slice"
                if inf["parent"] is not None or inf["touched"] or inf["dirty"] or inf["origin"] != "unpack":
                    what = ("%s: its fields do not read what was parsed/assigned (own values lost, or disturbed by operations "
                            "on another packet)" % origin_txt)
                run.violation(what, nest_witness(ctx, fam, op, step=si, packet=pid, mismatches=bad, trace=trace))
                return False
            want = nest_encode(lay, mv[pid])
            status, got = ctx.lib_pack(pk[pid])
            trace.append("%d check %s -> %s" % (si, pid, status))
            if status != "ok":
                run.violation("%s: pack of integer values raised instead of writing each bit field modulo 2^width into its slice"
                              % origin_txt,
                              nest_witness(ctx, fam, op, step=si, packet=pid, raised=err_text(got), status=status,
                                           want=b2j(want), values=mv[pid], trace=trace))
                return False
            if got != want:
                run.violation("%s: packed bytes differ from the model of its own values (sum((v mod 2^w) << shift) per run, "
                              "big-endian)" % origin_txt,
                              nest_witness(ctx, fam, op, step=si, packet=pid, got=b2j(got), want=b2j(want), values=mv[pid],
                                           trace=trace))
                return False
            status, again = ctx.lib_pack(pk[pid])
            if status != "ok" or again != got:
                run.violation("%s: a second pack() did not return the same bytes" % origin_txt,
                              nest_witness(ctx, fam, op, step=si, packet=pid, first=b2j(got),
                                           second=(b2j(again) if status == "ok" else err_text(again)), trace=trace))
                return False
            bad = []
            nest_read_mismatches(fam, lay, pk[pid], mv[pid], [], bad)
            if bad:
                run.violation("%s: pack() changed the value of a field" % origin_txt,
                              nest_witness(ctx, fam, op, step=si, packet=pid, mismatches=bad, trace=trace))
                return False
            count_check(run, fam, lay, mv[pid], inf, touched_leaf_kinds)
            inf["dirty"] = set()
        else:
            raise ValueError(st)
    run.count("nest_histories_run")
    return True


def describe_origin(inf, info):
    chain = []
    x = inf
    while x["parent"] is not None:
        chain.append(HOW_TEXT[x["how"]] + (" of a packet nested in" if x["extracted"] else " of"))
        x = info[x["parent"]]
    base = {"default": "a default-constructed", "kw": "a keyword-constructed", "unpack": "an unpacked"}[x["origin"]]
    what = "bit-run packet" if x["lay"] == "leaf" else "packet nesting bit-run packets through Ref"
    if inf.get("holds_copy"):
        what += " (one of its Ref fields was assigned a copied bit-run packet)"
    if chain:
        return "%s %s %s" % (" ".join(chain), base, what)
    return "%s %s" % (base[base.index(" ") + 1:], what)


def count_check(run, fam, lay, mv, inf, touched_kinds):
    """evidence: what kind of packet just passed the oracle."""
    run.count("nest_checks_passed")
    run.count("nest_checks_inner_variant_%s" % fam.d.variant)
    run.count("nest_checks_define_%s" % fam.mode)
    nested = lay[0] != "leaf"
    if nested:
        run.count("nest_checks_outer_variant_%s" % fam.spec["ovariant"])
        run.count("nested_%s_checked" % inf["origin"])
        kinds = {}
        for p in leaf_paths(lay, mv):
            kinds[p[0]] = kinds.get(p[0], 0) + 1
        for k, n in kinds.items():
            run.count("nested_%s_packets_compared" % PATH_KIND[k], n)
        if mv.get("o", 0) is None:
            run.count("nested_optional_absent_checked")
        if inf["touched"]:
            run.count("nested_then_assigned_compared")
    if inf["parent"] is not None:
        hf = how_family(inf["how"])
        run.count("copies_%s_compared" % hf)
        run.count("copies_how_%s_compared" % inf["how"])
        run.count("copies_of_%s_compared" % ("parsed" if inf["origin"] == "unpack" else "built"))
        run.count("copies_of_%s_compared" % ("nesting_packets" if nested else "bit_run_packets"))
        if inf["extracted"]:
            run.count("copies_of_a_nested_packet_compared")
        if inf["touched"]:
            run.count("copy_then_assign_compared")
        if inf.get("src_touched"):
            run.count("copies_of_modified_packets_compared")
        if fam.picklable:
            run.count("copies_picklable_class_compared")
        else:
            run.count("copies_live_object_path_compared")
        if "source" in inf["dirty"]:
            run.count("copy_after_ops_on_original_compared")
    if "derived" in inf["dirty"]:
        run.count("original_after_ops_on_copy_compared")
    if "sibling" in inf["dirty"]:
        run.count("sibling_after_ops_on_sibling_compared")
    if inf.get("holds_copy"):
        run.count("copies_attached_to_container_compared")


# ---- scenario generation ----------------------------------------------------------------------------------
def gen_leaf_partial(rng, d, style=None):
    """keyword values of a bit-run packet: all members / a subset (the others keep their defaults), in range or not."""
    style = style or rng.choice(["all", "all", "oor", "subset", "subset_oor"])
    vals = {}
    for n, (w, shift, r, dv) in d.bits.items():
        if style.startswith("subset") and rng.random() < 0.5:
            continue
        if style.endswith("oor") and rng.random() < 0.5:
            k = rng.choice([-3, -2, -1, 1, 2, 1 << 40, -(1 << 66)])
            vals[n] = rng.getrandbits(w) + k * (1 << w)
        else:
            vals[n] = rng.choice([rng.getrandbits(w), (1 << w) - 1, rng.getrandbits(w)])
    nb = nonbits_values(rng, d)
    for n, v in nb.items():
        if not style.startswith("subset") or rng.random() < 0.5:
            vals[n] = v
    return vals


def gen_leaf_raw(rng, d):
    run_segs = [s for s in d.segs if s[0] == "run"]
    ints = []
    for s in run_segs:
        total = s[2] * 8
        ones = (1 << total) - 1
        fname, w, shift = rng.choice(s[1])
        m = ((1 << w) - 1) << shift
        ints.append(rng.choice([rng.getrandbits(total), rng.getrandbits(total), ones, m, ones ^ m,
                                int.from_bytes(b"\xa5" * s[2], "big")]))
    return raw_with_runs(rng, d, ints)


def gen_raw(rng, lay, top=None):
    if lay[0] == "leaf":
        return gen_leaf_raw(rng, lay[1])
    out = bytearray()
    vals = {}
    for e in lay[2]:
        if e[0] == "int":
            if e[1] == "tag":
                v = rng.choice([1, 1, 0, 2])
            elif e[1] == "n":
                v = rng.choice([2, 1, 3, 0, 2])
            else:
                v = rng.getrandbits(8)
            vals[e[1]] = v
            out.append(v)
        elif e[0] == "pkt":
            out += gen_raw(rng, e[2])
        elif e[0] == "seq":
            cnt = vals[e[3]] if isinstance(e[3], str) else e[3]
            for _ in range(cnt):
                out += gen_raw(rng, e[2])
        elif e[0] == "opt":
            if vals["tag"] == 1:
                out += gen_raw(rng, e[2])
    return bytes(out)


def gen_partial(rng, lay, full):
    """keyword values for a container: full = every part given, else a random subset (the rest keeps its default)."""
    if lay[0] == "leaf":
        return gen_leaf_partial(rng, lay[1])
    out = {}
    for e in lay[2]:
        if not full and rng.random() < 0.5:
            continue
        if e[0] == "int":
            out[e[1]] = 1 if e[1] == "tag" else (2 if e[1] == "n" else rng.getrandbits(8))
        elif e[0] == "pkt":
            out[e[1]] = gen_partial(rng, e[2], full or rng.random() < 0.5)
        elif e[0] == "seq":
            out[e[1]] = [gen_partial(rng, e[2], True) for _ in range(2)]
        elif e[0] == "opt":
            out[e[1]] = gen_partial(rng, e[2], True)
    if "h" in out:
        out["n"] = len(out["h"])
    return out


def gen_make(rng, fam, pid, layname, origin):
    lay = fam.lays[layname]
    if origin == "unpack":
        return {"do": "make", "id": pid, "lay": layname, "mode": "unpack", "raw": gen_raw(rng, lay)}
    if origin == "default":
        return {"do": "make", "id": pid, "lay": layname, "mode": "default"}
    return {"do": "make", "id": pid, "lay": layname, "mode": "kw", "values": gen_partial(rng, lay, origin == "kw_full")}


def model_of_make(fam, st):
    lay = fam.lays[st["lay"]]
    if st["mode"] == "unpack":
        return nest_decode(lay, st["raw"])[0]
    if st["mode"] == "default":
        return default_model(lay, {})
    return default_model(lay, st["values"])


def gen_sets(rng, fam, pid, lay, mv, k_leaves=3, per_leaf=2, only=None):
    """assignments to bit fields (all value classes) of up to k_leaves bit-run packets below `pid`."""
    paths = list(leaf_paths(lay, mv))
    if only is not None:
        paths = [p for p in paths if p and p[0] in only] or paths
    if len(paths) > k_leaves:
        paths = rng.sample(paths, k_leaves)
    d = fam.d
    names = list(d.bits)
    steps = []
    for p in paths:
        for _ in range(per_leaf):
            fname = rng.choice(names)
            label, v = rng.choice(field_values(rng, d.bits[fname][0]))
            steps.append({"do": "set", "id": pid, "path": p, "field": fname, "value": v, "value_label": label})
        if d.nonbits and rng.random() < 0.3:
            kind, name, n = rng.choice(d.nonbits)
            v = rng.getrandbits(8 * n) if kind == "int" else bytes(rng.getrandbits(8) for _ in range(n))
            steps.append({"do": "set", "id": pid, "path": p, "field": name, "value": v})
    return steps


def chk(pid):
    return {"do": "check", "id": pid}


def sc_leaf_copy(rng, fam, how, origin, how2=None):
    d = fam.d
    leaf = fam.lays["leaf"]
    a = gen_make(rng, fam, "A", "leaf", origin)
    m = model_of_make(fam, a)
    steps = [a]
    if rng.random() < 0.5:
        steps.append(chk("A"))            # packed before the copy: the shared integer has been used
    if origin != "unpack" and rng.random() < 0.4:
        steps += gen_sets(rng, fam, "A", leaf, m, per_leaf=1)
    steps.append({"do": "copy", "id": "B", "from": "A", "how": how})
    steps.append(chk("B"))
    steps += gen_sets(rng, fam, "B", leaf, m, per_leaf=rng.choice([1, 1, 2, len(d.bits)]))
    steps += [chk("B"), chk("A")]
    steps += gen_sets(rng, fam, "A", leaf, m, per_leaf=rng.choice([1, 2]))
    steps += [chk("A"), chk("B")]
    if how2:
        steps.append({"do": "copy", "id": "C", "from": "B", "how": how2})
        steps += gen_sets(rng, fam, "C", leaf, m, per_leaf=2)
        steps += [chk("C"), chk("B"), chk("A")]
    return {"kind": "nest", "template": "leaf_copy", "steps": steps}


def sc_outer_make(rng, fam, layname, origin):
    lay = fam.lays[layname]
    a = gen_make(rng, fam, "O", layname, origin)
    m = model_of_make(fam, a)
    steps = [a, chk("O")]
    steps += gen_sets(rng, fam, "O", lay, m, k_leaves=6, per_leaf=2)
    steps.append(chk("O"))
    if origin != "unpack":
        # a second packet whose parts come from the same prototypes / declared defaults
        b = gen_make(rng, fam, "P", layname, "default" if rng.random() < 0.6 else "kw_part")
        mb = model_of_make(fam, b)
        steps += [b, chk("P")]
        steps += gen_sets(rng, fam, "P", lay, mb, k_leaves=4, per_leaf=1)
        steps += [chk("P"), chk("O")]
        steps += [{"do": "make", "id": "Q", "lay": layname, "mode": "default"}, chk("Q")]
    return {"kind": "nest", "template": "outer_make", "steps": steps}


def sc_outer_copy(rng, fam, layname, how, origin):
    lay = fam.lays[layname]
    a = gen_make(rng, fam, "O", layname, origin)
    m = model_of_make(fam, a)
    steps = [a]
    if rng.random() < 0.5:
        steps.append(chk("O"))
    steps.append({"do": "copy", "id": "P", "from": "O", "how": how})
    steps.append(chk("P"))
    pkt_attrs = [e[1] for e in lay[2] if e[0] in ("pkt", "opt")]
    if how == "copy":
        # shallow: replace whole sub-packets, never mutate a shared one
        for attr in rng.sample(pkt_attrs, min(2, len(pkt_attrs))):
            sub = lay_at(lay, [attr])
            steps.append({"do": "put", "id": "P", "attr": attr, "values": gen_partial(rng, sub, rng.random() < 0.5)})
        steps += [chk("P"), chk("O")]
        attr = rng.choice(pkt_attrs)
        steps.append({"do": "put", "id": "O", "attr": attr, "values": gen_partial(rng, lay_at(lay, [attr]), True)})
        steps += [chk("O"), chk("P")]
    else:
        steps += gen_sets(rng, fam, "P", lay, m, k_leaves=5, per_leaf=2)
        steps += [chk("P"), chk("O")]
        steps += gen_sets(rng, fam, "O", lay, m, k_leaves=3, per_leaf=1)
        steps += [chk("O"), chk("P")]
    return {"kind": "nest", "template": "outer_copy", "steps": steps}


def sc_extract_copy(rng, fam, how, origin):
    lay = fam.lays["outer"]
    a = gen_make(rng, fam, "O", "outer", origin)
    m = model_of_make(fam, a)
    paths = list(leaf_paths(lay, m))
    path = rng.choice(paths)
    steps = [a, {"do": "copy", "id": "B", "from": "O", "path": path, "how": how}, chk("B")]
    steps += gen_sets(rng, fam, "B", fam.lays["leaf"], model_at(m, path), per_leaf=2)
    steps += [chk("B"), chk("O")]
    d = fam.d
    fname = rng.choice(list(d.bits))
    label, v = rng.choice(field_values(rng, d.bits[fname][0]))
    steps.append({"do": "set", "id": "O", "path": path, "field": fname, "value": v, "value_label": label})
    steps += [chk("O"), chk("B")]
    return {"kind": "nest", "template": "extract_copy", "steps": steps}


def sc_insert_copy(rng, fam, how, origin):
    leaf = fam.lays["leaf"]
    a = gen_make(rng, fam, "A", "leaf", origin)
    m = model_of_make(fam, a)
    steps = [a, gen_make(rng, fam, "O", "outer", rng.choice(["default", "unpack"])),
             {"do": "copy", "id": "B", "from": "A", "how": how},
             {"do": "attach", "id": "O", "attr": rng.choice(["f", "g", "o", "c"]), "obj": "B"}, chk("O")]
    steps += gen_sets(rng, fam, "B", leaf, m, per_leaf=2)
    steps += [chk("O"), chk("A")]
    return {"kind": "nest", "template": "insert_copy", "steps": steps}


def sc_clone_twice(rng, fam, layname, origin):
    lay = fam.lays[layname]
    a = gen_make(rng, fam, "A", layname, origin)
    m = model_of_make(fam, a)
    steps = [a, {"do": "copy", "id": "B", "from": "A", "how": "clone", "proto": "P1"}]
    steps += gen_sets(rng, fam, "A", lay, m, k_leaves=2, per_leaf=1)       # after the prototype was taken
    steps.append({"do": "copy", "id": "C", "from": "A", "how": "clone", "proto": "P1"})
    steps += gen_sets(rng, fam, "B", lay, m, k_leaves=3, per_leaf=2)
    steps += [chk("C"), chk("B"), chk("A")]
    steps += gen_sets(rng, fam, "C", lay, m, k_leaves=2, per_leaf=1)
    steps += [chk("B"), chk("C")]
    return {"kind": "nest", "template": "clone_twice", "steps": steps}


ORIGINS_LEAF = ("kw_full", "unpack", "default", "kw_part")
ORIGINS_OUTER = ("default", "kw_full", "unpack", "kw_part")


def family_scenarios(rng, fam, idx, rich):
    """the histories run on one family; hows/origins rotate with idx so that every combination is met across families."""
    out = []
    hows = list(HOWS_MAIN)
    if not fam.picklable:
        # instances cannot be pickled (function-local / exec-defined classes): one pickle attempt (counted), the rest goes
        # through the protocols that work there - Ref and as_prototype() clone live objects for these classes
        hows = ["copy", "deepcopy", "clone", "deepcopy", "pickle", "clone"]
    r = idx % len(hows)
    hows = hows[r:] + hows[:r]
    for i, origin in enumerate(ORIGINS_OUTER):
        out.append(sc_outer_make(rng, fam, "outer", origin))
    for i, how in enumerate(hows):
        out.append(sc_leaf_copy(rng, fam, how, ORIGINS_LEAF[(idx + i) % 4], how2=hows[(i + 2) % len(hows)] if i % 3 == 0 else None))
    for i, how in enumerate(hows if rich else hows[:4]):
        out.append(sc_outer_copy(rng, fam, "outer", how, ORIGINS_OUTER[(idx + i) % 4]))
    for i in range(2):
        out.append(sc_extract_copy(rng, fam, hows[(i + 1) % len(hows)], ORIGINS_OUTER[(idx + i + 1) % 3]))
        out.append(sc_insert_copy(rng, fam, hows[(i + 3) % len(hows)], ORIGINS_LEAF[(idx + i) % 2]))
    out.append(sc_clone_twice(rng, fam, ("leaf", "outer")[idx % 2], ORIGINS_LEAF[idx % 3]))
    # two levels of nesting
    out.append(sc_outer_make(rng, fam, "deep", ("default", "kw_part", "unpack", "kw_full")[idx % 4]))
    out.append(sc_outer_copy(rng, fam, "deep", hows[0], ("unpack", "default", "kw_full")[idx % 3]))
    if rich:
        out.append(sc_outer_copy(rng, fam, "deep", hows[3], "default"))
        out.append(sc_clone_twice(rng, fam, "deep", "default"))
    if idx % 4 == 0:
        # protocols the unchanged library does not support for packets (pickle protocols 0 and 1): counted only
        out.append(sc_leaf_copy(rng, fam, HOWS_PROBE[(idx // 4) % 2], "kw_full"))
    return out


def sample_family(rng, idx, seed_off):
    """inner class: compositions of 8 bits (rotating through all 128) and wider sampled ones, every shape."""
    if idx % 3 == 0:
        m = (idx // 3 + seed_off) % 128
        shape = ("solo", "emb", "vec")[(idx // 9) % 3]
        d = build_decl(fresh_name("N"), shape, [composition_from_mask(8, m)], VARIANTS[(idx // 3) % 3])
        if rng.random() < 0.3:
            d = build_decl(d.name, shape, d.runs, d.variant, [[rng.getrandbits(w) if rng.random() < 0.7 else None for w in d.runs[0]]])
    else:
        d0 = sample_decl(rng, idx, [16, 24, 32, 16, 24, 40, 64])
        d = build_decl(fresh_name("N"), d0.shape, d0.runs, VARIANTS[(idx // 3) % 3], d0.defaults, d0.little)
    leaf = ("leaf", d)
    mode = ("file", "file", "local", "file", "exec")[idx % 5]
    fspec = {
        "ovariant": VARIANTS[(idx // 2) % 3],
        "g": gen_leaf_partial(rng, d, rng.choice(["subset", "subset_oor", "all", "oor"])),
        "hd": None if idx % 2 else [gen_leaf_partial(rng, d, "subset_oor"), gen_leaf_partial(rng, d, "all")],
        "od": None if idx % 4 < 2 else gen_leaf_partial(rng, d, "subset"),
        "cd": gen_leaf_partial(rng, d, rng.choice(["subset", "all", "oor"])),
        "q": {"k": rng.getrandbits(8), "f": gen_leaf_partial(rng, d, rng.choice(["subset_oor", "all"]))},
        "count": "field" if idx % 3 else "const",
        "define": mode,
    }
    # (count 'const' without a declared default: a default-constructed packet holds h == [] although the declared count
    # is 2; pack writes the list it holds - the model does the same)
    return build_family(d, fspec)


def run_nest_op(ctx, fam, op):
    ok = op_nest(ctx, fam, op)
    ctx.run.case(key="nest|%s|%s" % (op["template"], fam.key()), nontrivial=True)
    return ok


def part_d(ctx, rng, shard, nshards, count, deadline, rich):
    run = ctx.run
    done = 0
    seed_off = rng.randrange(128)
    for idx in range(count):
        if time.time() > deadline:
            run.extra["partD_families_done_when_time_capped"] = done
            break
        gidx = idx * nshards + shard
        fam = sample_family(rng, gidx, seed_off)
        try:
            define_family(ctx, fam)
        except RecursionError:
            raise
        except Exception as e:
            run.case(key="nest_define|" + fam.key(), nontrivial=True)
            run.violation("classes nesting a valid bit-run packet through Ref could not be defined",
                          nest_witness(ctx, fam, {"kind": "nest_define"}, raised=err_text(e)))
            undefine_family(fam)
            if ctx.stop():
                return
            continue
        run.count("nest_families_defined")
        run.count("nest_families_define_%s" % fam.mode)
        run.count("nest_families_instances_%s" % ("picklable" if fam.picklable else "not_picklable"))
        run.cover("nest_inner_shapes", fam.d.shape)
        run.cover("nest_variant_pairs", "%s/%s" % (fam.d.variant, fam.spec["ovariant"]))
        try:
            for op in family_scenarios(rng, fam, gidx, rich):
                ok = run_nest_op(ctx, fam, op)
                if ok and op["template"] not in ctx.covered:
                    ctx.covered.add(op["template"])
                    run.cover("nest_templates", op["template"])
                    if op["template"] in ("outer_copy", "leaf_copy") and len(run.samples) < 8:
                        run.sample(nest_witness(ctx, fam, op), cap=8)
                if not ok and ctx.stop():
                    return
        finally:
            undefine_family(fam)
        done += 1
        if done == 12:
            ctx.anchors.pause()
    run.extra["partD_families"] = done


# =============================================================================================
# anchor counters (evidence only): how often the anchored functions actually ran
# =============================================================================================
class Anchors:
    NAMES = ("Bits._compile", "Bits.unpack", "Bits.pack")

    def __init__(self):
        self.counts = {n: 0 for n in self.NAMES}
        self.tool = None

    def start(self):
        mon = getattr(sys, "monitoring", None)
        if mon is None:
            return
        for tool in (mon.PROFILER_ID, 4, 3):
            try:
                mon.use_tool_id(tool, "bvf-c07")
            except ValueError:
                continue
            self.tool = tool
            break
        if self.tool is None:
            return
        counts = self.counts
        sep = os.sep + "bisturi" + os.sep + "field.py"

        def on_start(code, offset):
            q = code.co_qualname
            if q in counts and code.co_filename.endswith(sep):
                counts[q] += 1
                return None
            return mon.DISABLE

        mon.register_callback(self.tool, mon.events.PY_START, on_start)
        self.resume()

    def resume(self):
        if self.tool is not None:
            sys.monitoring.set_events(self.tool, sys.monitoring.events.PY_START)

    def pause(self):
        """the callback costs ~0.5 us per call of Bits.pack/unpack (millions): the counters cover a window of the
        run (part C, the first classes of every other part), which is what the evidence says."""
        if self.tool is not None:
            sys.monitoring.set_events(self.tool, 0)

    def stop(self, run):
        mon = getattr(sys, "monitoring", None)
        if self.tool is not None:
            mon.set_events(self.tool, 0)
            mon.register_callback(self.tool, mon.events.PY_START, None)
            mon.free_tool_id(self.tool)
            run.extra["anchor_calls_in_monitored_window"] = dict(self.counts)
        else:
            run.extra["anchor_calls_in_monitored_window"] = "unavailable"


# =============================================================================================
# entry points
# =============================================================================================
def optimized_interpreter_probe(ctx):
    """The rejection of a run whose total width is not a multiple of 8 must not depend on the interpreter's mode: the same bad
    declarations defined by a child process running `python -O` (assert statements stripped) must still raise
    Bits.ByteBoundaryError.  Only the class statement is judged there."""
    import json
    import subprocess
    import sys
    run = ctx.run
    bad = [[3], [12, 1], [4, 8], [7, 16], [1, 1, 1], [5, 5, 5, 8], [9], [23]]
    code = (
        "import sys, json\n"
        "sys.dont_write_bytecode = True\n"
        "sys.path.insert(0, %r)\n"
        "from bisturi.packet import Packet\n"
        "from bisturi.field import Bits, Int\n"
        "out = []\n"
        "for widths in %r:\n"
        "    body = ''.join('    b%%d = Bits(%%d)\\n' %% (i, w) for i, w in enumerate(widths))\n"
        "    src = 'class Bad(Packet):\\n    __bisturi__ = {\"generate_for_pack\": False, \"generate_for_unpack\": False}\\n    h = Int(1)\\n' + body + '    t = Int(1)\\n'\n"
        "    ns = {'Packet': Packet, 'Bits': Bits, 'Int': Int}\n"
        "    try:\n"
        "        exec(src, ns)\n"
        "        out.append('accepted')\n"
        "    except Bits.ByteBoundaryError:\n"
        "        out.append('ByteBoundaryError')\n"
        "    except Exception as e:\n"
        "        out.append(type(e).__name__)\n"
        "print('RESULT ' + json.dumps({'optimize': sys.flags.optimize, 'out': out}))\n"
    ) % (common.REPO, bad)
    for flag in ("-O", "-OO"):
        try:
            r = subprocess.run([sys.executable, flag, "-c", code], cwd=ctx.scratch, capture_output=True, text=True, timeout=120)
        except subprocess.TimeoutExpired:
            run.count("optimized_interpreter_probe_timeouts")
            continue
        line = [l for l in r.stdout.splitlines() if l.startswith("RESULT ")]
        if not line:
            run.inconclusive_because("optimized-interpreter probe produced no result: %s" % (r.stderr or "")[-200:])
            return
        rep = json.loads(line[0][7:])
        if not rep["optimize"]:
            run.inconclusive_because("optimized-interpreter probe did not run optimized")
            return
        for widths, got in zip(bad, rep["out"]):
            run.count("bad_total_rejected_under_optimized_interpreter" if got == "ByteBoundaryError" else "bad_total_not_rejected_under_optimized_interpreter")
            if got != "ByteBoundaryError":
                run.violation("bit run with a total width that is not a multiple of 8: under `python %s` the class definition %s instead of raising "
                              "Bits.ByteBoundaryError" % (flag, "was accepted" if got == "accepted" else "raised " + got),
                              {"widths": widths, "interpreter_flag": flag, "source": "class Bad(Packet): h = Int(1); " + "; ".join("b%d = Bits(%d)" % (i, w) for i, w in enumerate(widths)) + "; t = Int(1)"})
                return


def run(run):
    shard, nshards = run.shard
    rng = rng_for(run.seed, "c07", shard)
    ctx = Ctx(run)
    ctx.scratch = common.scratch_dir("bvf_c07_")
    thorough = run.tier == "thorough"
    t0 = time.time()
    anchors = ctx.anchors = Anchors()
    anchors.start()
    try:
        if shard == 0:
            optimized_interpreter_probe(ctx)
        part_a(ctx, rng_for(run.seed, "c07", "A", shard), shard, nshards)
        run.extra["partA_seconds_summed_over_shards"] = round(time.time() - t0, 1)
        anchors.resume()
        if not ctx.stop():
            part_c(ctx, rng_for(run.seed, "c07", "C", 0), shard, nshards, thorough)
        anchors.resume()
        if thorough and not ctx.stop():
            part_t16(ctx, rng_for(run.seed, "c07", "T", shard), shard, nshards, t0 + 420)
            run.extra["partT_seconds_summed_over_shards"] = round(time.time() - t0, 1)
        anchors.resume()
        if not ctx.stop():
            td = time.time()
            if thorough:
                part_d(ctx, rng_for(run.seed, "c07", "D", shard), shard, nshards, 400, td + 60, True)
            else:
                part_d(ctx, rng_for(run.seed, "c07", "D", shard), shard, nshards, 200, td + 14, False)
            run.extra["partD_seconds_summed_over_shards"] = round(time.time() - td, 1)
        anchors.resume()
        if not ctx.stop():
            if thorough:
                part_b(ctx, rng, 2000, t0 + 540, True)
            else:
                part_b(ctx, rng, 1500, t0 + 64, False)
    finally:
        anchors.stop(run)
        common.drop_scratch(ctx.scratch)
    run.extra["exhaustive_subspace"] = EXPLANATION


def _unjson(o):
    if isinstance(o, dict):
        if set(o) == {"__bytes__"}:
            return bytes.fromhex(o["__bytes__"])
        return {k: _unjson(v) for k, v in o.items()}
    if isinstance(o, list):
        return [_unjson(v) for v in o]
    return o


def replay(run, rec):
    """Re-execute exactly the recorded case: same declaration text, same definition mode, same operation."""
    w = rec["witness"]
    ctx = Ctx(run)
    ctx.scratch = common.scratch_dir("bvf_c07_replay_")
    try:
        d = decl_from_spec(w["decl"])
        op = _unjson(w["op"])
        kind = op["kind"]
        if kind in ("nest", "nest_define"):
            fam = family_from_spec(_unjson(w["family"]))
            print("replaying %s on\n%s" % (kind, NEST_HEADER + fam.src))
            try:
                define_family(ctx, fam)
                if kind == "nest":
                    op_nest(ctx, fam, op)
            except Exception as e:
                if kind == "nest_define":
                    run.violation("classes nesting a valid bit-run packet through Ref could not be defined",
                                  nest_witness(ctx, fam, op, raised=err_text(e)))
                else:
                    raise
            finally:
                undefine_family(fam)
            run.case(key="replay|" + fam.key(), nontrivial=True)
            if not run.violations:
                print("replay: the recorded case did not produce a violation on this tree")
            return
        print("replaying %s on\n%s" % (kind, HEADER + d.src))
        if kind == "define_bad":
            op_define_bad(ctx, d, op)
        elif kind == "define":
            define_batch(ctx, [d], w.get("define_mode") or "exec")
        else:
            got = define_batch(ctx, [d], w.get("define_mode") or "exec")
            if got:
                OPS[kind](ctx, d, op)
        run.case(key="replay|" + d.key(), nontrivial=True)
    finally:
        common.drop_scratch(ctx.scratch)
    if not run.violations:
        # a single case cannot satisfy the volume rules: main reports the replay as INCONCLUSIVE (never as held)
        print("replay: the recorded case did not produce a violation on this tree")
