"""C10  Positioning and alignment act identically when parsing and serializing.

Trace oracle: the same packet is observed while it is parsed (Recorder on unpack) and while it
is serialized (Recorder on pack).  The two event trees must have the same shape and every
field / pseudo field (Move) must begin and end at the same position relative to the start
(bit-field runs are compared as a whole: the run is read at its first member and written at its
last).  For every Move event the arithmetic is checked model-free when the argument is a
constant: alignment advances by the least amount in [0, to) that makes the position a multiple
of `to` relative to its reference point; at/shift land at reference + target.  The reference
model supplies the expected before/after of every move independently (field-valued and
callable targets).  Bytes skipped over must be '.' in the output.
"""
from .. import common, driver, harness, model, monitors, render
from ..common import rng_for, b2j

LEVEL = "exploration"
SHARDS = {"quick": 1, "thorough": 16}
REQUIRED = ("described_position_parses", "described_position_parses_with_stored_different_from_computed", "described_position_packs",
            "parse_pack_pairs_compared", "field_positions_compared", "moves_observed", "alignment_moves_checked",
            "at_moves_checked", "shift_moves_checked", "moves_ref_innermost", "moves_ref_begins", "moves_ref_current",
            "moves_in_nested_packets", "nonzero_start_offsets", "skipped_bytes_checked", "element_alignment_observed",
            "class_align_families", "model_moves_compared")
MIN_NONTRIVIAL = 150
RULE = {
    "quick": "~520 generated families biased to positioning (move on 45% of fields: at/shift/aligned x innermost-pkt/begins/current-offset x "
             "constant/field/callable targets; class align; repeated(aligned=); Em; nesting <= 3 so innermost and absolute positions differ) "
             "x 10 inputs x start offsets where relative positioning is well defined. Non-trivial = successful parse+serialize pair with at "
             "least one cursor move; distinct = (skeleton, offset class, multiset of (move kind, reference, advance mod alignment)).",
    "thorough": "16 shards x 2200 families x 12 inputs, nesting <= 4.",
}
ASSUMPTIONS = [
    "cursor offsets at field wrapper entry/exit (unpack: offset argument/return value; pack: fragments.current_offset) are the positions at which fields are read/written",
    "negative cursors and negative alignments are undefined and skipped; overlapping value trees (pack raises) are C01's business",
    "offset rule: declarations positioned relative to the start of the data are run only at offsets where relative and absolute positions agree",
]

VARIANTS = {"g": render.VARIANTS["g"], "d": {}}


def flatten(nodes, depth=0, out=None):
    """Pre-order list of (depth, cls, name, ftype, elem, enter, exit); consecutive Bits members merged."""
    if out is None:
        out = []
    i = 0
    while i < len(nodes):
        n = nodes[i]
        if n.ftype == "Bits":
            j = i
            while j + 1 < len(nodes) and nodes[j + 1].ftype == "Bits":
                j += 1
            out.append((depth, n.cls, "bits:" + n.name, "Bits", n.elem, n.enter, nodes[j].exit, None))
            i = j + 1
            continue
        out.append((depth, n.cls, n.name, n.ftype, n.elem, n.enter, n.exit, n))
        flatten(n.children, depth + 1, out)
        i += 1
    return out


def find_spec(fam, clsname, name):
    decl = fam["decls"][clsname.rsplit("_", 1)[0]]
    base = name[len("_shift_to_"):] if name.startswith("_shift_to_") else name
    if base.startswith("_described_"):      # a described field lives in a hidden slot of that name
        base = base[len("_described_"):]
    for f in decl["fields"]:
        if f["name"] == base:
            return decl, f
    return decl, None


def check_move_arith(run, fam, n, base_abs, witness, phase, sig, depth):
    """Model-free arithmetic of one observed Move node. base_abs: absolute position of 'begins'."""
    decl, f = find_spec(fam, n.cls, n.name)
    m = model.effective_move(f, decl["opts"]) if f else None
    if m is None or n.exit is None:
        return True
    run.count("moves_observed")
    ref = model.move_ref(m)
    run.count({"innermost-pkt": "moves_ref_innermost", "begins": "moves_ref_begins", "current-offset": "moves_ref_current"}[ref])
    if depth > 0:
        run.count("moves_in_nested_packets")
    before, after = n.enter, n.exit
    start = base_abs if ref == "begins" else (before if ref == "current-offset" else n.ipp)
    const = m["arg"]["form"] == "const"
    arg = m["arg"]["e"][1] if const else None
    wit = dict(witness, move={"field": n.name, "cls": n.cls, "phase": phase, "before": before, "after": after, "ipp": n.ipp,
                              "op": m["op"], "ref": ref, "arg": arg})
    if m["op"] == "aligned":
        if const:
            run.count("alignment_moves_checked")
            adv = after - before
            sig.add(("aligned", ref, adv % max(arg, 1)))
            if not (0 <= adv < arg) or (after - start) % arg != 0:
                run.violation("alignment did not advance by the least amount (< alignment) that makes the position a multiple of it (%s)" % phase, wit, None)
                return False
    else:
        if const:
            run.count("at_moves_checked" if m["op"] == "at" else "shift_moves_checked")
            sig.add((m["op"], ref))
            if after != start + arg:
                run.violation("%s did not place the cursor at reference + target (%s)" % (m["op"], phase), wit, None)
                return False
    return True


def one_case(run, bench, raw, off):
    fam = bench.fam
    st, mr = harness.model_parse(fam, raw, off)
    if st != "ok":
        run.count("input_not_valid_skipped")
        return
    witness = {"source": driver.src_of(bench), "raw": b2j(raw), "offset": off, "fam": fam}
    res, roots_u, slices, _ = bench.traced_unpack("g", raw, off)
    if res.status != "ok":
        run.count("library_rejects(C08 business)")
        return
    sig = set()
    fu = flatten(roots_u)
    # unpack-side move arithmetic + comparison with the model's moves
    ok = True
    obs_moves = []
    for (depth, cls, name, ftype, elem, enter, exit_, node) in fu:
        if ftype == "Move":
            obs_moves.append((cls.rsplit("_", 1)[0], name[len("_shift_to_"):].replace("_described_", "", 1), enter, exit_))
            if not check_move_arith(run, fam, node, 0, witness, "parsing", sig, depth):
                return
    want_moves = [(m["cls"], m["name"], m["before"], m["after"]) for m in mr.trace.moves]
    run.count("model_moves_compared", len(want_moves))
    if obs_moves != want_moves:
        run.violation("cursor moves while parsing differ from the declared positions (field-valued / callable targets included)",
                      dict(witness, observed=obs_moves, expected=want_moves), None)
        return
    # element alignment inside sequences (model-free)
    for (depth, cls, name, ftype, elem, enter, exit_, node) in fu:
        if ftype == "Sequence" and node is not None:
            decl, f = find_spec(fam, cls, name)
            a = f["rep"].get("aligned", decl["opts"].get("align", 1)) if f and "rep" in f else 1
            if a > 1:
                for e in node.children:
                    if e.elem:
                        run.count("element_alignment_observed")
                        if e.enter % a != 0:
                            run.violation("a sequence element is not aligned as declared while parsing",
                                          dict(witness, field=name, element_at=e.enter, aligned=a), None)
                            return
    pr, roots_p, _ = bench.traced_pack(res.pkt)
    if pr.status == "timeout":
        return
    if pr.status != "ok":
        if mr.trace.overlapping():
            run.count("overlapping_positions_skipped")
            return
        run.violation("serializing a parsed packet failed although no two fields overlap: %s" % str(pr.err)[:200], witness, None)
        return
    fp = flatten(roots_p)
    run.count("parse_pack_pairs_compared")
    if off:
        run.count("nonzero_start_offsets")
    if [x[:5] for x in fu] != [x[:5] for x in fp]:
        run.violation("the sequence of fields visited while serializing differs from the one visited while parsing",
                      dict(witness, parsing=[x[:5] for x in fu], serializing=[x[:5] for x in fp]), None)
        return
    for a, b in zip(fu, fp):
        run.count("field_positions_compared")
        if a[5] - off != b[5] or (a[6] is not None and a[6] - off != b[6]):
            run.violation("field %s of %s is read at %r..%r (relative to the start) but written at %r..%r" % (a[2], a[1], a[5] - off, (a[6] or 0) - off, b[5], b[6]),
                          dict(witness, parsing=[x[:7] for x in fu], serializing=[x[:7] for x in fp]), None)
            return
    for (depth, cls, name, ftype, elem, enter, exit_, node) in fp:
        if ftype == "Move":
            # on pack the data starts at 0; 'begins' is position 0 of the output, i.e. `off` of the input
            if not check_move_arith(run, fam, node, 0, witness, "serializing", sig, depth):
                return
    # skipped bytes are '.'
    consumed = set(p - off for p in mr.trace.consumed())
    out = pr.pkt
    for p in range(len(out)):
        if p not in consumed:
            run.count("skipped_bytes_checked")
            if out[p] != 0x2E:
                run.violation("a skipped byte is not filled with '.' when serializing", dict(witness, position=p, packed=b2j(out)), None)
                return
    # the generated variant must place everything identically (bytes)
    rd = harness.lib_unpack(bench.root("d"), raw, off)
    if rd.status == "timeout":
        return
    if rd.status != "ok":
        run.violation("generated variant fails to parse an input the generic variant places correctly: %s" % str(rd.err)[:160], witness, None)
        return
    if rd.end != res.end:
        run.violation("generated variant ends parsing at another position than the generic one", dict(witness, generic=res.end, generated=rd.end), None)
        return
    pd = harness.lib_pack(rd.pkt)
    if pd.status == "timeout":
        return
    if pd.status != "ok":
        run.violation("generated variant fails to serialize a packet the generic variant serializes: %s" % str(pd.err)[:160], witness, None)
        return
    run.count("generated_variant_compared")
    if pd.pkt != out:
        run.violation("generated variant serializes fields at other positions than the generic one",
                      dict(witness, generic=b2j(out), generated=b2j(pd.pkt)), None)
        return
    run.case(key=(bench.skeleton, min(off, 2), tuple(sorted(map(str, sig)))), nontrivial=bool(mr.trace.moves) or bool(sig))


DESCRIBED_POS_SRC = render.HEADER + """
class Rec%(V)s(Packet):
    __bisturi__ = %(O)r
    nlen = Int(1)
    off = Int(1).describe(Auto(lambda pkt: 2 + len(pkt.name)))
    name = Data(nlen)
    payload = Data(4).at(off)


class Box%(V)s(Packet):
    __bisturi__ = %(O)r
    pad = Data(3)
    recs = Ref(Rec%(V)s).repeated(2)
"""


def described_position_probe(run, rng):
    """A position given by a *described* field (docs: an offset field computed from the layout).  On input the field is placed
    where the value stored in the data says (decoded here from the bytes); on output where the attribute currently reads
    (for an automatic field: the computed value) - the same rule on both sides, relative to the same reference point."""
    d = common.scratch_dir("bvf_c10d_")
    try:
        for tag, opts in (("g", {"generate_for_pack": False, "generate_for_unpack": False}), ("d", {}), ("nv", {"vectorize": False})):
            src = DESCRIBED_POS_SRC % {"V": "_" + tag, "O": opts}
            module, path = render.load_source(src, d)
            Rec = getattr(module, "Rec_" + tag)
            Box = getattr(module, "Box_" + tag)
            for _ in range(40):
                n = rng.randrange(0, 4)
                name = bytes(rng.choice(b"abcdef") for _ in range(n))
                extra = rng.choice([0, 0, 1, 2, 5])              # stored offset = computed + extra (padding before the payload)
                stored = 2 + n + extra
                payload = bytes(rng.choice(b"WXYZ0123") for _ in range(4))
                rec = bytes([n, stored]) + name + b"~" * extra + payload
                w = {"source": src, "raw": b2j(rec), "stored_offset": stored, "computed_offset": 2 + n, "variant": tag}
                for cls, raw, base, get in ((Rec, rec, 0, lambda p: p), (Box, b"PAD" + rec + rec, 3, lambda p: p.recs[0])):
                    r = harness.lib_unpack(cls, raw)
                    if r.status == "timeout":
                        continue
                    if r.status != "ok":
                        run.violation("a record whose stored payload offset differs from the computed one does not parse: %s" % str(r.err)[:120],
                                      dict(w, nested=base > 0), None)
                        return
                    p = get(r.pkt)
                    run.count("described_position_parses")
                    if extra:
                        run.count("described_position_parses_with_stored_different_from_computed")
                    if p.payload != payload or p.name != name:
                        run.violation("on input a field positioned by a described field is not read where the value stored in the data says "
                                      "(relative to the start of its packet)", dict(w, nested=base > 0, got=b2j(p.payload), want=b2j(payload)), None)
                        return
                    pr = harness.lib_pack(r.pkt)
                    if pr.status == "timeout":
                        continue
                    if pr.status != "ok":
                        run.violation("pack() of such a record failed: %s" % str(pr.err)[:120], dict(w, nested=base > 0), None)
                        return
                    out = pr.pkt[base:]
                    visible = p.off
                    run.count("described_position_packs")
                    if out[1] != visible or out[visible:visible + 4] != payload or out[2:2 + n] != name:
                        run.violation("on output a field positioned by a described field is not written where that field currently reads "
                                      "(the position byte and the place of the payload disagree)",
                                      dict(w, nested=base > 0, packed=b2j(pr.pkt), attribute_reads=visible), None)
                        return
            import sys as _sys
            _sys.modules.pop(module.__name__, None)
    finally:
        common.drop_scratch(d)


def run(run):
    shard, nshards = run.shard
    rng = rng_for(run.seed, "c10", shard)
    if run.shard[0] == 0:
        described_position_probe(run, rng_for(run.seed, "c10-described-position"))
    else:
        for k in ("described_position_parses", "described_position_parses_with_stored_different_from_computed", "described_position_packs"):
            run.count(k)
    nfam = 520 if run.tier == "quick" else 2200
    ninputs = 10 if run.tier == "quick" else 12
    profile = {"p_describe": 0.06, "p_move": 0.45, "p_backward_at": 0.12, "p_class_align": 0.15, "p_rep": 0.2,
               "kinds": {"int": 36, "data": 22, "bits": 8, "ref": 20, "sel": 4, "em": 8}}
    if run.tier == "thorough":
        profile["max_depth"] = 4
    sampled = 0
    for bench in driver.families(run, rng, profile, VARIANTS, nfam, tag="c10"):
        fam = bench.fam
        if any("align" in d["opts"] for d in fam["decls"].values()):
            run.count("class_align_families")
        offs = driver.start_offsets(fam, rng)
        for j in range(ninputs):
            off = offs[j % len(offs)] if j >= 3 else 0
            raw, oc = model.generate_input(fam, rng, offset=off, maxlen=160)
            one_case(run, bench, raw, off)
            if sampled < 3 and oc == "ok" and any("move" in f for f in fam["decls"][fam["root"]]["fields"]):
                sampled += 1
                run.sample({"source": driver.src_of(bench), "raw": raw, "offset": off})
        if run.counters["violations"] > 30:
            break


def replay(run, rec):
    w = common.from_json(rec["witness"])
    d = common.scratch_dir("bvf_replay_")
    bench = harness.Bench(w["fam"], VARIANTS, d)
    bench.skeleton = "replay"
    one_case(run, bench, w["raw"], w.get("offset", 0))
