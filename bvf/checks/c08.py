"""C08  Repeated, optional and referenced fields follow their declared control semantics.

Oracles on every execution of the monitored all-generic variant:
  * reference model: values (lists, None-ness, nested packets, selected alternatives) and end
    offset; missing selector key / failing input must be a PacketError;
  * trace facts that need no model (Recorder + wrapped control callables):
      - element enter events of a repeated field == length of the resulting list,
      - with a count: len == max(count evaluated, 0); the count is evaluated once,
      - until-mode: the condition is evaluated exactly once per element, each time seeing a list
        one longer, false every time but the last, and the loop stops right after the first true,
      - a false when-condition: zero element events, cursor unchanged, [] / None,
      - an optional field: parsed iff its condition evaluated truthy,
      - continuity: every field enters where its predecessor left (a nested packet included),
      - pack of an absent optional / empty list inserts nothing.
The generated variant is compared with the model as well.
"""
from .. import common, driver, harness, model, monitors, render, workloads
from ..common import rng_for, b2j

LEVEL = "exploration"
SHARDS = {"quick": 1, "thorough": 16}
REQUIRED = ("families_with_a_shared_options_table", "families_whose_element_size_uses_the_running_index", "serialized_structures_compared", "earlier_packets_rechecked", "sequences_count_mode", "sequences_until_mode", "until_evaluations", "when_false_observed", "when_true_observed",
            "optional_present", "optional_absent", "refs_followed", "selected_field", "selected_packet", "selector_missing_key_errors",
            "continuity_edges", "count_zero_or_negative", "nested_in_sequence", "values_compared_with_model")
MIN_NONTRIVIAL = 150
RULE = {
    "quick": "~520 generated families biased to structure (repeated 40%, optional 22%, Ref/selector heavy; element kinds Int, Data in all "
             "modes, Ref, run-time selected; count as constant/field/expression/callable incl. 0 and negative; until over the list / over "
             "raw,offset; when; packets in sequences in packets) x 12 inputs (valid, truncated, corrupted). Non-trivial = execution with at "
             "least one structural event (element, optional decision, reference); distinct = (skeleton, outcome, structural event signature).",
    "thorough": "16 shards x 2200 families x 14 inputs, nesting <= 4.",
}
ASSUMPTIONS = [
    "the reference model is the meaning of the declared control semantics; trace facts are checked independently of it",
    "when a count and a when-condition are both given the order of their evaluation is not judged",
    "inputs on which the model is Undefined (runaway repetition, negative cursor) are skipped",
]

VARIANTS = {"g": render.VARIANTS["g"], "d": {}}


def field_spec(fam, clsname, name):
    decl = fam["decls"][clsname.rsplit("_", 1)[0]]
    for f in decl["fields"]:
        if f["name"] == name:
            return decl, f
    return decl, None


def check_tree(run, bench, nodes, witness, sig):
    """Model-free trace facts over the recorder tree of one successful unpack. Returns False on violation."""
    fam = bench.fam
    # continuity between siblings
    prev = None
    for n in nodes:
        if prev is not None and prev.exit is not None:
            run.count("continuity_edges")
            if n.enter != prev.exit:
                run.violation("a field does not start where its predecessor ended (parsing does not continue right after it)",
                              dict(witness, prev=[prev.cls, prev.name, prev.enter, prev.exit], next=[n.cls, n.name, n.enter]), None)
                return False
        prev = n
    for n in nodes:
        if n.ftype == "Sequence":
            decl, f = field_spec(fam, n.cls, n.name)
            elems = [c for c in n.children if c.elem]
            notes = n.notes or []
            untils = [d for k, d in notes if k == "until"]
            whens = [d for k, d in notes if k == "when"]
            counts = [d for k, d in notes if k == "count"]
            r = f["rep"]
            aligned = r.get("aligned", decl["opts"].get("align", 1))
            # element continuity with alignment
            cur = n.enter
            for e in elems:
                want = cur + (aligned - cur % aligned) % aligned
                if e.enter != want:
                    run.violation("a sequence element does not start at the (aligned) end of the previous one",
                                  dict(witness, field=n.name, element_enter=e.enter, expected=want), None)
                    return False
                cur = e.exit
            if elems and n.exit != cur:
                run.violation("cursor after a sequence is not the end of its last element", dict(witness, field=n.name), None)
                return False
            gated = bool(whens) and not whens[-1]["result"]
            if "when" in r and whens and not whens[-1]["result"]:
                run.count("when_false_observed")
                sig.add("seq-when-false")
                if elems or n.exit != n.enter:
                    run.violation("a repeated field with a false when-condition produced elements or consumed bytes",
                                  dict(witness, field=n.name, elements=len(elems), span=[n.enter, n.exit]), None)
                    return False
            elif "when" in r and whens:
                run.count("when_true_observed")
            if "count" in r:
                run.count("sequences_count_mode")
                if len(counts) != 1:
                    run.violation("the count of a repeated field was evaluated %d times" % len(counts), dict(witness, field=n.name), None)
                    return False
                c = counts[0]["result"]
                if isinstance(c, int) and c <= 0:
                    run.count("count_zero_or_negative")
                    sig.add("count<=0")
                skipped = "when" in r and ((isinstance(c, int) and c <= 0) or gated)
                want_n = 0 if skipped else max(int(c), 0)
                if len(elems) != want_n:
                    run.violation("a repeated field with count %r produced %d element events (expected max(count,0) = %d)" % (c, len(elems), want_n),
                                  dict(witness, field=n.name), None)
                    return False
                sig.add("count:%d" % min(want_n, 3))
            else:
                run.count("sequences_until_mode")
                if not gated or "when" not in r:
                    run.count("until_evaluations", len(untils))
                    if len(untils) != len(elems):
                        run.violation("until-condition evaluated %d times for %d elements (must be exactly once per element)" % (len(untils), len(elems)),
                                      dict(witness, field=n.name), None)
                        return False
                    for i, u in enumerate(untils):
                        if u["seen"] != i + 1:
                            run.violation("until-condition #%d saw a list of length %r (must see the list built so far: %d)" % (i + 1, u["seen"], i + 1),
                                          dict(witness, field=n.name), None)
                            return False
                        last = i == len(untils) - 1
                        if bool(u["result"]) != last:
                            run.violation("until loop did not stop right after the first true condition (evaluation %d of %d gave %r)" % (i + 1, len(untils), u["result"]),
                                          dict(witness, field=n.name), None)
                            return False
                    if len(elems) < 1:
                        run.violation("until-mode sequence produced no element", dict(witness, field=n.name), None)
                        return False
                    sig.add("until:%d" % min(len(elems), 3))
            for e in elems:
                if e.children:
                    run.count("nested_in_sequence")
                if not check_tree(run, bench, e.children, witness, sig):
                    return False
            continue
        if n.ftype == "Optional":
            whens = [d for k, d in (n.notes or []) if k == "when"]
            elems = [c for c in n.children if c.elem]
            if len(whens) != 1:
                run.violation("the condition of an optional field was evaluated %d times" % len(whens), dict(witness, field=n.name), None)
                return False
            if whens[0]["result"]:
                run.count("optional_present")
                sig.add("opt+")
                if len(elems) != 1:
                    run.violation("optional field with a true condition was not parsed", dict(witness, field=n.name), None)
                    return False
            else:
                run.count("optional_absent")
                sig.add("opt-")
                if elems or n.exit != n.enter:
                    run.violation("optional field with a false condition was parsed or consumed bytes",
                                  dict(witness, field=n.name, span=[n.enter, n.exit]), None)
                    return False
            for e in elems:
                if not check_tree(run, bench, e.children, witness, sig):
                    return False
            continue
        if n.ftype == "Ref":
            if n.children:
                run.count("refs_followed")
                sig.add("ref")
                kids = n.children
                if kids[0].enter != n.enter:
                    run.violation("a referenced packet is not parsed at the current position", dict(witness, field=n.name), None)
                    return False
                if kids[-1].exit is not None and kids[-1].exit != n.exit:
                    run.violation("parsing does not continue right after the referenced packet", dict(witness, field=n.name), None)
                    return False
                if not check_tree(run, bench, kids, witness, sig):
                    return False
    return True


def check_pack_emits_nothing(run, bench, pkt, witness, mr=None):
    r, roots, _ = bench.traced_pack(pkt)
    if r.status != "ok":
        return
    if mr is not None and not mr.trace.overlapping():
        est, er = harness.model_encode(bench.fam, mr.value)
        if est == "ok":
            run.count("serialized_structures_compared")
            if r.pkt != er.data:
                run.violation("serializing the parsed packet does not emit each present optional / element / referenced packet where declared "
                              "(and nothing for absent ones)", dict(witness, packed=b2j(r.pkt), reference=b2j(er.data)), None)
                return
    for n in monitors.walk(roots):
        if n.ftype == "Optional" and not n.children and n.exit != n.enter:
            run.violation("an absent optional field emitted bytes when serialized", dict(witness, field=n.name), None)
            return


def count_selected(run, fam, pv, sig):
    decl = fam["decls"][pv.decl]
    for f in decl["fields"]:
        if f["t"] == "em":
            continue
        v = pv.vals.get(f["name"])
        items = v if isinstance(v, list) else [v]
        for x in items:
            if f["t"] == "sel" and x is not None:
                if isinstance(x, model.PV):
                    run.count("selected_packet")
                    sig.add("sel-pkt")
                else:
                    run.count("selected_field")
                    sig.add("sel-field")
            if isinstance(x, model.PV):
                count_selected(run, fam, x, sig)


def one_input(run, bench, label, raw):
    fam = bench.fam
    st, mr = harness.model_parse(fam, raw, 0)
    if st == "undefined":
        run.count("model_undefined_skipped")
        return
    witness = {"source": driver.src_of(bench), "raw": b2j(raw), "input": label, "fam": fam}
    res, roots, slices, failnode = bench.traced_unpack("g", raw, 0)
    rd = harness.lib_unpack(bench.root("d"), raw, 0)
    sig = set()
    nontrivial = False
    for v, r in (("g", res), ("d", rd)):
        if r.status == "timeout":
            run.count("watchdog_skipped")
            continue
        if r.status == "exception":
            run.violation("unpack raised %s instead of PacketError" % r.etype, dict(witness, variant=v, error=repr(r.err)[:200]), None)
            continue
        if st == "fail":
            if mr.why.startswith("KeyError"):
                if r.status == "packeterror":
                    run.count("selector_missing_key_errors")
                    sig.add("sel-missing")
            if r.status == "ok":
                run.violation("the library accepts an input the declared semantics reject (%s)" % mr.why,
                              dict(witness, variant=v, model_path=mr.path), None)
            continue
        # model ok
        if r.status != "ok":
            run.violation("the library rejects an input that is valid under the declared semantics: %s" % str(r.err)[:160],
                          dict(witness, variant=v, model_value=mr.value.to_json()), None)
            continue
        try:
            pv = monitors.pkt_to_pv(fam, fam["root"], r.pkt)
        except monitors.Unreadable as e:
            run.violation("parsed packet unreadable: %s" % e, dict(witness, variant=v), None)
            continue
        run.count("values_compared_with_model")
        if pv != mr.value:
            run.violation("parsed values differ from the declared control semantics (lists / optionals / selected alternatives)",
                          dict(witness, variant=v, library=pv.to_json(), model=mr.value.to_json()), None)
            continue
        if r.end != mr.end:
            run.violation("end offset differs from the model: parsing did not continue/stop where declared",
                          dict(witness, variant=v, library_end=r.end, model_end=mr.end), None)
            continue
        if v == "g":
            count_selected(run, fam, mr.value, sig)
            if check_tree(run, bench, roots, witness, sig):
                check_pack_emits_nothing(run, bench, r.pkt, witness, mr)
            nontrivial = bool(sig)
        # packets parsed earlier with this class keep their own referenced / selected sub-packets and lists
        keep = bench.__dict__.setdefault("_earlier_%s" % v, [])
        for old_pkt, old_pv, old_raw in keep:
            run.count("earlier_packets_rechecked")
            try:
                now = monitors.pkt_to_pv(fam, fam["root"], old_pkt)
            except monitors.Unreadable:
                now = None
            if now != old_pv:
                run.violation("a packet parsed earlier changed when another input was parsed with the same class (a referenced / selected "
                              "sub-packet or list is shared between parses)",
                              dict(witness, variant=v, earlier_input=b2j(old_raw), earlier_values=old_pv.to_json(),
                                   earlier_values_now=now.to_json() if now else None), None)
                del keep[:]
                break
        keep.append((r.pkt, mr.value, raw))
        del keep[:-4]
        if v == "d":
            harness.lib_pack(r.pkt)      # (the monitored variant is serialized above: both variants alternate serializing and parsing)
    run.case(key=(bench.skeleton, st, tuple(sorted(sig))), nontrivial=nontrivial or bool(sig))


def run(run):
    shard, nshards = run.shard
    rng = rng_for(run.seed, "c08", shard)
    nfam = 520 if run.tier == "quick" else 2200
    ninputs = 12 if run.tier == "quick" else 14
    profile = {"allow_regex_nokeep_single": False, "p_rep": 0.40, "p_opt": 0.22, "p_move": 0.06,
               "kinds": {"int": 34, "data": 22, "bits": 6, "ref": 20, "sel": 16, "em": 2}}
    if run.tier == "thorough":
        profile["max_depth"] = 4
    sampled = 0
    import itertools
    from .. import predicates
    # two targeted populations: selectors sharing one options table (serialize, then parse again with the same class), and counted
    # sequences whose element size is the running index
    for bench in itertools.chain(driver.families(run, rng, profile, VARIANTS, nfam, tag="c08"),
                                 driver.families(run, rng, dict(profile, accept=predicates.shares_a_literal, min_fields=4,
                                                                kinds={"int": 30, "data": 14, "bits": 4, "ref": 8, "sel": 42, "em": 1}),
                                                 VARIANTS, max(10, nfam // 20), tag="c08s"),
                                 driver.families(run, rng, dict(profile, accept=predicates.element_size_uses_running_index, p_elem_index=0.6, p_rep=0.5),
                                                 VARIANTS, max(10, nfam // 20), tag="c08i")):
        fam = bench.fam
        if predicates.shares_a_literal(fam):
            run.count("families_with_a_shared_options_table")
        if predicates.element_size_uses_running_index(fam):
            run.count("families_whose_element_size_uses_the_running_index")
        for name, cls in bench.loaded.classes("g").items():
            monitors.instrument_controls(cls, bench.rec)
        for j in range(ninputs):
            raw, oc = model.generate_input(fam, rng, maxlen=140)
            one_input(run, bench, "generated-%s" % oc, raw)
            if j % 4 == 0 and len(raw) > 2:
                st, mr = harness.model_parse(fam, raw, 0)
                for label, t in workloads.corruptions(fam, rng, raw, mr if st == "ok" else None, n=3):
                    one_input(run, bench, label, t)
                k = rng.randrange(len(raw))
                one_input(run, bench, "cut@%d" % k, raw[:k])
            if sampled < 3 and oc == "ok" and len(raw) > 4:
                sampled += 1
                run.sample({"source": driver.src_of(bench), "raw": raw})
        if run.counters["violations"] > 30:
            break


def replay(run, rec):
    w = common.from_json(rec["witness"])
    d = common.scratch_dir("bvf_replay_")
    bench = harness.Bench(w["fam"], VARIANTS, d)
    bench.skeleton = "replay"
    for name, cls in bench.loaded.classes("g").items():
        monitors.instrument_controls(cls, bench.rec)
    one_input(run, bench, w.get("input", "?"), w["raw"])
