"""C13  Packets are independent and pack/unpack are observationally pure.

Part A  sequential histories.  Random histories over 3-6 live packets of related classes (the
        same declaration family in two class variants, nested classes shared through Ref,
        prototype instances with defaults, user default lists, selector defaults): construct /
        unpack / set leaf / append to list / set nested leaf / pack / repr.  Every live packet has
        a shadow value tree and a baseline pack() output; after EVERY operation every live
        packet is compared with its shadow (values and pack bytes, pack twice) and the object
        graphs of all live packets are scanned for shared mutable sub-objects (by id()).
Part B  controlled two-thread interleavings.  Two operations on distinct packets of one class
        are run in two threads whose field-wrapper entry points are scheduling points; the
        parent forces a chosen interleaving of those points (all interleavings when the number
        is small, a seeded sample otherwise).  Each thread's result must equal the sequential
        result.
Part B2 single-preemption sweeps at line granularity.  Thread 0 is suspended right before its k-th line
        inside the library (sys.monitoring LINE events on bisturi's and the generated modules' code
        objects); thread 1 then parses and serializes another packet of the class to completion; thread 0
        resumes.  k runs over every line of the run-time selection / expression evaluation code and a
        seeded sample of the other lines.  Deterministic: no timing is involved.
Part D  same-named live classes.  Two different declarations rendered under the same class names by two factory
        functions of one module (both alive); operations on their packets are interleaved and compared with what each
        declaration does when defined alone in a module of its own.
Part C  free-running threads with yield injection (sys.monitoring LINE events inside
        bisturi/*.py, setswitchinterval(1e-6)); each thread checks only its own packets against
        values computed sequentially beforehand.
"""
import os
import sys
import threading
import time

from .. import common, driver, harness, model, monitors, render
from ..common import rng_for, b2j

LEVEL = "exploration"
SHARDS = {"quick": 1, "thorough": 16}
REQUIRED = ("dropped_packets_with_forced_automatic_fields", "same_name_pairs_defined", "same_name_operations", "same_name_bystander_repacks", "single_preemption_schedules", "single_preemption_schedules_inside_run_time_selection_or_expression",
            "free_thread_declarations_with_a_shared_options_table", "pack_outputs_compared_with_reference_encoding", "bytearray_values_assigned", "history_operations", "bystander_comparisons", "alias_scans", "repeated_pack_checks", "ops_unpack", "ops_construct",
            "ops_set_leaf", "ops_list_append", "ops_set_nested", "ops_pack", "interleavings_executed", "thread_results_compared",
            "free_thread_operations", "context_switches_in_bisturi", "f2_probe_runs")
MIN_NONTRIVIAL = 100
RULE = {
    "quick": "Part A: ~300 histories of 14 operations over 3-6 live packets (families biased to shared sub-packet classes, prototype instances, "
             "default lists, selectors); Part B: 25 declarations x all interleavings when <= 70, else 40 sampled, of the field-entry points of "
             "two operations (unpack+pack each) on distinct packets; Part C: 8 threads x 6 declarations x 300 operations with yield injection. "
             "Non-trivial = history step with >= 2 live packets / a forced interleaving / a thread operation; distinct = (skeleton, operation kind, "
             "number of live packets) and distinct hook-point orders.",
    "thorough": "16 shards x (1200 histories of 20 operations; 60 declarations x <= 924 interleavings; 8 threads x 12 declarations x 1500 operations).",
}
ASSUMPTIONS = [
    "regex-delimited fields whose delimiter is not kept are left out of the random histories: known finding F2 (delimiter remembered on the shared field object) is exhibited by one deterministic probe",
    "thread schedules are forced at field-entry granularity and sampled below it (yield injection at line events)",
    "a watchdog expiry while forcing an interleaving makes the run inconclusive, never a violation",
]

VARIANTS = {"g": render.VARIANTS["g"], "d": {}}
PROFILE = {"p_describe": 0.15, "p_local_classes": 0.4, "allow_regex_nokeep_single": False, "allow_raw_callbacks": False, "p_default": 0.4, "p_instance_proto": 0.6,
           "p_rep": 0.28, "p_opt": 0.12, "p_move": 0.08, "p_backward_at": 0.0,
           "kinds": {"int": 30, "data": 22, "bits": 8, "ref": 22, "sel": 20, "em": 2}, "p_sel_all_packets": 0.6}


# ------------------------------------------------------------------------------------------ part A
class Live:
    def __init__(self, variant, pkt, pv):
        self.variant = variant
        self.pkt = pkt
        self.pv = pv
        self.baseline = None   # ("ok", bytes) | ("error",)
        self.recipe = []       # how this packet came to be, replayable on fresh classes: the isolation twin


def pack_outcome(pkt):
    r = harness.lib_pack(pkt)
    if r.status == "ok":
        return ("ok", r.pkt)
    if r.status == "timeout":
        return ("timeout",)
    return ("error", r.status)


def isolated_outcome(run, bench, lv):
    """The same packet built ALONE from freshly defined classes (another module: other class and field objects)
    by replaying its own recipe, then packed.  None when the recipe cannot be replayed."""
    d = common.scratch_dir("bvf_c13iso_")
    twin = None
    try:
        twin = harness.Bench(bench.fam, VARIANTS, d, instrument=(), local=bench.local)
        cls = twin.root(lv.variant)
        pkt = None
        for step in lv.recipe:
            if step[0] == "unpack":
                r = harness.lib_unpack(cls, step[1])
                if r.status != "ok":
                    return None
                pkt = r.pkt
            elif step[0] == "construct":
                kw = step[1]
                pkt = cls(**{k: monitors._real_val(twin.loaded, lv.variant, model.strip_described(bench.fam, model.copy_val(x)), "kwargs", None)
                             for k, x in kw.items()})
            elif step[0] == "set":
                obj = pkt
                for name in step[1][:-1]:
                    obj = getattr(obj, name)
                setattr(obj, step[1][-1], step[2])
            elif step[0] == "append":
                getattr(pkt, step[1]).append(step[2])
        run.count("isolation_twins_built")
        return pack_outcome(pkt) if pkt is not None else None
    except Exception:
        run.count("isolation_twin_failed")
        return None
    finally:
        if twin is not None:
            twin.close()
        common.drop_scratch(d)


def collect_ids(fam, declname, pkt, out, path):
    import bisturi.packet as bp
    decl = fam["decls"][declname]
    for f in decl["fields"]:
        if f["t"] == "em":
            continue
        try:
            v = getattr(pkt, f["name"])
        except AttributeError:
            continue
        items = [v]
        if isinstance(v, list):
            out.setdefault(id(v), []).append(path + f["name"])
            items = v
        for i, x in enumerate(items):
            if isinstance(x, bp.Packet):
                out.setdefault(id(x), []).append("%s%s[%d]" % (path, f["name"], i))
                sub = type(x).__name__.rsplit("_", 1)[0]
                if sub in fam["decls"]:
                    collect_ids(fam, sub, x, out, "%s%s[%d]." % (path, f["name"], i))


def check_all(run, bench, lives, history, acting):
    fam = bench.fam
    root = fam["root"]
    owners = {}
    for idx, lv in enumerate(lives):
        witness = {"source": driver.src_of(bench, lv.variant), "history": history, "packet": idx, "acting_packet": acting, "fam": fam}
        try:
            got = monitors.pkt_to_pv(fam, root, lv.pkt)
        except monitors.Unreadable as e:
            run.violation("a live packet became unreadable: %s" % e, witness, None)
            return False
        if idx != acting:
            run.count("bystander_comparisons")
        if got != lv.pv:
            who = "a bystander packet" if idx != acting else "the packet operated on"
            run.violation("%s holds values different from its shadow after the last operation" % who,
                          dict(witness, library=got.to_json(), shadow=lv.pv.to_json()), None)
            return False
        est, _er = harness.model_encode(fam, lv.pv)
        if est == "undefined":
            run.count("pack_skipped_model_undefined")
            lv.baseline = None
            continue
        out1 = pack_outcome(lv.pkt)
        out2 = pack_outcome(lv.pkt)
        run.count("repeated_pack_checks")
        if "timeout" in (out1[0], out2[0]):
            run.count("watchdog_skipped")
            lv.baseline = None
            continue
        if out1 != out2:
            run.violation("two consecutive pack() calls returned different results", dict(witness, first=out1, second=out2), None)
            return False
        # what this packet serializes to must not depend on what happened to OTHER packets before: when the output is not
        # the reference encoding of its values, the same packet is rebuilt alone from freshly defined classes
        run.count("pack_outputs_compared_with_reference_encoding")
        expected = ("ok", _er.data) if est == "ok" else ("error",)
        if (out1[0] == "ok") != (expected[0] == "ok") or (out1[0] == "ok" and out1[1] != expected[1]):
            iso = isolated_outcome(run, bench, lv) if lv.recipe else None
            if iso is not None and "timeout" not in iso and iso != out1:
                run.violation("what a packet serializes to depends on what was done with other packets before it: in this history pack() gives "
                              "one result, the same packet built alone from freshly defined classes gives another",
                              dict(witness, in_history=out1, alone=iso, reference=expected), None)
                return False
            run.count("pack_differs_from_reference_also_in_isolation(not judged here)")
        try:
            after = monitors.pkt_to_pv(fam, root, lv.pkt)
        except monitors.Unreadable as e:
            after = None
        if after != lv.pv:
            run.violation("pack() changed a visible field of the packet", dict(witness, before=lv.pv.to_json(),
                                                                                  after=after.to_json() if after else None), None)
            return False
        if lv.baseline is not None and idx != acting and out1 != lv.baseline and "timeout" not in (out1[0], lv.baseline[0]):
            run.violation("the pack() output of a bystander packet changed after an operation on another packet",
                          dict(witness, before=lv.baseline, after=out1), None)
            return False
        lv.baseline = out1
        ids = {}
        collect_ids(fam, root, lv.pkt, ids, "")
        for k, paths in ids.items():
            if len(paths) > 1:
                run.violation("one packet reaches the same mutable sub-object through two paths (%s)" % paths, witness, None)
                return False
            if k in owners and owners[k][0] != idx:
                run.violation("two live packets share a mutable sub-object: packet %d %s and packet %d %s" % (owners[k][0], owners[k][1], idx, paths[0]),
                              witness, None)
                return False
            owners[k] = (idx, paths[0])
    run.count("alias_scans")
    return True


def pick_leaf(fam, pv, rng, depth=0):
    """(path list, field spec) of a random int/data leaf reachable through plain fields."""
    decl = fam["decls"][pv.decl]
    cands = []
    for f in decl["fields"]:
        if f["t"] in ("int", "data", "bits") and "rep" not in f and "opt" not in f and "describe" not in f:
            cands.append(([f["name"]], f))
            if any(g.get("describe", {}).get("of") == f["name"] for g in decl["fields"]):
                cands.append(([f["name"]], f))      # tracked fields of automatic fields are picked more often
                cands.append(([f["name"]], f))
        elif f["t"] == "ref" and "rep" not in f and "opt" not in f and isinstance(pv.vals.get(f["name"]), model.PV) and depth < 2:
            sub = pick_leaf(fam, pv.vals[f["name"]], rng, depth + 1)
            if sub:
                cands.append(([f["name"]] + sub[0], sub[1]))
    return rng.choice(cands) if cands else None


def new_leaf_value(f, rng):
    if f.get("hint") and f["t"] in ("int", "bits"):
        # the field steers a size / count / position: keep it small (a 4 GiB shift is a resource limit, not a property)
        return rng.choice([0, 1, 2, 3])
    if f["t"] == "int":
        from ..spec import int_range
        lo, hi = int_range(f["n"], f.get("signed", False))
        return rng.choice([1, 2, 3, hi, max(lo, 0) + 5 if hi > 5 else hi])
    if f["t"] == "bits":
        return rng.randrange(1 << f["w"])
    if f["mode"] == "const":
        return bytes(rng.choice(b"mnopq") for _ in range(f["size"]))
    return bytes(rng.choice(b"mnopq") for _ in range(rng.randint(0, 3)))


def refresh_auto(fam, pv):
    """Described (AutoLength) fields are never assigned in these histories: they read as the current length of
    their tracked field, at every depth."""
    decl = fam["decls"][pv.decl]
    for f in decl["fields"]:
        v = pv.vals.get(f["name"])
        for x in (v if isinstance(v, list) else [v]):
            if isinstance(x, model.PV):
                refresh_auto(fam, x)
    for f in decl["fields"]:
        if "describe" in f:
            pv.vals[f["name"]] = len(pv.vals[f["describe"]["of"]])


def strip_described_keys(fam, declname, kw):
    decl = fam["decls"][declname]
    return {k: v for k, v in kw.items() if not any(f["name"] == k and "describe" in f for f in decl["fields"])}


def history_part(run, bench, rng, nops):
    fam = bench.fam
    root = fam["root"]
    donors = []
    for _ in range(12):
        raw, oc = model.generate_input(fam, rng, maxlen=100)
        st, mr = harness.model_parse(fam, raw, 0)
        if st == "ok":
            donors.append((raw, mr.value))
    lives = []
    history = []
    # packets that no longer exist must not matter either: a few packets get their automatic fields forced by hand and are dropped
    # before the history starts (later packets are likely to be allocated where they lived)
    described = [f for f in fam["decls"][root]["fields"] if "describe" in f]
    if described:
        import gc
        for v in ("g", "d"):
            ghosts = []
            for _i in range(8):
                try:
                    ghost = bench.root(v)()
                    for f in described:
                        setattr(ghost, f["name"], 9)
                    ghosts.append(ghost)
                except Exception:
                    pass
            ghost = None
            del ghosts[:]          # several freed slots of the right size: the packets of the history are likely to land in them
        gc.collect()
        run.count("dropped_packets_with_forced_automatic_fields")
        history.append(["(eight packets per variant built, their automatic fields forced to 9, dropped)"])
    list_fields = [f for f in fam["decls"][root]["fields"] if "rep" in f and f["t"] in ("int", "data")]
    # selectors with several packet alternatives: start with parses that select A, B, A (same class variant)
    forced = []
    for f in fam["decls"][root]["fields"]:
        if f["t"] == "sel" and sum(1 for o in f["options"].values() if o["t"] == "ref") >= 2:
            groups = {}
            for raw, pv in donors:
                key = pv.vals.get(f["key"])
                o = f["options"].get(str(key))
                if o is not None and o["t"] == "ref":
                    groups.setdefault(key, []).append((raw, pv))
            ks = sorted(groups)
            if len(ks) >= 2:
                vv = rng.choice(["g", "d"])
                forced = [(vv, rng.choice(groups[ks[0]])), (vv, rng.choice(groups[ks[1]])), (vv, rng.choice(groups[ks[0]]))]
                run.count("forced_aba_selector_parses")
            break
    for step in range(nops + len(forced)):
        ops = ["construct", "unpack"] if len(lives) < 3 else ["construct", "unpack", "set_leaf", "set_leaf", "list_append", "set_nested", "pack", "repr", "replace_unpack"]
        if len(lives) >= 6:
            ops = [o for o in ops if o not in ("construct", "unpack")]
        op = rng.choice(ops)
        acting = None
        v = rng.choice(["g", "d"])
        forced_donor = None
        if forced:
            v, forced_donor = forced.pop(0)
            op = "unpack"
        cls = bench.root(v)
        try:
            if op == "construct":
                if donors and rng.random() < 0.5:
                    raw, pv = rng.choice(donors)
                    keys = [k for k in pv.vals if rng.random() < 0.5]
                    kw = strip_described_keys(fam, root, {k: model.copy_val(pv.vals[k]) for k in keys})
                    keys = sorted(kw)
                    shadow = model.defaults(fam, root, overrides={k: model.copy_val(x) for k, x in kw.items()})
                    pkt = cls(**{k: monitors._real_val(bench.loaded, v, model.strip_described(fam, x), "kwargs", None) for k, x in kw.items()})
                    refresh_auto(fam, shadow)
                    history.append(["construct", v, sorted(keys)])
                    recipe = [("construct", {k: model.copy_val(x) for k, x in kw.items()})]
                else:
                    pkt = cls()
                    shadow = model.defaults(fam, root)
                    history.append(["construct", v, []])
                    recipe = [("construct", {})]
                lives.append(Live(v, pkt, shadow))
                lives[-1].recipe = recipe
                acting = len(lives) - 1
                run.count("ops_construct")
            elif op in ("unpack", "replace_unpack"):
                if not donors:
                    continue
                raw, pv = forced_donor if forced_donor is not None else rng.choice(donors)
                r = harness.lib_unpack(cls, raw)
                if r.status != "ok":
                    continue
                history.append([op, v, b2j(raw)])
                if op == "unpack" or not lives:
                    lives.append(Live(v, r.pkt, model.copy_val(pv)))
                    acting = len(lives) - 1
                else:
                    acting = rng.randrange(len(lives))
                    lives[acting] = Live(v, r.pkt, model.copy_val(pv))
                lives[acting].recipe = [("unpack", raw)]
                run.count("ops_unpack")
            elif op == "set_leaf" or op == "set_nested":
                acting = rng.randrange(len(lives))
                lv = lives[acting]
                leaf = pick_leaf(fam, lv.pv, rng)
                if not leaf or (op == "set_nested" and len(leaf[0]) < 2):
                    continue
                path, f = leaf
                val = new_leaf_value(f, rng)
                obj, sh = lv.pkt, lv.pv
                for name in path[:-1]:
                    obj = getattr(obj, name)
                    sh = sh.vals[name]
                given = val
                if isinstance(val, bytes) and rng.random() < 0.3:
                    given = bytearray(val)      # a mutable byte string handed to this packet only
                    run.count("bytearray_values_assigned")
                setattr(obj, path[-1], given)
                lv.recipe.append(("set", list(path), bytearray(val) if isinstance(given, bytearray) else val))
                sh.vals[path[-1]] = val
                refresh_auto(fam, lv.pv)
                history.append([op, acting, path, val if not isinstance(val, bytes) else b2j(val)])
                run.count("ops_set_nested" if len(path) > 1 else "ops_set_leaf")
            elif op == "list_append":
                if not list_fields:
                    continue
                acting = rng.randrange(len(lives))
                lv = lives[acting]
                f = rng.choice(list_fields)
                val = 7 if f["t"] == "int" else (b"\x00" * f["size"] if f.get("mode") == "const" else b"zz")
                getattr(lv.pkt, f["name"]).append(val)
                lv.recipe.append(("append", f["name"], val))
                lv.pv.vals[f["name"]].append(val)
                history.append(["list_append", acting, f["name"]])
                run.count("ops_list_append")
            elif op == "pack":
                acting = rng.randrange(len(lives))
                pack_outcome(lives[acting].pkt)
                history.append(["pack", acting])
                run.count("ops_pack")
            elif op == "repr":
                acting = rng.randrange(len(lives))
                repr(lives[acting].pkt)
                history.append(["repr", acting])
        except harness.CaseTimeout:
            continue
        run.count("history_operations")
        run.case(key=(bench.skeleton, op, len(lives)), nontrivial=len(lives) >= 2)
        if step == nops - 1 and len(run.samples) < 2 and len(lives) >= 3:
            run.sample({"part": "A", "source": driver.src_of(bench, "g"), "history": list(history)})
        if not check_all(run, bench, lives, history, acting):
            return False
    return True


# ------------------------------------------------------------------------------------------ part B
class Scheduler:
    """Forces an interleaving of field-entry hook points of two threads."""

    def __init__(self, order, timeout=90.0):
        self.order = list(order)      # e.g. [0, 1, 1, 0, ...] thread ids, one per hook point
        self.pos = 0
        self.cv = threading.Condition()
        self.timeout = timeout
        self.broken = False
        self.observed = []
        self.ids = {}

    def register(self, tid):
        self.ids[threading.get_ident()] = tid

    def point(self, phase, cls, name):
        tid = self.ids.get(threading.get_ident())
        if tid is None:
            return
        with self.cv:
            deadline = time.time() + self.timeout
            while not self.broken and self.pos < len(self.order) and self.order[self.pos] != tid:
                left = deadline - time.time()
                if left <= 0:
                    self.broken = True
                    self.cv.notify_all()
                    break
                self.cv.wait(left)
            if not self.broken and self.pos < len(self.order):
                self.pos += 1
            self.observed.append((tid, phase, name))
            self.cv.notify_all()

    def finished(self, tid):
        """A thread that ends early (exception) must not block the other one."""
        with self.cv:
            self.order = [t for i, t in enumerate(self.order) if i < self.pos or t != tid]
            self.cv.notify_all()


def sequential_result(fam, cls, raw):
    r = harness.lib_unpack(cls, raw)
    if r.status != "ok":
        return None
    try:
        pv = monitors.pkt_to_pv(fam, fam["root"], r.pkt)
    except monitors.Unreadable:
        return None
    return (pv, r.end, pack_outcome(r.pkt))


def thread_op(fam, cls, raw, rec, out, idx):
    rec.start()
    try:
        r = cls.unpack(raw)
        pv = monitors.pkt_to_pv(fam, fam["root"], r)
        p = r.pack()
        out[idx] = (pv, None, ("ok", p))
    except BaseException as e:
        out[idx] = ("raised", type(e).__name__, str(e)[:200])
    finally:
        rec.stop()


def count_points(bench, raw):
    n = [0]
    rec = bench.rec
    rec.on_enter = lambda *a: n.__setitem__(0, n[0] + 1)
    out = {}
    thread_op(bench.fam, bench.root("g"), raw, rec, out, 0)
    rec.on_enter = None
    return n[0], out[0]


def interleavings(k0, k1, rng, limit):
    import itertools
    import math
    total = math.comb(k0 + k1, k0)
    if total <= limit:
        for ones in itertools.combinations(range(k0 + k1), k1):
            s = set(ones)
            yield [1 if i in s else 0 for i in range(k0 + k1)]
        return
    seen = set()
    # always include the two sequential orders and the perfect alternation
    base = [[0] * k0 + [1] * k1, [1] * k1 + [0] * k0]
    alt = []
    a, b = k0, k1
    while a or b:
        if a:
            alt.append(0)
            a -= 1
        if b:
            alt.append(1)
            b -= 1
    base.append(alt)
    for o in base:
        seen.add(tuple(o))
        yield o
    while len(seen) < limit:
        o = [0] * k0 + [1] * k1
        rng.shuffle(o)
        if tuple(o) not in seen:
            seen.add(tuple(o))
            yield o


def controlled_part(run, bench, rng, limit):
    fam = bench.fam
    cls = bench.root("g")
    inputs = []
    for _ in range(16):
        raw, oc = model.generate_input(fam, rng, maxlen=60)
        if oc == "ok":
            seq = sequential_result(fam, cls, raw)
            if seq is not None and seq[2][0] == "ok":
                inputs.append((raw, seq))
        if len(inputs) >= 2:
            break
    if len(inputs) < 2 or inputs[0][0] == inputs[1][0]:
        return
    (raw0, seq0), (raw1, seq1) = inputs[0], inputs[1]
    k0, r0 = count_points(bench, raw0)
    k1, r1 = count_points(bench, raw1)
    if k0 == 0 or k1 == 0 or k0 + k1 > 40:
        return
    for order in interleavings(k0, k1, rng, limit):
        sched = Scheduler(order)
        bench.rec.on_enter = sched.point
        out = {}

        def body(idx, raw):
            sched.register(idx)
            try:
                thread_op(fam, cls, raw, bench.rec, out, idx)
            finally:
                sched.finished(idx)
        t0 = threading.Thread(target=body, args=(0, raw0))
        t1 = threading.Thread(target=body, args=(1, raw1))
        t0.start()
        t1.start()
        t0.join(240)
        t1.join(240)
        bench.rec.on_enter = None
        if sched.broken or t0.is_alive() or t1.is_alive():
            run.count("interleaving_watchdog")
            run.inconclusive_because("interleaving-watchdog")
            return
        run.count("interleavings_executed")
        key = common.stable_hash([list(x) for x in sched.observed])
        if len(run.samples) < 4 and len(set(order)) > 1 and order != sorted(order):
            run.sample({"part": "B", "source": driver.src_of(bench), "inputs": [raw0, raw1], "forced_order_of_threads": order,
                        "observed_hook_points": [list(x) for x in sched.observed[:30]]})
        run.cover("distinct_hook_orders", key)
        run.case(key="B:" + key, nontrivial=True)
        for idx, (raw, seq) in enumerate(((raw0, seq0), (raw1, seq1))):
            run.count("thread_results_compared")
            got = out.get(idx)
            want = (seq[0], None, seq[2])
            if got != want:
                run.violation("under a forced two-thread interleaving a packet parsed/serialized differently from the sequential result",
                              {"source": driver.src_of(bench), "inputs": [b2j(raw0), b2j(raw1)], "thread": idx, "schedule": order,
                               "observed_points": sched.observed[:60],
                               "got": got[0].to_json() if isinstance(got, tuple) and isinstance(got[0], model.PV) else repr(got)[:300],
                               "want": seq[0].to_json(), "got_bytes": got[2] if isinstance(got, tuple) and len(got) > 2 else None,
                               "want_bytes": seq[2], "fam": fam}, None)
                return


# ------------------------------------------------------------------------------------------ part B2
def hot_codes():
    """Code that works on objects reachable from several packets of a class (the run-time selection of a Ref, the
    deferred-expression evaluator), looked up by name: a tree that organises this code differently simply has fewer
    hot sites (the REQUIRED counters then tell that the sweep did not reach them)."""
    import bisturi.deferred as bd
    import bisturi.field as bfld
    out = set()
    for owner, name in ((bd, "exec_compiled_expr"), (getattr(bfld, "Ref", None), "_unpack_using_callable"),
                        (getattr(bfld, "Ref", None), "_pack_with_callable")):
        fn = getattr(owner, name, None)
        code = getattr(getattr(fn, "__func__", fn), "__code__", None)
        if code is not None:
            out.add(code)
    return out


def bisturi_codes():
    """Code objects of the library and of the generated modules loaded right now."""
    import types
    out = []
    for name, mod in list(sys.modules.items()):
        f = getattr(mod, "__file__", None) or ""
        if not (name.startswith("bisturi") or "__pkts__" in f):
            continue
        for obj in list(vars(mod).values()):
            if isinstance(obj, types.FunctionType):
                out.append(obj.__code__)
            elif isinstance(obj, type):
                for o in vars(obj).values():
                    fn = getattr(o, "__func__", o)
                    if isinstance(fn, types.FunctionType):
                        out.append(fn.__code__)
    return out


class Preempter:
    """Single-preemption schedules at line granularity: thread 0 runs its operation; when it is about to execute its
    k-th line inside the library it is suspended, thread 1 runs a whole operation on another packet of the class, then
    thread 0 resumes.  Deterministic (no timing involved): k enumerates the preemption points."""
    TOOL = 3

    def __init__(self, codes):
        self.codes = codes
        self.k = None
        self.n = 0
        self.victim = None
        self.other = None          # callable run in the second thread
        self.where = None
        self.timed_out = False

    def cb(self, code, line):
        if threading.get_ident() != self.victim:
            return
        i = self.n
        self.n += 1
        if self.k is not None and i == self.k:
            self.where = (code.co_name, line)
            t = threading.Thread(target=self.other)
            t.start()
            t.join(120)
            if t.is_alive():
                self.timed_out = True

    def __enter__(self):
        mon = sys.monitoring
        try:
            mon.use_tool_id(self.TOOL, "bvf-preempt")
        except ValueError:
            mon.free_tool_id(self.TOOL)
            mon.use_tool_id(self.TOOL, "bvf-preempt")
        mon.register_callback(self.TOOL, mon.events.LINE, self.cb)
        for c in self.codes:
            mon.set_local_events(self.TOOL, c, mon.events.LINE)
        return self

    def __exit__(self, *a):
        mon = sys.monitoring
        for c in self.codes:
            try:
                mon.set_local_events(self.TOOL, c, 0)
            except Exception:
                pass
        mon.register_callback(self.TOOL, mon.events.LINE, None)
        mon.free_tool_id(self.TOOL)
        return False


def plain_op(fam, cls, raw, out, idx):
    try:
        r = cls.unpack(raw)
        pv = monitors.pkt_to_pv(fam, fam["root"], r)
        out[idx] = (pv, None, ("ok", r.pack()))
    except BaseException as e:
        out[idx] = ("raised", type(e).__name__, str(e)[:200])


def shares_a_literal(fam):
    """Some declaration of the family has two selectors bound to one options table that holds literal fields."""
    return any("share" in f and any(o["t"] != "ref" for o in f["options"].values()) for d in fam["decls"].values() for f in d["fields"])


def preemption_sweep(run, bench, rng, cap):
    fam = bench.fam
    v = rng.choice(["g", "d"])
    cls = bench.root(v)
    inputs = []
    for _ in range(16):
        raw, oc = model.generate_input(fam, rng, maxlen=60)
        if oc == "ok":
            seq = sequential_result(fam, cls, raw)
            if seq is not None and seq[2][0] == "ok" and all(raw != r for r, _ in inputs):
                inputs.append((raw, seq))
        if len(inputs) >= 2:
            break
    if len(inputs) < 2:
        return
    (raw0, seq0), (raw1, seq1) = inputs
    import bisturi.field as bfld
    import bisturi.deferred as bd
    hot = hot_codes()
    with Preempter(bisturi_codes()) as pre:
        # dry run: how many line events does thread 0's operation produce, and which of them are in the hot functions
        hits = []
        real_cb = pre.cb

        def counting(code, line):
            if threading.get_ident() == pre.victim:
                hits.append(code in hot)
        sys.monitoring.register_callback(pre.TOOL, sys.monitoring.events.LINE, counting)
        out = {}
        t = threading.Thread(target=lambda: (setattr(pre, "victim", threading.get_ident()), plain_op(fam, cls, raw0, out, 0)))
        t.start()
        t.join(120)
        sys.monitoring.register_callback(pre.TOOL, sys.monitoring.events.LINE, real_cb)
        n = len(hits)
        if n == 0 or out.get(0) != (seq0[0], None, seq0[2]):
            return
        ks = [i for i, h in enumerate(hits) if h]
        rest = [i for i in range(n) if not hits[i]]
        rng.shuffle(rest)
        ks = (ks + rest)[:cap]
        run.count("preemption_points_available", n)
        for k in ks:
            out = {}
            pre.k, pre.n, pre.where, pre.timed_out = k, 0, None, False
            # the other thread works on a different packet: alternately one parsed from other bytes and one parsed from the same bytes
            # (the same run-time selections, hence the same literal field objects)
            other_raw, other_seq = ((raw1, seq1), (raw0, seq0))[(ks.index(k)) % 2]
            pre.other = lambda: plain_op(fam, cls, other_raw, out, 1)

            def body():
                pre.victim = threading.get_ident()
                plain_op(fam, cls, raw0, out, 0)
            t = threading.Thread(target=body)
            t.start()
            t.join(240)
            pre.victim = None
            if t.is_alive() or pre.timed_out:
                run.count("preemption_watchdog")
                run.inconclusive_because("preemption-watchdog")
                return
            if pre.where is None:
                run.count("preemption_point_not_reached")
                continue
            run.count("single_preemption_schedules")
            if hits[k]:
                run.count("single_preemption_schedules_inside_run_time_selection_or_expression")
            run.cover("preemption_sites", "%s:%d" % pre.where)
            run.case(key=("B2", bench.skeleton, pre.where), nontrivial=True)
            for idx, seq in ((0, seq0), (1, other_seq)):
                got = out.get(idx)
                if got != (seq[0], None, seq[2]):
                    run.violation("with one preemption (thread 0 suspended at a line inside the library while thread 1 parses and serializes "
                                  "another packet of the class) a packet came out different from the sequential result",
                                  {"source": driver.src_of(bench, v), "variant": v, "inputs": [b2j(raw0), b2j(other_raw)], "disturbed_thread": idx,
                                   "preempted_at": {"function": pre.where[0], "line": pre.where[1], "line_event_index": k},
                                   "got": got[0].to_json() if isinstance(got, tuple) and isinstance(got[0], model.PV) else repr(got)[:300],
                                   "want": seq[0].to_json(), "got_bytes": got[2] if isinstance(got, tuple) and len(got) > 2 else None,
                                   "want_bytes": seq[2], "fam": fam}, None)
                    return


# ------------------------------------------------------------------------------------------ part C
class YieldInjector:
    """sys.monitoring LINE callback restricted to bisturi code objects: sleeps(0) with
    probability p and counts context switches observed inside bisturi frames."""
    TOOL = 4

    def __init__(self, p, seed, p_hot=0.5):
        self.p = p
        self.p_hot = p_hot      # inside the deferred-expression evaluator (shared by all packets of a class)
        self.hot = set()
        self.seed = seed
        self.tls = threading.local()
        self.last = None
        self.switches = 0
        self.lines = 0
        self.codes = []

    def _codes(self):
        import types
        import bisturi
        out = []
        for name, mod in list(sys.modules.items()):
            f = getattr(mod, "__file__", None) or ""
            if not (name.startswith("bisturi") or "__pkts__" in f):
                continue
            for obj in list(vars(mod).values()):
                if isinstance(obj, types.FunctionType):
                    out.append(obj.__code__)
                elif isinstance(obj, type):
                    for o in vars(obj).values():
                        fn = getattr(o, "__func__", o)
                        if isinstance(fn, types.FunctionType):
                            out.append(fn.__code__)
        return out

    def cb(self, code, line):
        import random
        t = threading.get_ident()
        self.lines += 1
        if self.last is not None and self.last != t:
            self.switches += 1
        self.last = t
        r = getattr(self.tls, "r", None)
        if r is None:
            r = self.tls.r = random.Random(self.seed * 1000003 + (t % 100003))
        if r.random() < (self.p_hot if code in self.hot else self.p):
            time.sleep(0)

    def __enter__(self):
        mon = sys.monitoring
        try:
            mon.use_tool_id(self.TOOL, "bvf-yield")
        except ValueError:
            mon.free_tool_id(self.TOOL)
            mon.use_tool_id(self.TOOL, "bvf-yield")
        mon.register_callback(self.TOOL, mon.events.LINE, self.cb)
        self.codes = self._codes()
        import bisturi.deferred as bd
        import bisturi.field as bfld
        # code shared by all packets of a class that works on objects reachable from several packets: the deferred
        # expression evaluator and the run-time selection of a Ref (its callable may return one literal field object
        # to every packet, and to several Ref fields when they share an options table)
        self.hot = hot_codes()
        for c in self.codes:
            mon.set_local_events(self.TOOL, c, mon.events.LINE)
        self.old = sys.getswitchinterval()
        sys.setswitchinterval(1e-6)
        return self

    def __exit__(self, *a):
        mon = sys.monitoring
        sys.setswitchinterval(self.old)
        for c in self.codes:
            try:
                mon.set_local_events(self.TOOL, c, 0)
            except Exception:
                pass
        mon.register_callback(self.TOOL, mon.events.LINE, None)
        mon.free_tool_id(self.TOOL)
        return False


def free_part(run, benches, rng, nthreads, nops):
    work = []   # (bench, variant, raw, expected)
    for bench in benches:
        fam = bench.fam
        for v in ("g", "d"):
            cls = bench.root(v)
            for _ in range(6):
                raw, oc = model.generate_input(fam, rng, maxlen=80)
                seq = sequential_result(fam, cls, raw)
                if seq is not None and seq[2][0] == "ok":
                    work.append((bench, v, raw, seq, pack_outcome(cls())))
    if len(work) < 4:
        return
    errors = []
    done = [0] * nthreads

    import bisturi.packet as bp

    def body(tid):
        import random
        r = random.Random(run.seed * 7919 + tid)
        for i in range(nops):
            bench, v, raw, seq, default_outcome = r.choice(work)
            cls = bench.root(v)
            try:
                p = cls.unpack(raw)
                pv = monitors.pkt_to_pv(bench.fam, bench.fam["root"], p)
                b1 = p.pack()
                b2 = p.pack()
                if pv != seq[0] or b1 != seq[2][1] or b2 != b1:
                    errors.append({"source": driver.src_of(bench, v), "raw": b2j(raw), "thread": tid, "got": pv.to_json(),
                                   "want": seq[0].to_json(), "got_bytes": [b2j(b1), b2j(b2)], "want_bytes": b2j(seq[2][1])})
                    return
                # a constructed packet of the same class, mutated and packed, must not be disturbed either
                q = cls()
                try:
                    got_default = ("ok", q.pack())
                except bp.PacketError:
                    got_default = ("error", "packeterror")
                if got_default != default_outcome and "timeout" not in default_outcome:
                    errors.append({"source": driver.src_of(bench, v), "thread": tid, "default_packet_pack": repr(got_default)[:200],
                                   "sequential": repr(default_outcome)[:200]})
                    return
            except BaseException as e:
                errors.append({"source": driver.src_of(bench, v), "raw": b2j(raw), "thread": tid,
                               "raised": "%s: %s" % (type(e).__name__, str(e)[:200])})
                return
            done[tid] += 1
    with YieldInjector(0.02, run.seed) as yi:
        threads = [threading.Thread(target=body, args=(t,)) for t in range(nthreads)]
        for t in threads:
            t.start()
        for t in threads:
            t.join(600)
        alive = any(t.is_alive() for t in threads)
    run.count("free_thread_operations", sum(done))
    run.count("context_switches_in_bisturi", yi.switches)
    run.count("line_events_in_bisturi", yi.lines)
    run.extra["free_threads"] = nthreads
    if alive:
        run.inconclusive_because("free-running-threads-watchdog")
    for e in errors[:3]:
        run.violation("a packet parsed/serialized in one thread was disturbed while other threads used the same class", e, None)
    for i in range(min(sum(done), 50)):
        run.case(key="C:%d" % i, nontrivial=True, n=0)


# ------------------------------------------------------------------------------------------ part D
def same_name_part(run, rng, npairs, nops):
    """Two different declarations whose classes carry the SAME names, defined by two factory functions of one module and
    both alive (a class factory, a test module that builds variants): operations on packets of one must not change
    packets of the other.  Expected results come from each declaration defined alone in a module of its own."""
    from .. import spec
    prof = dict(PROFILE, p_local_classes=0.0, max_depth=2, max_fields=5, p_describe=0.1)
    d = common.scratch_dir("bvf_c13d_")
    try:
        for _ in range(npairs):
            fams = [spec.gen_family(rng, prof), spec.gen_family(rng, prof)]
            alone = []
            try:
                for fam in fams:
                    alone.append(harness.Bench(fam, VARIANTS, d, instrument=(), local=True))
            except Exception:
                for b in alone:
                    b.close()
                run.count("same_name_pairs_not_definable")
                continue
            work = []       # (which, variant, raw, expected)
            for which, (fam, b) in enumerate(zip(fams, alone)):
                for v in ("g", "d"):
                    for _i in range(5):
                        raw, oc = model.generate_input(fam, rng, maxlen=60)
                        seq = sequential_result(fam, b.root(v), raw)
                        if seq is not None and seq[2][0] == "ok":
                            work.append((which, v, raw, seq))
            for b in alone:
                b.close()
            if len(set(w[0] for w in work)) < 2:
                continue
            parts = []
            for tag, fam in zip("ab", fams):
                src = render.family_src(fam, VARIANTS, local=True)
                src = src.replace("def _make_classes():", "def _make_%s():" % tag).replace("globals().update(_make_classes())", "%s = _make_%s()" % (tag.upper(), tag))
                parts.append(src)
            shared_src = "\n".join(parts)
            try:
                module, path = render.load_source(shared_src, d)
            except Exception as e:
                run.violation("two same-named declarations cannot be defined by two factories of one module: %s: %s" % (type(e).__name__, str(e)[:120]),
                              {"source": shared_src}, None)
                continue
            run.count("same_name_pairs_defined")
            tables = (module.A, module.B)
            for t in tables:
                for c in t.values():
                    if isinstance(c, type):
                        harness.track_end(c)
            kept = []
            bad = False
            for step in range(nops):
                which, v, raw, seq = rng.choice(work)
                fam = fams[which]
                cls = tables[which]["%s_%s" % (fam["root"], v)]
                r = harness.lib_unpack(cls, raw)
                got = None
                if r.status == "timeout":
                    run.count("watchdog_skipped")
                    continue
                if r.status == "ok":
                    try:
                        got = (monitors.pkt_to_pv(fam, fam["root"], r.pkt), r.end, pack_outcome(r.pkt))
                    except monitors.Unreadable as e:
                        got = ("unreadable", str(e))
                else:
                    got = (r.status, getattr(r, "etype", None))
                run.count("same_name_operations")
                run.case(key=("D", step % 7, which), nontrivial=True)
                if got != seq:
                    run.violation("a packet of one class is parsed / serialized differently once a different class of the same name (another factory "
                                  "of the same module) is alive",
                                  {"source": shared_src, "class": "%s_%s of factory %s" % (fam["root"], v, "AB"[which]), "raw": b2j(raw), "step": step,
                                   "got": got[0].to_json() if isinstance(got[0], model.PV) else repr(got)[:300], "want": seq[0].to_json(),
                                   "got_bytes": got[2] if len(got) > 2 else None, "want_bytes": seq[2]}, None)
                    bad = True
                    break
                kept.append((r.pkt, seq[2]))
                if len(kept) > 6:
                    kept.pop(0)
                for pkt, want in kept[:-1]:
                    run.count("same_name_bystander_repacks")
                    out = pack_outcome(pkt)
                    if out != want and "timeout" not in out:
                        run.violation("a packet parsed earlier serializes differently after packets of a same-named class were used",
                                      {"source": shared_src, "before": want, "after": out, "step": step}, None)
                        bad = True
                        break
                if bad:
                    break
            sys.modules.pop(module.__name__, None)
            if run.counters["violations"] > 20:
                return
    finally:
        common.drop_scratch(d)


# ------------------------------------------------------------------------------------------ probes / run
def f2_probe(run):
    d = common.scratch_dir("bvf_c13p_")
    src = render.HEADER + ("class LineQ(Packet):\n    line = Data(until_marker=re.compile(b'\\r?\\n'))\n    tail = Int(1)\n")
    module, path = render.load_source(src, d)
    run.count("f2_probe_runs")
    p1 = module.LineQ.unpack(b"ab\r\n\x01")
    before = p1.pack()
    module.LineQ.unpack(b"cd\n\x02")
    after = p1.pack()
    if before != after:
        mech = "regex-delimiter-remembered-on-field" if (before, after) == (b"ab\r\n\x01", b"ab\n\x01") else None
        run.violation("parsing one packet changes the pack() output of another packet of the class",
                      {"source": src, "steps": "p1 = LineQ.unpack(b'ab\\r\\n\\x01'); p1.pack(); LineQ.unpack(b'cd\\n\\x02'); p1.pack()",
                       "before": b2j(before), "after": b2j(after)}, mech)
    common.drop_scratch(d)


def run(run):
    shard, nshards = run.shard
    rng = rng_for(run.seed, "c13", shard)
    quick = run.tier == "quick"
    if shard == 0:
        f2_probe(run)
    else:
        run.count("f2_probe_runs")
    # Part A
    nhist, nops = (300, 14) if quick else (1200, 20)
    for bench in driver.families(run, rng, PROFILE, VARIANTS, nhist, instrument=(), tag="c13a"):
        history_part(run, bench, rng, nops)
        if run.counters["violations"] > 20:
            return
    # Part B
    ndecl, limit = (25, 70) if quick else (60, 924)
    profB = dict(PROFILE, max_fields=4, max_depth=2)
    for bench in driver.families(run, rng, profB, {"g": render.VARIANTS["g"]}, ndecl, instrument=("g",), tag="c13b"):
        controlled_part(run, bench, rng, limit)
        if run.counters["violations"] > 20:
            return
    # Part B2: single-preemption sweeps at line granularity (half of the declarations with shared options tables)
    shared = dict(PROFILE, kinds={"int": 30, "data": 14, "bits": 4, "ref": 8, "sel": 42, "em": 1}, p_share_table=0.9, max_depth=2, p_rep=0.12, p_opt=0.06,
                  p_sel_all_packets=0.1, min_fields=4, accept=shares_a_literal)
    nsweep, cap = (24, 40) if quick else (60, 400)
    for prof, n in ((dict(PROFILE, max_fields=5, max_depth=2), nsweep // 2), (dict(shared, min_fields=4, max_fields=6), nsweep // 2)):
        for bench in driver.families(run, rng, prof, VARIANTS, n, instrument=(), tag="c13b2"):
            preemption_sweep(run, bench, rng, cap)
            if run.counters["violations"] > 20:
                return
    # Part D: same-named live classes of two factories
    same_name_part(run, rng, 30 if quick else 120, 24 if quick else 60)
    if run.counters["violations"] > 20:
        return
    # Part C
    nb, nops = (6, 300) if quick else (12, 1500)
    benches = []
    # the classes stay importable (sys.modules) while the threads run: prototype cloning unpickles by module name
    # a third of the declarations: several selectors sharing one options table (one literal field object bound by several Ref fields)
    k = nb - nb // 3
    g1 = driver.families(run, rng, PROFILE, VARIANTS, nb + 1, instrument=(), tag="c13c", keep_loaded=True)
    g2 = driver.families(run, rng, dict(shared, min_fields=4), VARIANTS, 60 * nb, instrument=(), tag="c13cs", keep_loaded=True)
    try:
        for bench in g1:
            benches.append(bench)
            if len(benches) >= k:
                break
        for bench in g2:
            # from the second population keep only declarations that really share a table
            if not any("share" in f for d in bench.fam["decls"].values() for f in d["fields"]):
                bench.close()
                continue
            run.count("free_thread_declarations_with_a_shared_options_table")
            benches.append(bench)
            if len(benches) >= nb:
                break
        free_part(run, benches, rng, 8, nops)
    finally:
        for b in benches:
            b.close()
        g1.close()
        g2.close()
    run.extra["distinct_interleavings"] = len(run.coverage_sets.get("distinct_hook_orders", ()))
