"""C05  Integer fields encode and decode exact two's-complement values.

Enumeration of Int configurations, decided by plain arithmetic.

Configuration = width n  x  signed  x  endianness spelling of the field {None, big, little,
network, local}  x  class-level default __bisturi__['endianness'] {unset, little, big, network,
local}.  Every configuration is declared (real source file in a scratch directory, exactly as a
user writes it) in three layouts

    one    x = Int(n, ...)                                   (one-field packet)
    multi  pad = Int(1); x = Int(n, ...); tail = Int(2)      (vectorised struct run for n in 1,2,4,8,
                                                              generic loop otherwise)
    rep    x = Int(n, ...).repeated(2)                       (sequence element, fixed count)
    opt    flag = Int(1); x = Int(n, ...).when(flag)         (optional field; flag != 0 present, flag 0 absent)
    unt    x = Int(n, ...).repeated(until=lambda pkt, **k: len(pkt.x) >= 2)   (sequence element, until condition)
    ref    k = Int(1); x = Ref(lambda pkt, **k2: Int(n, ..., endianness=<explicit>), default=0)
                                                             (run-time selected field; bisturi compiles a selector-
                                                              returned field with an EMPTY configuration, so only
                                                              configurations with an explicit endianness are declared
                                                              this way and class defaults are never judged through it)

one/multi/rep under the three code-generation option sets (all generic / default / vectorize off), the
wrapped layouts under the default options (opt also all-generic in thorough); classes are defined once per
configuration and shared by all inputs.  The class-level default byte order must be honoured by an Int
wrapped in .when(...) / .repeated(...) exactly as by a plain field.

Oracle (written from the statement, never calls int.from_bytes/int.to_bytes/struct):
    unsigned value = sum b_k * 256^k over the bytes in the declared order,
    signed value   = unsigned - 2^(8n) when the top bit is set,
    encode         = the inverse; outside [lo, hi] or a non-int  =>  pack() raises PacketError.
The oracle's decode and encode are checked against each other on every pattern (a disagreement is
a harness error -> inconclusive, never a verdict).

HISTORY part.  Rejection must not depend on what went through the field before.  On every class, sequences of
operations through the SAME class / field object are executed step by step (see history_pre / history_late):
    equal     pack integer v (== oracle bytes), then pack a non-integer that compares equal to v and has the same
              hash (float(v), -0.0 after 0, Fraction(v), Decimal(v), complex(v, 0))           -> PacketError
    same      the same on ONE packet object (x = v, pack, x = float(v), pack -> PacketError, x = v, pack == bytes)
    reverse   the non-integer first (-> PacketError), then the integer (== oracle bytes), then the non-integer again
    overwrite unpack the bytes of v, repack (== bytes), overwrite x with the equal non-integer      -> PacketError
    modular   pack v, then v + 2^(8n) / v - 2^(8n) (same bytes modulo the width), -1 <-> 2^(8n)-1   -> PacketError
    stale     a non-integer equal to a boundary value the main part packed long before on that class -> PacketError
For the sequence layouts the value is an element of the list (either position).  A fresh class (nothing packed yet)
is used for the first five, so a recorded sequence replays exactly.

DYN part (run first).  The integer field under test does not exist in the class body: it is produced at RUN TIME, per
packet, by the callable of a Ref, and its width, signedness and byte order are selected by earlier fields of the same
packet.  The check decodes the selector bytes itself and judges every operation by the configuration selected for
THAT packet (same oracle: exact two's-complement arithmetic, exact bytes, PacketError).  Variants (dyn_make_spec):
    sel      s = Int(1); x = Ref(lambda pkt, **k: Int(W[pkt.s & 7], signed=bool(pkt.s & 8), endianness=O[(pkt.s >> 4) & 7]), default=0)
    flds     w, g, e = Int(1) each; x = Ref(lambda pkt, **k: Int(pkt.w, signed=bool(pkt.g), endianness='little' if pkt.e else 'big'), default=0)
    keep     like sel through a named function that records id() of every Int it builds and keeps some of them alive
    chooses  key = Int(1); x = Ref(key.chooses({k: Int(<literal configuration>), ...}), default=0)
    table    T = {k: Int(...), ...};  x = Ref(lambda pkt, **k: T[pkt.key], default=0)
    mixed    x = Ref(lambda pkt, **k: T[pkt.key] if pkt.key in T else Int(<from the bits of key>), default=0)
    table2   two Ref fields x, y sharing the literals of one table (one through a lambda, one through chooses)
each under the code-generation option sets and class defaults of dyn_plan, with and without a fixed field behind x
(a wrong width shifts it).  Through the ONE class of a variant a HISTORY of 2000 (thorough 3000) operations runs:
unpack / pack (constructor, attributes, one re-used packet object) / re-pack of parsed packets that were kept alive /
out-of-range and non-integer rejections / truncations, the selector changing from operation to operation (random, a
neighbour in exactly one of width / sign / byte order, back to the previous one, the same again), interleaved with
gc.collect() and with dropping the kept packets, so that field objects die, their ids are recycled, and others stay
alive.  A run-time selected Int WITHOUT its own byte order: bisturi compiles it with an empty configuration, i.e. big;
where the class has no (or a big-endian) default every reading gives big and it is judged; under a little-endian class
default the statement does not say whether the default reaches such a field: both byte orders are accepted and counted
(dyn_unfixed_order_*), width, sign, rejection and "re-pack gives the parsed bytes back" are judged all the same.
A failing history is cut down to its shortest tail that fails on a freshly defined class (the witness replays).
"""
import ast
import os
import re
import sys
import time
from decimal import Decimal
from fractions import Fraction

from .. import common, render
from ..common import rng_for

LEVEL = "exploration"
SHARDS = {"quick": 1, "thorough": 16}
EXHAUSTIVE = {"quick": True, "thorough": True}
MIN_NONTRIVIAL = 50
REQUIRED = (
    "unpack_checked", "pack_checked", "boundary_values_packed",
    "range_rejections", "nonint_rejections", "truncated_rejections",
    "struct_path_classes", "loop_path_classes",
    "generated_code_classes", "generic_code_classes", "vectorised_struct_runs",
    "class_default_configs", "oracle_selfchecks",
    "layout_opt_checked", "layout_unt_checked", "layout_ref_checked", "opt_absent_checked",
    "opt_class_default_little_checked", "unt_class_default_little_checked",
    # history part (rejection independent of what was packed / parsed before through the same field)
    "hist_sequences", "hist_equal_nonint_rejections", "hist_float_rejections", "hist_fraction_rejections",
    "hist_decimal_rejections", "hist_complex_rejections", "hist_negzero_rejections",
    "hist_same_packet_rejections", "hist_nonint_first_rejections", "hist_int_after_nonint_packed",
    "hist_int_repacked_after_rejection", "hist_seq_element_rejections", "hist_unpack_overwrite_rejections",
    "hist_modular_rejections", "hist_stale_rejections",
    "hist_loop_path_rejections", "hist_struct_path_rejections",
    "hist_generic_code_rejections", "hist_generated_code_rejections",
    "hist_signed_rejections", "hist_unsigned_rejections", "hist_big_rejections", "hist_little_rejections",
    "hist_full_classes", "hist_lean_classes",
    # dyn part (integer field produced at run time by the callable of a Ref, configuration selected per packet)
    "dyn_classes", "dyn_fresh_int_classes", "dyn_chooses_classes", "dyn_table_classes", "dyn_mixed_classes",
    "dyn_generated_code_classes", "dyn_generic_code_classes",
    "dyn_unpack_checked", "dyn_pack_checked", "dyn_range_rejections", "dyn_nonint_rejections", "dyn_truncated_rejections",
    "dyn_config_switches", "dyn_width_switches", "dyn_sign_switches", "dyn_order_switches",
    "dyn_single_dimension_switches", "dyn_struct_loop_path_switches", "dyn_same_config_again",
    "dyn_gc_collections", "dyn_held_packets", "dyn_held_packets_repacked", "dyn_held_packets_dropped",
    "dyn_fresh_fields_built", "dyn_fresh_field_ids_recycled", "dyn_fresh_fields_alive_at_the_end",
    "dyn_explicit_order_operations", "dyn_no_order_no_little_default_operations", "dyn_unfixed_order_operations",
)
RULE = {
    "quick": "widths 1..9 and 16 x signed/unsigned x 13 byte-order configurations (field endianness None under the 5 class "
             "defaults; big/little/network/local with the class default unset and with a contrary class default), each declared "
             "as 8-9 classes: one field under the 3 code-generation option sets; pad=Int(1),x,tail=Int(2) under default and "
             "vectorize-off options; x.repeated(2); flag=Int(1),x=<Int>.when(flag); x=<Int>.repeated(until=len>=2); and, only for "
             "configurations with an explicit endianness, k=Int(1),x=Ref(lambda: <Int>, default=0) (a selector-returned field is "
             "compiled with an empty configuration, so class defaults are not judged through Ref). Inputs: n=1 all 256 patterns on "
             "every class (exhaustive sub-space); n>=2 every byte lane x 256 values over backgrounds 00/ff/55/seeded random, 64 "
             "seeded random patterns, and 16 boundary patterns (boundaries on every class; lane/random groups on one class per "
             "layout for n=2, on one plain + one wrapped class for n in 3,4, on one class above, rotated so that every class - in "
             "particular the optional layout of every configuration - gets at least two lane groups). Each decoded pattern is "
             "packed back from the oracle's value. Optional layout: flag 0 must give None, consume and emit nothing. "
             "Per class: representable boundary values through the constructor (packed, decoded back, also at an offset with "
             "trailing bytes); out-of-range integers (lo-1, hi+1, +-2^(8n), wrap candidates, huge), non-integers (1.5, '1', None, "
             "b'\\x01'; None is 'absent' for the optional layout) and truncations - the complete sets (every cut, every short "
             "offset) on the classes of one byte-order configuration per width and signedness (big and little alternate with "
             "the width; rejection does not depend on the byte order), a rotating selection (lo-1 or hi+1, one more candidate or "
             "a non-integer, two cuts) on all other classes, because each PacketError "
             "costs the library 0.5-4 ms. HISTORY part (rejection must not depend on what went through the same field before): "
             "on every class, first thing after its definition, step-by-step sequences through the one class / field object: "
             "'equal' = pack integer v (== oracle bytes) then a non-integer that compares equal to v and hashes like it -> "
             "PacketError; 'same' = the same on one packet object, then v again (== oracle bytes); 'reverse' = the non-integer "
             "first (PacketError), then v (== oracle bytes), then the non-integer again; 'overwrite' = unpack the bytes of v, "
             "(every other class: re-pack,) overwrite x with the equal non-integer -> PacketError, v again == bytes; 'modular' = "
             "pack v then v+2^(8n), v-2^(8n), and -1 <-> 2^(8n)-1 (same bytes modulo the width) -> PacketError; and after the "
             "main part used the class: 'stale' = a non-integer equal to a boundary value packed long before. Non-integer kinds: "
             "float(v), -0.0 (v=0), Fraction(v), Decimal(v), complex(v,0); v from seeded pools of distinct values (top-three-"
             "bytes, below 2^53, small; full-width seeded values for Fraction/Decimal, e.g. not a float for n>=8); in the sequence "
             "layouts the value is a list element (position alternates). The full classes run equal x 5 kinds, same, reverse, "
             "overwrite (rotating kind), modular (3 rejections), two stale and one late equal history, plus two observed-only "
             "ones (objects with __index__ / with only __eq__ and __hash__); every other class runs one of the 30 (scenario, "
             "kind) combinations, rotating. One evaluation = one (class, input) operation. distinct non-trivial = distinct (class, "
             "pattern group) pairs; a group (one lane x 256 values, the boundary set, ...) always contains patterns whose "
             "big/little and signed/unsigned readings differ, so a wrong order, sign or width cannot pass a group. "
             "DYN part (run first): 35 classes (7 variants x 5 option/class-default/tail combinations) whose integer field is "
             "produced at run time by the callable of a Ref - a new Int per call with width (8 seeded widths per class, or the "
             "value of a width field 1..33), signedness and byte order (big/little/network/local/none) selected by selector "
             "fields of the packet; Ref(key.chooses({k: Int(...)})) with 16 literal configurations; Ref(lambda: TABLE[pkt.key]); "
             "table or fresh Int depending on the key; two Ref fields sharing one table; a named function that keeps some of "
             "its Ints alive and records their id(). Through each class one seeded history of 2000 operations: 50% unpack "
             "(15% of the packets kept alive), 40% pack (constructor / attributes / one re-used packet object), 3% re-pack of "
             "a kept packet, 2.5% rejection (out-of-range for the configuration selected for that packet, or a non-integer), "
             "1% truncation, 1% dropping the kept packets, 4 gc.collect(); the selector of the next operation is random "
             "(35%), differs in exactly one of width/sign/byte order (25%), goes back to the previous one (20%) or stays "
             "(20%). Every operation is judged by the configuration the check decodes from the selector bytes of that packet; "
             "an Int without byte order under a little-endian class default is accepted in either order (counted). distinct "
             "non-trivial here = (class, block of 100 history steps).",
    "thorough": "as quick with widths 1..33, all 25 (field endianness x class default) combinations for n<=16 (the 13 of quick "
                "above), all 9 plain layout x option-set classes plus opt (default and all-generic), unt and ref, and for n<=2 "
                "ALL byte patterns (256 / 65536) on every class of every configuration (exhaustive sub-space: decode of every "
                "pattern and encode of every representable value for n<=2). Lane/random groups on all classes for n in 3,4, on "
                "one class per layout for n in 5..9 and 16, on one rotating class otherwise. Sharded by (width, configuration). "
                "DYN part: 210 classes (7 variants x 3 option sets x 5 class defaults x with/without a tail field), widths 1..33, "
                "tables of 16-32 literals, one history of 3000 operations each; sharded by class.",
}
ASSUMPTIONS = [
    "the arithmetic oracle (sum b_k*256^k in the declared order, minus 2^(8n) when the top bit is set; inverse for encode) is "
    "the meaning of 'two's-complement value'",
    "'network' means big-endian, 'local' means sys.byteorder of the machine running the check (little here: a 'local' "
    "implemented as constant little-endian is indistinguishable on this machine), no spelling and no class default means big-endian "
    "(docs/reference/03_int_field.md)",
    "an explicit field endianness takes precedence over the class-level default",
    "bool is an int: True/False are not treated as non-integers (what they pack to is counted, not judged)",
    "a value of type float, fractions.Fraction, decimal.Decimal or complex is a non-integer even when it is numerically "
    "integral (7.0, -0.0, Fraction(7), Decimal(7), 7+0j): 'a non-integer raises PacketError' is read by type, and it must hold "
    "whatever was packed or parsed through the field before (the unchanged library rejects all of them on the struct and on "
    "the arbitrary-width path)",
    "objects of user classes that merely compare equal to an int - with __index__ (struct accepts them, the arbitrary-width "
    "path does not) or with nothing but __eq__/__hash__ - are observed and counted (hist_observed_*), not judged",
    "history sequences run on the class object of the run: 'pre' histories on the still unused class (a replay on a freshly "
    "defined class is the same execution), 'stale' histories rely on boundary values packed by the main part (a replay "
    "packs them first)",
    "a truncated input (fewer than n bytes left) that makes unpack raise something other than PacketError is counted, not "
    "judged here (C12); only a successful decode of fewer than n bytes is a C05 violation",
    "a field returned by a Ref selector is compiled by bisturi with an empty configuration: the class-level default is not "
    "expected to reach it, so the ref layout is only declared with an explicit endianness",
    "optional layout: any non-zero flag means present; None assigned to the optional field means absent (not a non-integer)",
    "dyn part: an Int returned by the callable of a Ref must behave exactly as declared in that call (width, signedness, "
    "byte order), whatever the same Ref returned for other packets before; the callable may build a new Int on every call "
    "or return the same literal again (bisturi/field.py, Ref docstring and _unpack_using_callable)",
    "dyn part: an Int returned by a Ref callable without a byte order of its own is big-endian when the class has no "
    "default or a big-endian one (judged); under a little-endian class default the statement does not fix whether the "
    "default reaches a field that is not part of the class body (the unchanged library compiles it with an empty "
    "configuration, i.e. big): decode and encode are accepted in either order and counted (dyn_unfixed_order_*), but "
    "re-packing a parsed packet must give back the parsed bytes in any case",
    "dyn part: the history of a class runs on one class object in one process; the witness of a violation is the shortest "
    "tail of the history that fails on a freshly defined class (reproduced_on_a_fresh_class), else the whole prefix",
    "exhaustive=true refers to the sub-space n=1 (quick) / n<=2 (thorough) of the tier's configurations only; "
    "wider widths are lane- and boundary-sampled",
]

SPELLINGS = (None, "big", "little", "network", "local")
CLASS_DEFAULTS = (None, "little", "big", "network", "local")
LAYOUTS = ("one", "multi", "rep", "opt", "unt", "ref")
SEQ_LAYOUTS = ("rep", "unt")
WRAPPED_OPTS = {"opt": ("def", "gen"), "unt": ("def",), "ref": ("def",)}   # option sets of the wrapped layouts
OPTSETS = (
    ("gen", {"generate_for_pack": False, "generate_for_unpack": False}),
    ("def", {}),
    ("nov", {"vectorize": False}),
)
NONINTS = (1.5, "1", None, b"\x01")
HEADER = "from bisturi.packet import Packet\nfrom bisturi.field import Int, Ref\n\n"
MAX_VIOLATIONS = 25

POW = [256 ** k for k in range(80)]


# ---------------------------------------------------------------------------------------------
# oracle
# ---------------------------------------------------------------------------------------------
def resolve_order(spelling, class_default):
    eff = spelling if spelling is not None else (class_default if class_default is not None else "big")
    if eff in ("big", "network"):
        return "big"
    if eff == "little":
        return "little"
    if eff == "local":
        return sys.byteorder
    raise ValueError(eff)


def decode(p, order, signed):
    n = len(p)
    total = 0
    if order == "big":
        for k in range(n):
            total += p[n - 1 - k] * POW[k]
        top = p[0]
    else:
        for k in range(n):
            total += p[k] * POW[k]
        top = p[n - 1]
    if signed and top & 0x80:
        total -= POW[n]
    return total


def bounds(n, signed):
    if signed:
        return -(POW[n] // 2), POW[n] // 2 - 1
    return 0, POW[n] - 1


def encode(v, n, order, signed):
    lo, hi = bounds(n, signed)
    if not (lo <= v <= hi):
        return None
    if v < 0:
        v += POW[n]
    digits = []
    for _ in range(n):
        v, r = divmod(v, 256)
        digits.append(r)
    if order == "big":
        digits.reverse()
    return bytes(digits)


# ---------------------------------------------------------------------------------------------
# configurations, classes
# ---------------------------------------------------------------------------------------------
def contrary(spelling):
    order = resolve_order(spelling, None)
    return "little" if order == "big" else "big"


def order_configs(tier, n=1):
    if tier == "thorough" and n <= 16:
        return [(sp, cd) for sp in SPELLINGS for cd in CLASS_DEFAULTS]
    out = [(None, cd) for cd in CLASS_DEFAULTS]
    for sp in SPELLINGS[1:]:
        out.append((sp, None))
        out.append((sp, contrary(sp)))
    return out


def widths(tier):
    return list(range(1, 34)) if tier == "thorough" else [1, 2, 3, 4, 5, 6, 7, 8, 9, 16]


def _cap(s):
    return "None" if s is None else s.capitalize()


class ClsRec(object):
    __slots__ = ("name", "src", "cls", "inst", "n", "signed", "spelling", "cd", "layout", "opt",
                 "order", "corder", "bad", "modname", "path", "full", "salt")

    def config(self):
        return {"width": self.n, "signed": self.signed, "endianness": self.spelling, "class_default": self.cd,
                "layout": self.layout, "options": self.opt, "resolved_order": self.order}


def int_src(n, signed, spelling):
    args = [str(n)]
    if signed:
        args.append("signed=True")
    if spelling is not None:
        args.append("endianness=%r" % spelling)
    return "Int(%s)" % ", ".join(args)


def class_src(name, n, signed, spelling, cd, layout, optname, optdict):
    conf = dict(optdict)
    if cd is not None:
        conf["endianness"] = cd
    lines = ["class %s(Packet):" % name]
    if conf or layout != "one":
        lines.append("    __bisturi__ = %r" % (conf,))
    field = int_src(n, signed, spelling)
    if layout == "one":
        lines.append("    x = %s" % field)
    elif layout == "multi":
        lines.append("    pad = Int(1)")
        lines.append("    x = %s" % field)
        lines.append("    tail = Int(2)")
    elif layout == "rep":
        lines.append("    x = %s.repeated(2)" % field)
    elif layout == "opt":
        lines.append("    flag = Int(1)")
        lines.append("    x = %s.when(flag)" % field)
    elif layout == "unt":
        lines.append("    x = %s.repeated(until=lambda pkt, **k: len(pkt.x) >= 2)" % field)
    elif layout == "ref":
        assert spelling is not None
        lines.append("    k = Int(1)")
        lines.append("    x = Ref(lambda pkt, **k2: %s, default=0)" % field)
    else:
        raise ValueError(layout)
    return "\n".join(lines) + "\n"


QUICK_CLASSES = (("one", "gen"), ("one", "def"), ("one", "nov"), ("multi", "def"), ("multi", "nov"), ("rep", "def"),
                 ("opt", "def"), ("unt", "def"), ("ref", "def"))


def make_records(n, signed, spelling, cd, tier):
    recs = []
    for layout in LAYOUTS:
        for optname, optdict in OPTSETS:
            if tier != "thorough" and (layout, optname) not in QUICK_CLASSES:
                continue
            if layout in WRAPPED_OPTS and optname not in WRAPPED_OPTS[layout]:
                continue
            if layout == "ref" and spelling is None:
                continue      # a selector-returned Int never sees the class configuration (by design of bisturi)
            r = ClsRec()
            r.name = "I%d%s_e%s_c%s_%s_%s" % (n, "s" if signed else "u", _cap(spelling), _cap(cd), layout, optname)
            r.src = class_src(r.name, n, signed, spelling, cd, layout, optname, optdict)
            r.n, r.signed, r.spelling, r.cd, r.layout, r.opt = n, signed, spelling, cd, layout, optname
            r.order = resolve_order(spelling, cd)
            r.corder = resolve_order(None, cd)
            r.cls = r.inst = None
            r.bad = False
            r.path = "struct" if n in (1, 2, 4, 8) else "loop"
            r.full, r.salt = False, 0
            recs.append(r)
    return recs


# ---------------------------------------------------------------------------------------------
# generic (slow) executor: used for the low-volume cases, to confirm hot-loop failures and by replay
# ---------------------------------------------------------------------------------------------
def perform(cls, op):
    """Execute one operation on the real class.  Returns (status, what, got) with status in
    'ok' | 'violation' | 'unjudged'."""
    status, what, got = _perform(cls, op)
    if what and op.get("note"):
        what = "%s (%s)" % (what, op["note"])
    return status, what, got


def _perform(cls, op):
    from bisturi.packet import PacketError
    kind = op["kind"]
    if kind in ("unpack", "truncated"):
        raw = op["raw"]
        offset = op.get("offset", 0)
        try:
            pkt = cls.unpack(raw, offset)
        except PacketError as e:
            if kind == "truncated":
                return "ok", None, "PacketError"
            return "violation", "unpack of a complete input raised PacketError", "PacketError: %s" % str(e.original_error_message)[:120]
        except Exception as e:
            if kind == "truncated":
                return "unjudged", "truncated input raised %s instead of PacketError" % type(e).__name__, repr(e)[:120]
            return "violation", "unpack of a complete input raised %s" % type(e).__name__, repr(e)[:120]
        got = {}
        for f in op["fields"]:
            try:
                got[f] = getattr(pkt, f)
            except Exception as e:
                got[f] = "<%s>" % type(e).__name__
        if kind == "truncated":
            return "violation", "input with fewer bytes than the field width was decoded instead of raising PacketError", repr(got)
        expect = op["expect"]
        for f in op["fields"]:
            if got[f] != expect[f]:
                return "violation", "decoded value differs from the two's-complement value of the bytes (field %s)" % f, repr(got)
        return "ok", None, repr(got)
    if kind in ("pack", "pack_reject"):
        assign = op["assign"]
        try:
            if op.get("via") == "attr":
                pkt = cls()
                for k, v in assign.items():
                    setattr(pkt, k, v)
            else:
                pkt = cls(**assign)
        except Exception as e:
            return "unjudged", "could not build the packet: %s" % type(e).__name__, repr(e)[:120]
        try:
            out = pkt.pack()
        except PacketError as e:
            if kind == "pack_reject":
                return "ok", None, "PacketError"
            return "violation", "pack of a representable value raised PacketError", "PacketError: %s" % str(e.original_error_message)[:120]
        except Exception as e:
            if kind == "pack_reject":
                return "violation", "pack of an unrepresentable value raised %s rather than PacketError" % type(e).__name__, repr(e)[:120]
            return "violation", "pack of a representable value raised %s" % type(e).__name__, repr(e)[:120]
        if kind == "pack_reject":
            return "violation", "pack of an unrepresentable value returned bytes (wrapped/truncated/padded) instead of raising PacketError", out.hex()
        if out != op["expect_bytes"]:
            return "violation", "packed bytes differ from the two's-complement encoding", out.hex()
        return "ok", None, out.hex()
    raise ValueError(kind)


def op_to_witness(op):
    """JSON form of an operation (values as Python literals so that huge ints, None, bytes, floats survive)."""
    w = {"kind": op["kind"]}
    if "raw" in op:
        w["raw_hex"] = op["raw"].hex()
        w["offset"] = op.get("offset", 0)
        w["fields"] = list(op["fields"])
    if "expect" in op:
        w["expect_repr"] = repr(op["expect"])
    if "assign" in op:
        w["assign_repr"] = repr(op["assign"])
        w["via"] = op.get("via", "ctor")
    if "expect_bytes" in op:
        w["expect_hex"] = op["expect_bytes"].hex()
    if "note" in op:
        w["note"] = op["note"]
    return w


def op_from_witness(w):
    op = {"kind": w["kind"]}
    if "raw_hex" in w:
        op["raw"] = bytes.fromhex(w["raw_hex"])
        op["offset"] = w.get("offset", 0)
        op["fields"] = list(w["fields"])
    if "expect_repr" in w:
        op["expect"] = ast.literal_eval(w["expect_repr"])
    if "assign_repr" in w:
        op["assign"] = ast.literal_eval(w["assign_repr"])
        op["via"] = w.get("via", "ctor")
    if "expect_hex" in w:
        op["expect_bytes"] = bytes.fromhex(w["expect_hex"])
    if "note" in w:
        op["note"] = w["note"]
    return op


# ---------------------------------------------------------------------------------------------
# patterns
# ---------------------------------------------------------------------------------------------
def boundary_patterns(n):
    pats = [
        b"\x00" * n, b"\xff" * n,
        b"\x7f" + b"\xff" * (n - 1), b"\x80" + b"\x00" * (n - 1),
        b"\xff" * (n - 1) + b"\x7f", b"\x00" * (n - 1) + b"\x80",
        b"\x00" * (n - 1) + b"\x01", b"\x01" + b"\x00" * (n - 1),
        b"\xff" * (n - 1) + b"\xfe", b"\xfe" + b"\xff" * (n - 1),
        b"\x80" + b"\x00" * (n - 1) if n == 1 else b"\x80" + b"\x00" * (n - 2) + b"\x01",
        b"\x01" if n == 1 else b"\x01" + b"\x00" * (n - 2) + b"\x80",
        bytes((i + 1) & 0xff for i in range(n)),
        bytes((0xfe - 0x11 * i) & 0xff for i in range(n)),
        bytes(0xaa if i % 2 == 0 else 0x55 for i in range(n)),
        bytes(0x81 + i for i in range(n)) if n < 100 else b"",
    ]
    out = []
    for p in pats:
        if len(p) == n and p not in out:
            out.append(p)
    return out


def pattern_groups(n, seed, exhaustive16):
    """[(group key, [patterns], lane_like)]  -- deterministic for (n, seed), independent of the shard."""
    rng = rng_for(seed, "c05", "patterns", n)
    groups = []
    if n == 1:
        groups.append(("all8", [bytes([v]) for v in range(256)]))
        return groups
    if n == 2 and exhaustive16:
        for hi in range(256):
            groups.append(("all16:%02x" % hi, [bytes([hi, lo]) for lo in range(256)]))
        return groups
    rnd = bytes(rng.randrange(256) for _ in range(n))
    for bgname, bg in (("00", b"\x00" * n), ("ff", b"\xff" * n), ("55", b"\x55" * n), ("rnd", rnd)):
        for lane in range(n):
            groups.append(("lane:%s:%d" % (bgname, lane),
                           [bg[:lane] + bytes([v]) + bg[lane + 1:] for v in range(256)]))
    groups.append(("random", [bytes(rng.randrange(256) for _ in range(n)) for _ in range(64)]))
    return groups


# ---------------------------------------------------------------------------------------------
# the check
# ---------------------------------------------------------------------------------------------
class Ctx(object):
    def __init__(self, run):
        self.run = run
        self.stop = False
        self.hist_seconds = 0.0
        self.dyn_violations = 0

    def report(self, rec, op, what, got):
        run = self.run
        witness = {"class_name": rec.name, "class_src": HEADER + rec.src, "config": rec.config(),
                   "op": op_to_witness(op), "got": got}
        run.violation("%s [Int(%d, signed=%s, endianness=%r), class default %r, layout %s, options %s]" % (
            what, rec.n, rec.signed, rec.spelling, rec.cd, rec.layout, rec.opt), witness, None)
        rec.bad = True
        if run.counters["violations"] >= MAX_VIOLATIONS:
            self.stop = True

    def slow(self, rec, op, counter=None):
        """Run one low-volume case through the generic executor and record the outcome."""
        status, what, got = perform(rec.cls, op)
        if status == "ok":
            if counter:
                self.run.count(counter)
            return True
        if status == "unjudged":
            self.run.count("unjudged:" + what[:60])
            return True
        self.report(rec, op, what, got)
        return False


def multi_frame(i):
    pb = (i * 37 + 11) & 0xff
    t0 = (i * 91 + 5) & 0xff
    t1 = (i * 53 + 0x80) & 0xff
    return pb, t0, t1


def tail_value(t0, t1, corder):
    return t0 * 256 + t1 if corder == "big" else t1 * 256 + t0


def flag_byte(i):
    """a non-zero flag (the optional field is present for any true value)"""
    return 1 + ((i * 37) & 0x7f)


def key_byte(i):
    return (i * 37 + 11) & 0xff


def hot_group(rec, pats, exps):
    """Fast path over one pattern group.  Returns None when everything agreed, else the index of the
    first pattern for which something differed or raised (re-examined by the slow path)."""
    unpack = rec.cls.unpack
    q = rec.inst
    i = -1
    try:
        if rec.layout == "one":
            for i, p in enumerate(pats):
                e = exps[i]
                if unpack(p).x != e:
                    return i
                q.x = e
                if q.pack() != p:
                    return i
        elif rec.layout == "multi":
            corder = rec.corder
            for i, p in enumerate(pats):
                e = exps[i]
                pb, t0, t1 = multi_frame(i)
                tv = tail_value(t0, t1, corder)
                raw = bytes((pb,)) + p + bytes((t0, t1))
                pkt = unpack(raw)
                if pkt.x != e or pkt.pad != pb or pkt.tail != tv:
                    return i
                q.pad = pb
                q.x = e
                q.tail = tv
                if q.pack() != raw:
                    return i
        elif rec.layout == "opt":
            for i, p in enumerate(pats):
                e = exps[i]
                fb = flag_byte(i)
                raw = bytes((fb,)) + p
                pkt = unpack(raw)
                if pkt.x != e or pkt.flag != fb:
                    return i
                q.flag = fb
                q.x = e
                if q.pack() != raw:
                    return i
        elif rec.layout == "ref":
            for i, p in enumerate(pats):
                e = exps[i]
                kb = key_byte(i)
                raw = bytes((kb,)) + p
                pkt = unpack(raw)
                if pkt.x != e or pkt.k != kb:
                    return i
                q.k = kb
                q.x = e
                if q.pack() != raw:
                    return i
        else:
            m = len(pats)
            for i, p in enumerate(pats):
                j = m - 1 - i
                raw = p + pats[j]
                ev = [exps[i], exps[j]]
                if unpack(raw).x != ev:
                    return i
                q.x = ev
                if q.pack() != raw:
                    return i
    except Exception:
        return i
    return None


def ops_for(rec, pats, exps, i, offset_prefix=b"", suffix=b""):
    """The (unpack op, pack op) pair of pattern i of a group, in witness form."""
    p, e = pats[i], exps[i]
    if rec.layout == "one":
        raw, values, fields = p, {"x": e}, ["x"]
    elif rec.layout == "multi":
        pb, t0, t1 = multi_frame(i)
        raw = bytes((pb,)) + p + bytes((t0, t1))
        values, fields = {"pad": pb, "x": e, "tail": tail_value(t0, t1, rec.corder)}, ["pad", "x", "tail"]
    elif rec.layout == "opt":
        raw, values, fields = bytes((flag_byte(i),)) + p, {"flag": flag_byte(i), "x": e}, ["flag", "x"]
    elif rec.layout == "ref":
        raw, values, fields = bytes((key_byte(i),)) + p, {"k": key_byte(i), "x": e}, ["k", "x"]
    else:
        j = len(pats) - 1 - i
        raw, values, fields = p + pats[j], {"x": [e, exps[j]]}, ["x"]
    uop = {"kind": "unpack", "raw": offset_prefix + raw + suffix, "offset": len(offset_prefix),
           "fields": fields, "expect": values}
    pop = {"kind": "pack", "via": "attr", "assign": values, "expect_bytes": raw}
    return uop, pop


def frame_values(rec, xval, i=0):
    """assignment dict placing xval in the field under test (other fields valid)."""
    if rec.layout == "one":
        return {"x": xval}
    if rec.layout == "multi":
        pb, t0, t1 = multi_frame(i)
        return {"pad": pb, "x": xval, "tail": tail_value(t0, t1, rec.corder)}
    if rec.layout == "opt":
        return {"flag": flag_byte(i), "x": xval}
    if rec.layout == "ref":
        return {"k": key_byte(i), "x": xval}
    return None


def frame_bytes(rec, xbytes, i=0):
    if rec.layout == "one":
        return xbytes
    if rec.layout == "opt":
        return bytes((flag_byte(i),)) + xbytes
    if rec.layout == "ref":
        return bytes((key_byte(i),)) + xbytes
    pb, t0, t1 = multi_frame(i)
    return bytes((pb,)) + xbytes + bytes((t0, t1))


def per_class_cases(ctx, rec, rng_bytes, full, salt):
    """Boundary values through the constructor, rejections, truncations.  Low volume, generic executor.

    Every PacketError costs the library ~0.5-4 ms (it formats a traceback), so the complete sets run on the
    `full` classes (one byte-order configuration per width and signedness in quick, several in thorough: rejection
    does not depend on the byte order) and a rotating selection (salt) on every other class."""
    run = ctx.run
    n, signed, order = rec.n, rec.signed, rec.order
    lo, hi = bounds(n, signed)
    half = POW[n] // 2
    good = []
    for v in (lo, hi, lo + 1, hi - 1, 0, 1, -1, -2, half - 1, half, -half):
        if lo <= v <= hi and v not in good:
            good.append(v)
    bad = []
    huge = POW[n] * (2 ** 67) + 12345
    for v in (lo - 1, hi + 1, POW[n], -POW[n], POW[n] + 1, hi + POW[n], lo - POW[n], POW[n] - 1, -half, -half - 1,
              -1, -2, half, huge, -huge):
        if not (lo <= v <= hi) and v not in bad:
            bad.append(v)

    # representable boundary values: constructor -> pack == oracle encoding -> unpack gives the value back
    for k, v in enumerate(good):
        if ctx.stop or rec.bad:
            return
        enc = encode(v, n, order, signed)
        if rec.layout in SEQ_LAYOUTS:
            w = good[-1 - k]
            assign, raw, fields = {"x": [v, w]}, enc + encode(w, n, order, signed), ["x"]
        else:
            assign, raw = frame_values(rec, v, k), frame_bytes(rec, enc, k)
            fields = list(assign)
        run.case(key=None, n=2)
        if not ctx.slow(rec, {"kind": "pack", "via": "ctor", "assign": assign, "expect_bytes": raw},
                        "boundary_values_packed"):
            return
        if not ctx.slow(rec, {"kind": "unpack", "raw": raw, "offset": 0, "fields": fields, "expect": assign},
                        "boundary_values_decoded_back"):
            return
        # same bytes behind a prefix and before trailing bytes (the field still decodes its own n bytes)
        if k < 4:
            run.case(key=None)
            if not ctx.slow(rec, {"kind": "unpack", "raw": b"\xaa\xbb\xcc" + raw + b"\xdd\xee", "offset": 3,
                                  "fields": fields, "expect": assign}, "decoded_at_offset_with_trailing_bytes"):
                return
    run.case(key="%s|boundary-values" % rec.name, n=0)

    # the optional field absent: flag 0 -> x is None, nothing consumed, nothing emitted
    if rec.layout == "opt":
        note = "optional field, flag 0: x must be None and no byte consumed/emitted"
        for op in ({"kind": "unpack", "raw": b"\x00" + rng_bytes, "offset": 0, "fields": ["flag", "x"],
                    "expect": {"flag": 0, "x": None}, "note": note},
                   {"kind": "unpack", "raw": b"\x00", "offset": 0, "fields": ["flag", "x"],
                    "expect": {"flag": 0, "x": None}, "note": note},
                   {"kind": "pack", "via": "ctor", "assign": {"flag": 0, "x": None}, "expect_bytes": b"\x00", "note": note},
                   {"kind": "pack", "via": "attr", "assign": {"flag": 0, "x": None}, "expect_bytes": b"\x00", "note": note}):
            run.case(key=None)
            if not ctx.slow(rec, op, "opt_absent_checked"):
                return
        run.case(key="%s|absent" % rec.name, n=0)

    # out-of-range integers and non-integers must make pack() raise PacketError
    # (None assigned to an optional field means "absent", not a non-integer)
    nonints = [v for v in NONINTS if not (rec.layout == "opt" and v is None)]
    if full:
        chosen = [(k, v, "range_rejections") for k, v in enumerate(bad)]
        chosen += [(k, v, "nonint_rejections") for k, v in enumerate(nonints)]
    else:
        # lo-1 / hi+1 alternate, one other candidate and a non-integer on alternating classes
        k = salt % 2
        chosen = [(salt, bad[k], "range_rejections")]
        if salt % 2 == 1:
            k = 2 + (salt // 2) % (len(bad) - 2)
            chosen.append((salt + 1, bad[k], "range_rejections"))
        if salt % 2 == 0:
            k = (salt // 2) % len(nonints)
            chosen.append((salt, nonints[k], "nonint_rejections"))
    for k, v, counter in chosen:
        if ctx.stop or rec.bad:
            return
        if rec.layout in SEQ_LAYOUTS:
            assigns = [{"x": [good[0], v]}, {"x": [v, good[-1]]}]
            if not full:
                assigns = [assigns[k % 2]]
        else:
            assigns = [frame_values(rec, v, k)]
        via = "ctor" if k % 2 == 0 else "attr"
        for assign in assigns:
            run.case(key=None)
            run.cover("rejected_value_kinds", type(v).__name__)
            if not ctx.slow(rec, {"kind": "pack_reject", "via": via, "assign": assign}, counter):
                return
    run.case(key="%s|rejections" % rec.name, n=0)

    # bool is an int (not judged as a non-integer): observe what it packs to
    for b in (True, False):
        assign = {"x": [b, b]} if rec.layout in SEQ_LAYOUTS else frame_values(rec, b, 1)
        try:
            out = rec.cls(**assign).pack()
            want = encode(int(b), n, order, signed)
            want = want + want if rec.layout in SEQ_LAYOUTS else frame_bytes(rec, want, 1)
            run.count("bool_packed_as_0_or_1" if out == want else "bool_packed_otherwise")
        except Exception:
            run.count("bool_pack_raised")
    # (integral floats and other non-integers equal to an integer are judged by the history part)

    # truncations: every cut of a complete input (full: also every starting offset that leaves too few bytes)
    other = bytes((i + 1) & 0xff for i in range(n))
    if rec.layout in SEQ_LAYOUTS:
        whole, fields = rng_bytes + other, ["x"]
    else:
        whole = frame_bytes(rec, rng_bytes, salt)
        fields = {"one": ["x"], "multi": ["pad", "x", "tail"], "opt": ["flag", "x"], "ref": ["k", "x"]}[rec.layout]
    m = len(whole)
    if full:
        cuts = [(whole[:c], 0) for c in range(m)]
        # starting offsets that leave too few bytes - only where the frame keeps its meaning when read from there: behind an
        # optional's flag byte the first byte read decides whether x is there at all (a zero makes the short input valid), and a
        # selector key read from the middle of x selects something else
        if rec.layout == "opt":
            cuts += [(whole, off) for off in range(1, m + 1) if off >= m or whole[off] != 0]
        elif rec.layout != "ref":
            cuts += [(whole, off) for off in range(1, m + 1)]
    else:
        # the last byte missing, and a cut inside x itself (not only in the neighbours)
        first_x = 1 if rec.layout in ("multi", "opt", "ref") else 0
        cuts = [(whole[:m - 1], 0), (whole[:first_x + (salt % n)], 0)]
    for raw, off in cuts:
        if ctx.stop or rec.bad:
            return
        run.case(key=None)
        if not ctx.slow(rec, {"kind": "truncated", "raw": raw, "offset": off, "fields": fields}, "truncated_rejections"):
            return
    run.case(key="%s|truncations" % rec.name, n=0)


# ---------------------------------------------------------------------------------------------
# history part: rejection must not depend on what went through the same field before
# ---------------------------------------------------------------------------------------------
HIST_KINDS = ("float", "Fraction", "Decimal", "complex", "negzero")      # judged non-integers (standard numeric types)
HIST_SCENARIOS = ("equal", "same", "reverse", "overwrite", "stale", "modular")
KIND_COUNTER = {"float": "hist_float_rejections", "Fraction": "hist_fraction_rejections",
                "Decimal": "hist_decimal_rejections", "complex": "hist_complex_rejections",
                "negzero": "hist_negzero_rejections"}


class IndexOnly(object):
    """not an int, but has __index__; equal to and hashing like an int  (observed, never judged)"""
    def __init__(self, v):
        self.v = v

    def __index__(self):
        return self.v

    def __eq__(self, other):
        return self.v == other

    def __ne__(self, other):
        return self.v != other

    def __hash__(self):
        return hash(self.v)

    def __repr__(self):
        return "IndexOnly(%d)" % self.v


class EqualOnly(object):
    """no numeric protocol at all; equal to and hashing like an int  (observed, never judged)"""
    def __init__(self, v):
        self.v = v

    def __eq__(self, other):
        return self.v == other

    def __ne__(self, other):
        return self.v != other

    def __hash__(self):
        return hash(self.v)

    def __repr__(self):
        return "EqualOnly(%d)" % self.v


def make_nonint(kind, v):
    """A non-integer object that compares equal to the int v and hashes like it, or None when there is none
    of that kind (float/complex: only when v is exactly representable)."""
    obj = None
    try:
        if kind == "float":
            obj = float(v)
        elif kind == "negzero":
            obj = -0.0 if v == 0 else None
        elif kind == "Fraction":
            obj = Fraction(v)
        elif kind == "Decimal":
            obj = Decimal(v)
        elif kind == "complex":
            obj = complex(float(v), 0.0)
        elif kind == "index":
            obj = IndexOnly(v)
        elif kind == "equalonly":
            obj = EqualOnly(v)
    except OverflowError:
        return None
    if obj is None or isinstance(obj, int):
        return None
    if not (obj == v and hash(obj) == hash(v)):
        return None
    return obj


def tag(v):
    """JSON-able form of a value of a history step (exact for every type used here)."""
    if v is None:
        return ["N"]
    if isinstance(v, bool):
        return ["b", int(v)]
    if isinstance(v, int):
        return ["i", str(v)]
    if isinstance(v, float):
        return ["f", repr(v)]
    if isinstance(v, Fraction):
        return ["F", str(v)]
    if isinstance(v, Decimal):
        return ["D", str(v)]
    if isinstance(v, complex):
        return ["c", repr(v)]
    if isinstance(v, IndexOnly):
        return ["idx", str(v.v)]
    if isinstance(v, EqualOnly):
        return ["eq", str(v.v)]
    if isinstance(v, (list, tuple)):
        return ["L", [tag(e) for e in v]]
    if isinstance(v, str):
        return ["s", v]
    if isinstance(v, bytes):
        return ["y", v.hex()]
    raise TypeError(type(v))


def untag(t):
    k = t[0]
    if k == "N":
        return None
    if k == "b":
        return bool(t[1])
    if k == "i":
        return int(t[1])
    if k == "f":
        return float(t[1])
    if k == "F":
        return Fraction(t[1])
    if k == "D":
        return Decimal(t[1])
    if k == "c":
        return complex(t[1])
    if k == "idx":
        return IndexOnly(int(t[1]))
    if k == "eq":
        return EqualOnly(int(t[1]))
    if k == "L":
        return [untag(e) for e in t[1]]
    if k == "s":
        return t[1]
    if k == "y":
        return bytes.fromhex(t[1])
    raise ValueError(k)


def run_steps(cls, steps, replaying=False):
    """Execute a history (list of JSON-able steps) on the real class, one current packet object.
    -> (status, step index, what, got, observed)   status in 'ok' | 'violation' | 'unjudged'"""
    from bisturi.packet import PacketError
    pkt = None
    observed = []
    for idx, st in enumerate(steps):
        if st.get("replay_only") and not replaying:
            continue      # already done on this class by the main part of the run
        op = st["op"]
        why = st.get("why", "")
        if op in ("new", "set"):
            try:
                assign = dict((k, untag(v)) for k, v in st["assign"].items())
                if op == "new" and st.get("via") != "attr":
                    pkt = cls(**assign)
                else:
                    if op == "new":
                        pkt = cls()
                    for k, v in assign.items():
                        setattr(pkt, k, v)
            except Exception as e:
                return "unjudged", idx, "could not build the packet: %s" % type(e).__name__, repr(e)[:120], observed
            continue
        if op == "unpack":
            raw = bytes.fromhex(st["raw_hex"])
            try:
                pkt = cls.unpack(raw)
                got = dict((f, getattr(pkt, f)) for f in st["expect"])
            except Exception as e:
                return ("violation", idx, "unpack of a complete input raised %s (%s)" % (type(e).__name__, why),
                        repr(e)[:120], observed)
            for f, t in st["expect"].items():
                if got[f] != untag(t):
                    return ("violation", idx, "decoded value differs from the two's-complement value of the bytes "
                            "(field %s; %s)" % (f, why), repr(got), observed)
            continue
        if op not in ("pack", "reject", "observe"):
            raise ValueError(op)
        try:
            out = pkt.pack()
        except PacketError as e:
            if op == "reject":
                continue
            if op == "observe":
                observed.append("%s_rejected" % st["label"])
                continue
            return ("violation", idx, "pack of a representable integer raised PacketError (%s)" % why,
                    "PacketError: %s" % str(e.original_error_message)[:120], observed)
        except Exception as e:
            if op == "observe":
                observed.append("%s_raised_%s" % (st["label"], type(e).__name__))
                continue
            if op == "reject":
                return ("violation", idx, "pack of %s raised %s rather than PacketError" % (why, type(e).__name__),
                        repr(e)[:120], observed)
            return ("violation", idx, "pack of a representable integer raised %s (%s)" % (type(e).__name__, why),
                    repr(e)[:120], observed)
        if op == "reject":
            return ("violation", idx, "pack of %s returned bytes instead of raising PacketError" % why,
                    out.hex(), observed)
        if op == "observe":
            observed.append("%s_%s" % (st["label"], "packed_as_the_integer" if out.hex() == st["expect_hex"]
                                       else "packed_otherwise"))
            continue
        if out.hex() != st["expect_hex"]:
            return ("violation", idx, "packed bytes differ from the two's-complement encoding (%s)" % why,
                    out.hex(), observed)
    return "ok", None, None, None, observed


def history_pool(n, signed, seed):
    """(fx, wide): distinct representable integers for the histories.  fx are exactly representable as float
    (top-three-bytes, below 2^53 and small families), wide are seeded full-width values (for n >= 7 mostly not a float).
    0, -1 and the all-ones value are kept out (used by the negzero / modular histories)."""
    lo, hi = bounds(n, signed)
    rng = rng_for(seed, "c05", "hist", n, int(signed))
    cand = []
    for j in range(16):
        t = (0x5A3C96 + 0x111317 * j) & 0x7fffff
        if not signed and j % 3 == 0:
            t |= 0x800000
        v = t << (8 * (n - 3)) if n >= 3 else t >> (8 * (3 - n))
        cand.append(-v if (signed and j % 2) else v)
        w = rng.randrange(2, min(2 ** 53, hi) + 1)
        cand.append(-w if (signed and j % 2 == 0) else w)
    cand += [7, 300, -300, 255, 256, -129, 65537, -65537, lo, 2 ** (8 * n - 8)]
    for j in range(2, 40):
        cand.append(j)
        if signed:
            cand.append(-j)
    fx = []
    for v in cand:
        if lo <= v <= hi and v not in (0, -1, POW[n] - 1) and v not in fx and float(v) == v:
            fx.append(v)
    wide = []
    for _ in range(24):
        v = rng.randrange(lo, hi + 1)
        if v not in (0, -1, POW[n] - 1) and v not in fx and v not in wide:
            wide.append(v)
    return fx, wide


class Taker(object):
    """hands out distinct values of a pool, starting at a class-dependent position"""
    def __init__(self, fx, wide, salt):
        self.fx = fx[(salt * 5) % len(fx):] + fx[:(salt * 5) % len(fx)]
        self.wide = (wide[(salt * 3) % len(wide):] + wide[:(salt * 3) % len(wide)]) if wide else []

    def take(self, kind, prefer_wide=False):
        if kind == "negzero":
            return 0
        if kind in ("Fraction", "Decimal") and prefer_wide and self.wide:
            return self.wide.pop(0)
        return self.fx.pop(0)


def _describe(obj):
    return "%s %r" % (type(obj).__name__, obj)


class Hist(object):
    """builds the steps of one history for one class"""
    def __init__(self, rec, comp, pos, i):
        self.rec, self.comp, self.pos, self.i = rec, comp, pos, i
        self.seq = rec.layout in SEQ_LAYOUTS
        self.steps = []

    def x(self, v):
        if self.seq:
            return [v, self.comp] if self.pos == 0 else [self.comp, v]
        return v

    def raw(self, v):
        rec = self.rec
        if self.seq:
            return b"".join(encode(e, rec.n, rec.order, rec.signed) for e in self.x(v))
        return frame_bytes(rec, encode(v, rec.n, rec.order, rec.signed), self.i)

    def full_assign(self, v):
        d = {"x": self.x(v)} if self.seq else frame_values(self.rec, v, self.i)
        return dict((k, tag(e)) for k, e in d.items())

    def counts(self, kind, *names):
        rec = self.rec
        out = list(names)
        out.append("hist_%s_path_rejections" % rec.path)
        out.append("hist_%s_code_rejections" % ("generic" if rec.opt == "gen" else "generated"))
        out.append("hist_signed_rejections" if rec.signed else "hist_unsigned_rejections")
        out.append("hist_%s_rejections" % rec.order)
        if self.seq:
            out.append("hist_seq_element_rejections")
        if kind in KIND_COUNTER:
            out.append(KIND_COUNTER[kind])
        return out

    # -- steps
    def new(self, v, via="ctor", **extra):
        self.steps.append(dict({"op": "new", "via": via, "assign": self.full_assign(v)}, **extra))

    def set_x(self, v):
        self.steps.append({"op": "set", "assign": {"x": tag(self.x(v))}})

    def pack(self, v, why, *counts, **extra):
        self.steps.append(dict({"op": "pack", "expect_hex": self.raw(v).hex(), "why": why, "count": list(counts)}, **extra))

    def reject(self, why, counts):
        self.steps.append({"op": "reject", "why": why, "count": counts})

    def unpack(self, v, why):
        self.steps.append({"op": "unpack", "raw_hex": self.raw(v).hex(), "expect": self.full_assign(v), "why": why})

    def observe(self, v, label):
        self.steps.append({"op": "observe", "label": label, "expect_hex": self.raw(v).hex()})


def build_history(rec, scen, kind, v, comp, pos, i, lean, variant=0):
    """steps of one scenario, or None when no equal non-integer of that kind exists for v."""
    h = Hist(rec, comp, pos, i)
    M = POW[rec.n]
    where = " as element %d of the list" % pos if h.seq else ""
    if scen == "modular":
        h.new(v)
        h.pack(v, "integer %d" % v)
        cands = [v + M, v - M]
        if lean:
            cands = [cands[variant % 2]]
        for c in cands:
            h.new(c)
            h.reject("the out-of-range integer %d%s (equal to %d modulo 2^%d, which was packed before through the same "
                     "field)" % (c, where, v, 8 * rec.n), h.counts(None, "hist_modular_rejections"))
        if not lean:
            a, b = (-1, M - 1) if rec.signed else (M - 1, -1)
            h.new(a)
            h.pack(a, "integer %d (all bytes ff)" % a)
            h.new(b)
            h.reject("the out-of-range integer %d%s (it would also be all bytes ff, like %d packed before through the "
                     "same field)" % (b, where, a), h.counts(None, "hist_modular_rejections"))
        return h.steps
    obj = make_nonint(kind, v)
    if obj is None:
        return None
    d = _describe(obj) + where
    if scen == "equal":
        h.new(v)
        h.pack(v, "integer %d" % v)
        h.new(obj)
        h.reject("the non-integer %s (it compares equal to the integer %d packed just before through the same field)"
                 % (d, v), h.counts(kind, "hist_equal_nonint_rejections"))
    elif scen == "same":
        h.new(v, via="attr")
        h.pack(v, "integer %d" % v)
        h.set_x(obj)
        h.reject("the non-integer %s assigned to the packet object that packed the equal integer %d just before"
                 % (d, v), h.counts(kind, "hist_equal_nonint_rejections", "hist_same_packet_rejections"))
        h.set_x(v)
        h.pack(v, "integer %d on the same packet object, after the rejection of an equal non-integer" % v,
               "hist_int_repacked_after_rejection")
    elif scen == "reverse":
        h.new(obj)
        h.reject("the non-integer %s (nothing equal to it was packed before)" % d,
                 h.counts(kind, "hist_nonint_first_rejections"))
        h.new(v)
        h.pack(v, "integer %d after the rejection of the equal non-integer %s" % (v, d), "hist_int_after_nonint_packed")
        if not lean:
            h.new(obj)
            h.reject("the non-integer %s (rejected before, then the equal integer %d was packed)" % (d, v),
                     h.counts(kind, "hist_equal_nonint_rejections"))
    elif scen == "overwrite":
        h.unpack(v, "history: parse, overwrite with an equal non-integer, pack")
        if variant % 2 == 0:
            h.pack(v, "re-pack of the parsed packet")
        h.set_x(obj)
        h.reject("the non-integer %s written over the parsed field (parsed value: the equal integer %d)" % (d, v),
                 h.counts(kind, "hist_equal_nonint_rejections", "hist_unpack_overwrite_rejections"))
        h.set_x(v)
        h.pack(v, "integer %d on the parsed packet, after the rejection of an equal non-integer" % v,
               "hist_int_repacked_after_rejection")
    elif scen == "stale":
        # v (and comp) are boundary values the main part packed on this class long before: only a replay repeats that
        h.new(v, replay_only=True)
        h.pack(v, "integer %d" % v, replay_only=True)
        h.new(obj)
        h.reject("the non-integer %s (it compares equal to the integer %d packed earlier in the run through the same "
                 "field)" % (d, v), h.counts(kind, "hist_equal_nonint_rejections", "hist_stale_rejections"))
    elif scen == "observe":
        h.new(v)
        h.pack(v, "integer %d" % v)
        h.new(obj)
        h.observe(v, "hist_observed_%s_object" % kind)
    else:
        raise ValueError(scen)
    return h.steps


def run_history(ctx, rec, scen, kind, steps, phase):
    """Execute one history on rec.cls and record the outcome.  False = stop working on this class."""
    run = ctx.run
    t0 = time.time()
    status, idx, what, got, observed = run_steps(rec.cls, steps)
    ctx.hist_seconds += time.time() - t0
    executed = [st for st in steps if not st.get("replay_only")]
    run.case(key="%s|history:%s:%s:%s" % (rec.name, phase, scen, kind),
             n=sum(1 for st in executed if st["op"] in ("pack", "reject", "unpack", "observe")))
    for label in observed:
        run.count(label)
    if status == "ok":
        run.count("hist_sequences")
        for st in executed:
            for c in st.get("count", ()):
                run.count(c)
        run.cover("hist_scenario_x_kind", "%s/%s" % (scen, kind))
        run.cover("hist_scenario_x_layout_x_options", "%s/%s/%s" % (scen, rec.layout, rec.opt))
        run.cover("hist_kind_x_path_x_signed", "%s/%s/%s" % (kind, rec.path, "s" if rec.signed else "u"))
        run.cover("hist_widths", rec.n)
        return True
    if status == "unjudged":
        run.count("unjudged:history:" + what[:50])
        return True
    witness = {"class_name": rec.name, "class_src": HEADER + rec.src, "config": rec.config(),
               "history": {"scenario": scen, "kind": kind, "phase": phase, "steps": steps, "failed_step": idx}, "got": got}
    run.violation("%s [history %s, step %d; Int(%d, signed=%s, endianness=%r), class default %r, layout %s, options %s]" % (
        what, scen, idx, rec.n, rec.signed, rec.spelling, rec.cd, rec.layout, rec.opt), witness, None)
    rec.bad = True
    if run.counters["violations"] >= MAX_VIOLATIONS:
        ctx.stop = True
    return False


def history_pre(ctx, rec, pool, full, salt):
    """Histories on the still unused class (so that a recorded sequence replays exactly)."""
    run = ctx.run
    fx, wide = pool
    tk = Taker(fx, wide, salt)
    comp = tk.take("float")
    run.count("hist_full_classes" if full else "hist_lean_classes")
    if full:
        plan = [("equal", k) for k in HIST_KINDS]
        plan += [(s, HIST_KINDS[(salt + j) % 4]) for j, s in enumerate(("same", "reverse", "overwrite"))]
        plan += [("modular", None), ("observe", "index"), ("observe", "equalonly")]
    else:
        idx = salt % 30
        scen = HIST_SCENARIOS[idx % 6]
        if scen == "stale":
            return           # runs in history_late
        plan = [(scen, HIST_KINDS[idx // 6] if scen != "modular" else None)]
    for j, (scen, kind) in enumerate(plan):
        if ctx.stop or rec.bad:
            return
        v = tk.take(kind, prefer_wide=(salt + j) % 2 == 0)
        steps = build_history(rec, scen, kind, v, comp, (salt + j) % 2, j, lean=not full, variant=salt // 30 + salt // 2)
        if steps is None:
            run.count("hist_no_equal_nonint_of_kind")
            continue
        if not run_history(ctx, rec, scen, kind, steps, "pre"):
            return


def history_late(ctx, rec, pool, full, salt, bexp):
    """Histories after the main part used the class: a non-integer equal to a boundary value packed long before (stale),
    and on the full classes one more packed-just-before history on the by now heavily used field."""
    run = ctx.run
    fx, wide = pool
    idx = salt % 30
    if full:
        plan = [("stale", HIST_KINDS[salt % 5]), ("stale", HIST_KINDS[(salt + 2) % 5]), ("equal", HIST_KINDS[(salt + 1) % 4])]
    elif HIST_SCENARIOS[idx % 6] == "stale":
        plan = [("stale", HIST_KINDS[idx // 6])]
    else:
        return
    tk = Taker(fx[::-1], wide[::-1], salt)
    for j, (scen, kind) in enumerate(plan):
        if ctx.stop or rec.bad:
            return
        pos = (salt + j) % 2
        if scen == "stale":
            # boundary values of this class for which an equal non-integer of the kind exists
            cands = [e for e in bexp if make_nonint(kind, e) is not None]
            if not cands:
                run.count("hist_no_equal_nonint_of_kind")
                continue
            v = cands[(salt + 3 * j) % len(cands)]
            comp = bexp[(salt + j) % len(bexp)]
        else:
            v, comp = tk.take(kind, prefer_wide=True), tk.take("float")
        steps = build_history(rec, scen, kind, v, comp, pos, j, lean=not full)
        if steps is None:
            run.count("hist_no_equal_nonint_of_kind")
            continue
        if not run_history(ctx, rec, scen, kind, steps, "late"):
            return


_FMT_RE = re.compile(r'StructUnpack\("([<>=@!]?[A-Za-z]+)"')


def observe_class(run, rec, scratch):
    """Which library paths does this class use?  (coverage only, never a verdict)"""
    from bisturi.packet import Packet
    cls = rec.cls
    for name, field, _pack, unpack in cls.get_fields():
        if name == "x":
            if rec.layout == "ref":
                run.count("ref_layout_classes")      # the Int is created and compiled at every unpack/pack
                rec.path = "struct" if rec.n in (1, 2, 4, 8) else "loop"
                continue
            target = field.prototype_field if rec.layout in ("rep", "unt", "opt") else field
            fname = getattr(target.unpack, "__name__", "?")
            run.cover("int_unpack_method", fname)
            run.cover("int_pack_method", getattr(target.pack, "__name__", "?"))
            if "primitive" in fname:
                run.count("struct_path_classes")
                rec.path = "struct"
            else:
                run.count("loop_path_classes")
                rec.path = "loop"
    generated = "unpack_impl" in cls.__dict__ and "pack_impl" in cls.__dict__
    if generated:
        run.count("generated_code_classes")
        path = os.path.join(scratch, "__pkts__", "%s_%s.py" % (rec.modname, rec.name))
        try:
            with open(path) as f:
                text = f.read()
        except OSError:
            run.count("generated_code_file_not_found")
            text = ""
        for fmt in _FMT_RE.findall(text):
            run.cover("struct_formats_in_generated_code", fmt)
            if len(fmt) > 2:
                run.count("vectorised_struct_runs")
            else:
                run.count("single_struct_runs")
    else:
        if cls.__dict__.get("unpack_impl") is None and cls.unpack_impl == Packet.unpack_impl:
            run.count("generic_code_classes")
    if rec.opt == "gen" and generated:
        run.inconclusive_because("class declared with generation off runs generated code")
    if rec.opt != "gen" and not generated:
        run.inconclusive_because("class declared with generation on does not run generated code")


def fanout(tier, n):
    """On how many of a configuration's classes a lane/random group runs: 0 = all, 3 = one per layout,
    2 = one plain (one/multi/rep) + one wrapped (opt/unt/ref), 1 = one."""
    if tier == "thorough":
        if n <= 4:
            return 0
        return 3 if (n <= 9 or n == 16) else 1
    if n == 1:
        return 0
    if n == 2:
        return 3
    if n <= 4:
        return 2
    return 1


def classes_for_group(recs, gi, ci, nfan):
    """Which of the classes of a configuration run group gi (rotating, so that every class sees lane groups of
    several lanes and backgrounds)."""
    if nfan == 0:
        return recs
    if nfan == 3:
        out = []
        for L, layout in enumerate(LAYOUTS):
            cand = [r for r in recs if r.layout == layout]
            if cand:
                out.append(cand[(gi + L + ci) % len(cand)])
        return out
    if nfan == 2:
        plain = [r for r in recs if r.layout not in WRAPPED_OPTS]
        wrapped = [r for r in recs if r.layout in WRAPPED_OPTS]
        return [plain[(gi + gi // len(plain) + ci) % len(plain)], wrapped[(gi + gi // len(wrapped) + ci) % len(wrapped)]]
    m = len(recs)
    return [recs[(gi + gi // m + ci) % m]]


# ---------------------------------------------------------------------------------------------
# DYN part: the integer field is produced at RUN TIME by the callable of a Ref
# ---------------------------------------------------------------------------------------------
DYN_VARIANTS = ("sel", "flds", "keep", "chooses", "table", "mixed", "table2")
DYN_ORD = ("big", "little", "network", "local", None, "little", "big", None)
DYN_STRUCT_W = (1, 2, 4, 8)
DYN_MAX_VIOLATIONS = 3
DYN_CHUNK = 100
DYN_BITS = "Int(W_%(c)s[pkt.%(f)s & 7], signed=bool(pkt.%(f)s & 8), endianness=O_%(c)s[(pkt.%(f)s >> 4) & 7])"


class DynSpec(object):
    __slots__ = ("idx", "name", "variant", "opt", "cd", "tail", "src", "selectors", "targets", "domain", "cls", "module")

    def config(self):
        return {"variant": self.variant, "options": self.opt, "class_default": self.cd, "tail_field": self.tail,
                "selector_fields": list(self.selectors), "run_time_selected_fields": list(self.targets),
                "distinct_configurations": len(set(c for _sv, cfgs in self.domain for c in cfgs))}


def dyn_plan(tier):
    """[(variant, option set, class default, tail field)]"""
    if tier == "thorough":
        return [(v, o, cd, t) for v in DYN_VARIANTS for o, _d in OPTSETS for cd in CLASS_DEFAULTS for t in (False, True)]
    combos = (("def", None, False), ("gen", None, True), ("nov", "little", True), ("def", "little", False), ("def", "big", True))
    return [(v,) + c for v in DYN_VARIANTS for c in combos]


def dyn_order(sp, cd):
    """(byte order the statement fixes or the first reading, second reading or None).
    A run-time selected Int without its own byte order: with no class default (or a big-endian one) every reading
    gives big; with a little-endian class default the statement does not say whether the default reaches a field
    that the class body does not contain -> both readings are accepted (and counted)."""
    if sp is not None:
        return resolve_order(sp, None), None
    other = resolve_order(None, cd)
    return "big", (other if other != "big" else None)


def dyn_table_cfgs(rng, count, wpool, allow_none):
    sps = ["big", "little", "network", "local"] + ([None] if allow_none else [])
    out = []
    while len(out) < count:
        n, sg, sp = rng.choice(wpool), rng.random() < 0.5, rng.choice(sps)
        # a configuration and its neighbours in exactly one dimension (sign, byte order, width)
        for c in ((n, sg, sp), (n, not sg, sp), (n, sg, contrary(sp)), (rng.choice(wpool), sg, sp)):
            if c not in out:
                out.append(c)
    out = out[:count]
    rng.shuffle(out)
    return out


def dyn_make_spec(idx, variant, optname, cd, tail, tier, seed):
    rng = rng_for(seed, "c05", "dyn", idx)
    sp_ = DynSpec()
    sp_.idx, sp_.variant, sp_.opt, sp_.cd, sp_.tail = idx, variant, optname, cd, tail
    name = sp_.name = "D%03d_%s_%s_c%s%s" % (idx, variant, optname, _cap(cd), "_t" if tail else "")
    conf = dict(dict(OPTSETS)[optname])
    if cd is not None:
        conf["endianness"] = cd
    wpool = widths(tier)
    loopw = [w for w in wpool if w not in DYN_STRUCT_W]
    W = rng.sample(list(DYN_STRUCT_W), 3) + rng.sample(loopw, 3) + [rng.choice(wpool), rng.choice(wpool)]
    rng.shuffle(W)
    W = tuple(W)
    r = rng.randrange(8)
    O = DYN_ORD[r:] + DYN_ORD[:r]

    def bits_cfg(s):
        return (W[s & 7], bool(s & 8), O[(s >> 4) & 7])

    def literal_table(cfgs_by_key):
        return "{%s}" % ", ".join("%d: %s" % (k, int_src(*c)) for k, c in sorted(cfgs_by_key.items()))

    pre = []
    body = ["class %s(Packet):" % name, "    __bisturi__ = %r" % (conf,)]
    sp_.targets = ("x",)
    if variant in ("sel", "keep", "mixed"):
        pre += ["W_%s = %r" % (name, W), "O_%s = %r" % (name, O)]
    if variant == "sel":
        sp_.selectors = ("s",)
        body += ["    s = Int(1)",
                 "    x = Ref(lambda pkt, **k: %s, default=0)" % (DYN_BITS % {"c": name, "f": "s"})]
        sp_.domain = [((s,), (bits_cfg(s),)) for s in range(256)]
    elif variant == "flds":
        sp_.selectors = ("w", "g", "e")
        body += ["    w = Int(1)", "    g = Int(1)", "    e = Int(1)",
                 "    x = Ref(lambda pkt, **k: Int(pkt.w, signed=bool(pkt.g), endianness='little' if pkt.e else 'big'), default=0)"]
        ws = sorted(set(list(wpool) + [rng.randrange(10, 34) for _ in range(3)]))
        sp_.domain = [((w, g, e), ((w, bool(g), "little" if e else "big"),))
                      for w in ws for g in (0, 1, 0x80) for e in (0, 1, 2, 0xff)]
    elif variant == "keep":
        # a named function builds the Int; it remembers the id() of every field it handed out (so that the check can
        # tell that ids were recycled) and keeps the fields of selectors with bit 7 alive for a while
        sp_.selectors = ("s",)
        pre += ["KEEP_%s = []" % name, "IDS_%s = []" % name, "",
                "def make_%s(pkt, **k):" % name,
                "    f = %s" % (DYN_BITS % {"c": name, "f": "s"}),
                "    IDS_%s.append(id(f))" % name,
                "    if pkt.s & 0x80:",
                "        KEEP_%s.append(f)" % name,
                "        if len(KEEP_%s) > 48:" % name,
                "            del KEEP_%s[:32]" % name,
                "    return f", ""]
        body += ["    s = Int(1)", "    x = Ref(make_%s, default=0)" % name]
        sp_.domain = [((s,), (bits_cfg(s),)) for s in range(256)]
    elif variant in ("chooses", "table", "mixed", "table2"):
        count = {"chooses": 16, "table": 16, "mixed": 8, "table2": 10}[variant] * (2 if tier == "thorough" else 1)
        cfgs = dyn_table_cfgs(rng, count, wpool, allow_none=(variant != "table2"))
        keys = rng.sample(range(256), count)
        table = dict(zip(keys, cfgs))
        if variant == "chooses":
            sp_.selectors = ("key",)
            body += ["    key = Int(1)", "    x = Ref(key.chooses(%s), default=0)" % literal_table(table)]
            sp_.domain = [((k,), (table[k],)) for k in sorted(table)]
        else:
            pre.append("T_%s = %s" % (name, literal_table(table)))
        if variant == "table":
            sp_.selectors = ("key",)
            body += ["    key = Int(1)", "    x = Ref(lambda pkt, **k: T_%s[pkt.key], default=0)" % name]
            sp_.domain = [((k,), (table[k],)) for k in sorted(table)]
        elif variant == "mixed":
            sp_.selectors = ("key",)
            body += ["    key = Int(1)",
                     "    x = Ref(lambda pkt, **k: T_%s[pkt.key] if pkt.key in T_%s else %s, default=0)"
                     % (name, name, DYN_BITS % {"c": name, "f": "key"})]
            sp_.domain = [((s,), (table.get(s, bits_cfg(s)),)) for s in range(256)]
        elif variant == "table2":
            # two Ref fields share the literals of one table (one through a lambda, one through chooses)
            sp_.selectors = ("key", "key2")
            sp_.targets = ("x", "y")
            body += ["    key = Int(1)", "    key2 = Int(1)",
                     "    x = Ref(lambda pkt, **k: T_%s[pkt.key], default=0)" % name,
                     "    y = Ref(key2.chooses(T_%s), default=0)" % name]
            sp_.domain = [((k, k2), (table[k], table[k2])) for k in sorted(table) for k2 in sorted(table)]
    else:
        raise ValueError(variant)
    if tail:
        body.append("    t = Int(2, endianness='big')")
    sp_.src = "\n".join(pre + [""] + body) + "\n"
    sp_.cls = sp_.module = None
    return sp_


def dyn_cfg_text(cfg):
    return int_src(*cfg)


def dyn_neighbour(spec, rng, cur):
    """a selector whose configuration differs from the current one in exactly one of width / sign / byte order"""
    dom = spec.domain
    cfg = dom[cur][1][0]
    o = dyn_order(cfg[2], None)[0]
    j = cur
    for _ in range(16):
        j = rng.randrange(len(dom))
        c = dom[j][1][0]
        if (c[0] != cfg[0]) + (c[1] != cfg[1]) + (dyn_order(c[2], None)[0] != o) == 1:
            return j
    return j


def dyn_history(spec, rng, nsteps, bcache, stats):
    """One history (JSON-able steps) through the one class of `spec`: unpacks, packs, re-packs of packets kept alive,
    rejections and truncations under configurations that change from operation to operation, garbage collections."""
    dom = spec.domain
    nsel = len(spec.selectors)
    cd = spec.cd
    steps = []
    cur = prev = rng.randrange(len(dom))
    last = {}            # target -> configuration of the previous operation through that Ref field
    held = []            # (index of the unpack step, raw, alternative raw or None, configurations)
    gc_at = set(rng.sample(range(4, nsteps), min(4, max(0, nsteps - 4))))

    def pattern(n):
        if n not in bcache:
            bcache[n] = boundary_patterns(n)
        if rng.random() < 0.5:
            return rng.choice(bcache[n])
        return bytes(rng.randrange(256) for _ in range(n))

    def touch(cfgs, st):
        prevtxt = {}
        for t, c in zip(spec.targets, cfgs):
            p = last.get(t)
            if p is not None:
                prevtxt[t] = dyn_cfg_text(p)
                dw, ds = p[0] != c[0], p[1] != c[1]
                do = dyn_order(p[2], None)[0] != dyn_order(c[2], None)[0]
                if dw or ds or do:
                    stats["dyn_config_switches"] += 1
                    stats["dyn_width_switches"] += dw
                    stats["dyn_sign_switches"] += ds
                    stats["dyn_order_switches"] += do
                    if dw + ds + do == 1:
                        stats["dyn_single_dimension_switches"] += 1
                    if (p[0] in DYN_STRUCT_W) != (c[0] in DYN_STRUCT_W):
                        stats["dyn_struct_loop_path_switches"] += 1
                else:
                    stats["dyn_same_config_again"] += 1
            last[t] = c
        st["cfg"] = dict((t, dyn_cfg_text(c)) for t, c in zip(spec.targets, cfgs))
        st["prev"] = prevtxt

    def frame(i, selvals, cfgs):
        """(raw, values, alt raw, alt values) of a complete packet with fresh patterns"""
        values = dict(zip(spec.selectors, selvals))
        raw = bytes(selvals)
        araw, avalues = raw, {}
        for t, (n, sg, sp) in zip(spec.targets, cfgs):
            order, alt = dyn_order(sp, cd)
            p = pattern(n)
            v = decode(p, order, sg)
            if encode(v, n, order, sg) != p:
                raise AssertionError("oracle decode/encode are not inverse")
            stats["oracle_selfchecks"] += 1
            values[t] = v
            raw += p
            if alt is not None:
                # the same bytes read in the other order / the same value written in the other order
                avalues[t] = decode(p, alt, sg)
                araw += encode(v, n, alt, sg)
                stats["dyn_unfixed_order_operations"] += 1
            else:
                araw += p
                if sp is not None:
                    stats["dyn_explicit_order_operations"] += 1
                else:
                    stats["dyn_no_order_no_little_default_operations"] += 1
        if spec.tail:
            _pb, t0, t1 = multi_frame(i)
            values["t"] = t0 * 256 + t1
            raw += bytes((t0, t1))
            araw += bytes((t0, t1))
        return raw, values, (araw if avalues else None), avalues

    i = 0
    while i < nsteps:
        i += 1
        if i in gc_at:
            steps.append({"op": "gc"})
            continue
        m = rng.random()
        if m < 0.35:
            nxt = rng.randrange(len(dom))
        elif m < 0.60:
            nxt = dyn_neighbour(spec, rng, cur)
        elif m < 0.80:
            nxt = prev
        else:
            nxt = cur
        prev, cur = cur, nxt
        selvals, cfgs = dom[cur]
        r = rng.random()
        if len(held) > 64 or 0.965 <= r < 0.975:
            steps.append({"op": "drop"})
            del held[:]
            continue
        if 0.90 <= r < 0.93 and held:
            of, raw, araw, hcfgs = held[rng.randrange(len(held))]
            # whichever order an unfixed field was read in, packing the parsed packet again must give the parsed bytes
            # back ("encodes every value to exactly the n bytes that decode back to it"): no alternative here
            st = {"op": "repack", "of": of, "expect_hex": raw.hex(), "unfixed": araw is not None}
            touch(hcfgs, st)
            steps.append(st)
            continue
        if 0.93 <= r < 0.955:
            raw, values, _araw, _av = frame(i, selvals, cfgs)
            ti = rng.randrange(len(spec.targets))
            n, sg, _sp = cfgs[ti]
            lo, hi = bounds(n, sg)
            if rng.random() < 0.6:
                cands = [lo - 1, hi + 1, POW[n], -POW[n], hi + POW[n], lo - POW[n], -1, POW[n] // 2, -(POW[n] // 2) - 1,
                         POW[n] * 2 ** 67 + 5]
                bad = rng.choice([c for c in cands if not (lo <= c <= hi)])
                kind = "range"
                why = "the out-of-range integer %d (the Int selected for this packet, %s, represents [%d, %d])" % (
                    bad, dyn_cfg_text(cfgs[ti]), lo, hi)
            else:
                v = rng.choice([c for c in (0, 1, 7, 100, lo, hi, values[spec.targets[ti]]) if lo <= c <= hi])
                cands = [1.5, "1", b"\x01", None]
                cands += [o for o in (make_nonint(k, v) for k in ("float", "Fraction", "Decimal", "complex")) if o is not None]
                bad = rng.choice(cands)
                kind = "nonint"
                why = "the non-integer %s (the Int selected for this packet is %s)" % (_describe(bad), dyn_cfg_text(cfgs[ti]))
            values[spec.targets[ti]] = bad
            st = {"op": "reject", "via": rng.choice(("ctor", "attr")), "kind": kind, "why": why,
                  "assign": dict((k, tag(v)) for k, v in values.items())}
            touch(cfgs, st)
            steps.append(st)
            continue
        if 0.955 <= r < 0.965:
            raw, _values, _araw, _av = frame(i, selvals, cfgs)
            st = {"op": "trunc", "raw_hex": raw[:rng.randrange(nsel, len(raw))].hex()}
            touch(cfgs, st)
            steps.append(st)
            continue
        raw, values, araw, avalues = frame(i, selvals, cfgs)
        if 0.50 <= r < 0.90:
            st = {"op": "pack", "via": ("ctor", "attr", "reuse", "reuse")[rng.randrange(4)], "expect_hex": raw.hex(),
                  "assign": dict((k, tag(v)) for k, v in values.items())}
            if araw is not None:
                st["alt_hex"] = araw.hex()
        else:
            st = {"op": "unpack", "raw_hex": raw.hex(), "expect": dict((k, tag(v)) for k, v in values.items())}
            if avalues:
                st["alt"] = dict((k, tag(v)) for k, v in avalues.items())
            if rng.random() < 0.15:
                st["hold"] = True
                held.append((len(steps), raw, araw, cfgs))
        touch(cfgs, st)
        steps.append(st)
    return steps


def run_dyn_steps(cls, steps, stats):
    """Execute a history of the run-time selected part on the real class.
    -> (status, step index, what, got)   status in 'ok' | 'violation'; unjudged outcomes are counted in stats."""
    import gc
    from bisturi.packet import PacketError
    held = {}
    reuse = None
    for idx, st in enumerate(steps):
        op = st["op"]
        if op == "gc":
            gc.collect()
            stats["dyn_gc_collections"] += 1
            continue
        if op == "drop":
            stats["dyn_held_packets_dropped"] += len(held)
            held.clear()
            continue
        if op == "unpack":
            raw = bytes.fromhex(st["raw_hex"])
            try:
                pkt = cls.unpack(raw)
            except PacketError as e:
                return ("violation", idx, "unpack of a complete input raised PacketError",
                        "PacketError: %s" % str(e.original_error_message)[:120])
            except Exception as e:
                return "violation", idx, "unpack of a complete input raised %s" % type(e).__name__, repr(e)[:120]
            alt = st.get("alt")
            for f, t in st["expect"].items():
                try:
                    got = getattr(pkt, f)
                except Exception as e:
                    got = "<%s>" % type(e).__name__
                want = untag(t)
                if alt is not None and f in alt:
                    other = untag(alt[f])
                    if want == other:
                        stats["dyn_unfixed_order_ambiguous_pattern"] += 1
                        if got == want:
                            continue
                    elif got == want:
                        stats["dyn_unfixed_order_read_as_big"] += 1
                        continue
                    elif got == other:
                        stats["dyn_unfixed_order_read_as_class_default"] += 1
                        continue
                    return ("violation", idx, "decoded value is the two's-complement value of the bytes in neither byte "
                            "order (field %s, expected %r or %r)" % (f, want, other), repr(got))
                if got != want:
                    return ("violation", idx, "decoded value differs from the two's-complement value of the bytes under "
                            "the configuration selected for this packet (field %s, expected %r)" % (f, want), repr(got))
            if st.get("hold"):
                held[idx] = pkt
                stats["dyn_held_packets"] += 1
            stats["dyn_unpack_checked"] += 1
            continue
        if op == "trunc":
            raw = bytes.fromhex(st["raw_hex"])
            try:
                pkt = cls.unpack(raw)
            except PacketError:
                stats["dyn_truncated_rejections"] += 1
                continue
            except Exception as e:
                stats["unjudged:dyn truncated input raised %s instead of PacketError" % type(e).__name__] += 1
                continue
            return ("violation", idx, "input with fewer bytes than the selected field width was decoded instead of "
                    "raising PacketError", repr(dict((f, getattr(pkt, f, None)) for f in ("x", "y", "t"))))
        if op == "repack":
            pkt = held.get(st["of"])
            if pkt is None:
                stats["dyn_repack_target_missing"] += 1
                continue
        elif op in ("pack", "reject"):
            try:
                assign = dict((k, untag(v)) for k, v in st["assign"].items())
                via = st.get("via")
                if via == "ctor":
                    pkt = cls(**assign)
                else:
                    if via == "reuse":
                        if reuse is None:
                            reuse = cls()
                        pkt = reuse
                    else:
                        pkt = cls()
                    for k, v in assign.items():
                        setattr(pkt, k, v)
            except Exception as e:
                stats["unjudged:dyn could not build the packet: %s" % type(e).__name__] += 1
                continue
        else:
            raise ValueError(op)
        try:
            out = pkt.pack()
        except PacketError as e:
            if op == "reject":
                stats["dyn_%s_rejections" % st["kind"]] += 1
                continue
            return ("violation", idx, "pack of a value representable under the configuration selected for this packet "
                    "raised PacketError", "PacketError: %s" % str(e.original_error_message)[:120])
        except Exception as e:
            if op == "reject":
                return ("violation", idx, "pack of %s raised %s rather than PacketError" % (st["why"], type(e).__name__),
                        repr(e)[:120])
            return ("violation", idx, "pack of a value representable under the configuration selected for this packet "
                    "raised %s" % type(e).__name__, repr(e)[:120])
        if op == "reject":
            return ("violation", idx, "pack of %s returned bytes (wrapped/truncated/padded) instead of raising PacketError"
                    % st["why"], out.hex())
        got = out.hex()
        if got != st["expect_hex"]:
            if "alt_hex" not in st:
                if op == "repack":
                    return ("violation", idx, "packing the parsed packet again does not give back the bytes it was decoded "
                            "from (expected %s)" % st["expect_hex"], got)
                return ("violation", idx, "packed bytes differ from the two's-complement encoding under the configuration "
                        "selected for this packet (expected %s)" % st["expect_hex"], got)
            if got != st["alt_hex"]:
                return ("violation", idx, "packed bytes are the two's-complement encoding in neither byte order "
                        "(expected %s or %s)" % (st["expect_hex"], st["alt_hex"]), got)
            stats["dyn_unfixed_order_written_as_class_default"] += 1
        elif "alt_hex" in st:
            stats["dyn_unfixed_order_written_as_big" if st["alt_hex"] != got else "dyn_unfixed_order_ambiguous_pattern"] += 1
        if op == "repack":
            stats["dyn_held_packets_repacked"] += 1
            if st.get("unfixed"):
                stats["dyn_unfixed_order_repacked_to_the_parsed_bytes"] += 1
        stats["dyn_pack_checked"] += 1
    return "ok", None, None, None


def dyn_window(steps, start, end):
    """steps[start..end] re-based so that they run on their own; None when a re-pack refers to a packet parsed earlier"""
    out = []
    for st in steps[start:end + 1]:
        if st["op"] == "repack":
            if st["of"] < start:
                return None
            st = dict(st, of=st["of"] - start)
        out.append(st)
    return out


def dyn_report(ctx, spec, steps, idx, what, got):
    """Record a violation of the run-time selected part; the witness is the shortest tail of the history that shows the
    same on a freshly defined class (else the whole history up to the failing step)."""
    import collections
    run = ctx.run
    window, reproduced = None, False
    for size in (1, 2, 3, 5, 9, 17, 65, idx + 1):
        size = min(size, idx + 1)
        w = dyn_window(steps, idx + 1 - size, idx)
        if w is not None:
            try:
                d = common.scratch_dir("bvf_c05d_")
                try:
                    module, _ = render.load_source(HEADER + spec.src, d)
                    try:
                        st2, i2, what2, got2 = run_dyn_steps(getattr(module, spec.name), w, collections.Counter())
                    finally:
                        sys.modules.pop(module.__name__, None)
                finally:
                    common.drop_scratch(d)
            except Exception:
                break
            if st2 == "violation" and i2 == len(w) - 1:
                window, reproduced, what, got = w, True, what2, got2
                break
        if size == idx + 1:
            break
    if window is None:
        window = steps[:idx + 1]
    st = window[-1]
    chosen = ", ".join("%s = %s" % (t, c) for t, c in sorted(st.get("cfg", {}).items()))
    before = ", ".join("%s = %s" % (t, c) for t, c in sorted(st.get("prev", {}).items())) or "nothing"
    witness = {"class_name": spec.name, "class_src": HEADER + spec.src, "config": spec.config(),
               "dyn": {"variant": spec.variant, "steps": window, "failed_step": len(window) - 1,
                       "step_in_the_run": idx, "reproduced_on_a_fresh_class": reproduced},
               "got": got}
    run.violation("%s [field produced at run time by the callable of a Ref: %s selected for this packet; the previous "
                  "operation through the same Ref selected %s; %s step %d of a history of %d operations through class %s, "
                  "variant %s, options %s, class default %r]" % (
                      what, chosen, before, st["op"], idx, len(steps), spec.name, spec.variant, spec.opt, spec.cd),
                  witness, None)
    ctx.dyn_violations += 1
    if run.counters["violations"] >= MAX_VIOLATIONS:
        ctx.stop = True


def dyn_part(ctx, scratch):
    """Histories through classes whose integer field is selected at run time (see the module docstring)."""
    import collections
    run = ctx.run
    tier = run.tier
    shard, nshards = run.shard
    nsteps = 3000 if tier == "thorough" else 2000
    t_start = time.time()
    bcache = {}
    sampled = 0
    for idx, (variant, optname, cd, tail) in enumerate(dyn_plan(tier)):
        if idx % nshards != shard:
            continue
        if ctx.stop or ctx.dyn_violations >= DYN_MAX_VIOLATIONS:
            break
        spec = dyn_make_spec(idx, variant, optname, cd, tail, tier, run.seed)
        try:
            module, _path = render.load_source(HEADER + spec.src, scratch)
        except Exception as e:
            run.inconclusive_because("class-definition-failed:%s:%s:%s" % (spec.name, type(e).__name__, str(e)[:120]))
            continue
        try:
            spec.module, spec.cls = module, getattr(module, spec.name)
            generated = "unpack_impl" in spec.cls.__dict__ and "pack_impl" in spec.cls.__dict__
            if (optname == "gen") == generated:
                run.inconclusive_because("dyn class %s: generated code %s but options %s" % (spec.name, generated, optname))
            gstats = collections.Counter()
            try:
                steps = dyn_history(spec, rng_for(run.seed, "c05", "dynhist", idx), nsteps, bcache, gstats)
            except AssertionError as e:
                run.inconclusive_because("harness-disagreement: %s" % e)
                continue
            xstats = collections.Counter()
            status, fidx, what, got = run_dyn_steps(spec.cls, steps, xstats)
            if status != "ok":
                run.case(key=None, n=fidx + 1)
                dyn_report(ctx, spec, steps, fidx, what, got)
                continue
            for st_ in (gstats, xstats):
                for k, v in st_.items():
                    if v:
                        run.count(k, v)
            nops = sum(1 for st in steps if st["op"] not in ("gc", "drop"))
            nchunks = max(1, len(steps) // DYN_CHUNK)
            for c in range(nchunks):
                run.case(key="%s|dyn-history:%d" % (spec.name, c), n=nops // nchunks + (1 if c < nops % nchunks else 0))
            run.count("dyn_classes")
            run.count("dyn_histories")
            run.count({"sel": "dyn_fresh_int_classes", "flds": "dyn_fresh_int_classes", "keep": "dyn_fresh_int_classes",
                       "chooses": "dyn_chooses_classes", "table": "dyn_table_classes", "table2": "dyn_table_classes",
                       "mixed": "dyn_mixed_classes"}[variant])
            run.count("dyn_generated_code_classes" if generated else "dyn_generic_code_classes")
            if cd is not None:
                run.count("dyn_classes_with_a_class_default")
            run.cover("dyn_variant_x_options_x_class_default", "%s/%s/%s" % (variant, optname, cd))
            for _sv, cfgs in spec.domain:
                for c in cfgs:
                    run.cover("dyn_widths", c[0])
                    run.cover("dyn_spellings", repr(c[2]))
            if variant == "keep":
                ids = getattr(module, "IDS_%s" % spec.name)
                run.count("dyn_fresh_fields_built", len(ids))
                run.count("dyn_fresh_field_ids_recycled", len(ids) - len(set(ids)))
                run.count("dyn_fresh_fields_alive_at_the_end", len(getattr(module, "KEEP_%s" % spec.name)))
            if sampled < 2 and variant in ("sel", "chooses"):
                run.sample({"class_src": spec.src, "history_steps": [s for s in steps if s["op"] in ("unpack", "pack")][:3],
                            "history_length": len(steps)}, cap=8)
                sampled += 1
        finally:
            sys.modules.pop(module.__name__, None)
    run.extra["dyn_part_seconds"] = round(time.time() - t_start, 1)


def run(run):
    from bisturi.packet import PacketError  # noqa: F401  (fail early when the import is broken)
    shard, nshards = run.shard
    tier = run.tier
    ctx = Ctx(run)
    scratch = common.scratch_dir("bvf_c05_")
    run.extra["widths"] = widths(tier)
    run.extra["configurations_per_width"] = [[n, 2 * len(order_configs(tier, n))] for n in widths(tier)]
    run.extra["exhaustive_subspace"] = (
        "n=1: all 256 byte patterns decoded and all 256 representable values encoded on every class of every "
        "configuration of this tier" + ("; n=2: all 65536 patterns likewise" if tier == "thorough" else ""))
    run.extra["sys_byteorder"] = sys.byteorder
    unit = 0
    sampled = 0
    try:
        # first (small heap, the garbage collections are cheap): the fields selected at run time
        dyn_part(ctx, scratch)
        for n in widths(tier):
            configs = [(signed, sp, cd) for signed in (False, True) for (sp, cd) in order_configs(tier, n)]
            mine = []
            for ci, cfg in enumerate(configs):
                if unit % nshards == shard:
                    mine.append((ci, cfg))
                unit += 1
            if not mine or ctx.stop:
                continue
            groups = pattern_groups(n, run.seed, exhaustive16=(tier == "thorough"))
            bpats = boundary_patterns(n)
            rnd_x = bytes(rng_for(run.seed, "c05", "trunc", n).randrange(256) for _ in range(n))
            # expected values per (order, signed), from the oracle; decode/encode cross-checked
            exp_cache = {}

            def expected(gkey, pats, order, signed):
                k = (gkey, order, signed)
                if k not in exp_cache:
                    vals = [decode(p, order, signed) for p in pats]
                    for p, v in zip(pats, vals):
                        if encode(v, n, order, signed) != p:
                            run.inconclusive_because("harness-disagreement: oracle decode/encode are not inverse")
                    run.count("oracle_selfchecks", len(pats))
                    exp_cache[k] = vals
                return exp_cache[k]

            # define this width's classes: one real source file per configuration, as a user would write it
            recs_by_cfg = []
            modnames = []
            for ci, (signed, sp, cd) in mine:
                recs = make_records(n, signed, sp, cd, tier)
                try:
                    module, path = render.load_source(HEADER + "\n".join(r.src for r in recs), scratch)
                except Exception as e:
                    # class definition is not what C05 is about: a harness-level failure
                    run.inconclusive_because("class-definition-failed:%s:%s:%s" % (recs[0].name, type(e).__name__, str(e)[:120]))
                    continue
                modnames.append(module.__name__)
                recs_by_cfg.append((ci, (signed, sp, cd), recs))
                for r in recs:
                    r.cls = getattr(module, r.name)
                    r.inst = r.cls()
                    r.modname = module.__name__
                    run.count("classes_defined")
                    observe_class(run, r, scratch)
                run.count("configurations")
                if sp is None and cd is not None:
                    run.count("class_default_configs")
                if sp is not None and cd is not None:
                    run.count("explicit_over_class_default_configs")
                run.cover("widths", n)
                run.cover("endianness_spellings", repr(sp))
                run.cover("class_defaults", repr(cd))
                run.cover("byte_order_configs", "%r/%r" % (sp, cd))

            nfan = fanout(tier, n)
            hpools = {}
            for ci, (signed, sp, cd), recs in recs_by_cfg:
                if ctx.stop:
                    break
                order = recs[0].order
                if signed not in hpools:
                    hpools[signed] = history_pool(n, signed, run.seed)
                hpool = hpools[signed]
                # boundaries + per-class cases on every class
                bexp = expected("boundary", bpats, order, signed)
                for ri, r in enumerate(recs):
                    if r.layout == "ref":
                        full = (sp == ("big", "little")[n % 2] and cd is None)
                    else:
                        full = (sp is None and cd == (None, "little")[n % 2])
                    if tier == "thorough":
                        full = full or (sp in (None, "big", "little") and cd in (None, "little") and r.layout != "ref")
                    if ctx.stop:
                        break
                    run.cover("layout_x_options", "%s/%s" % (r.layout, r.opt))
                    r.full, r.salt = full, ci * 7 + ri + n
                    history_pre(ctx, r, hpool, r.full, r.salt)      # first: the class has not packed anything yet
                    if not r.bad and not ctx.stop:
                        check_group(ctx, r, "boundary", bpats, bexp)
                    if not r.bad and not ctx.stop:
                        per_class_cases(ctx, r, rnd_x, full, ci * 7 + ri + n)
                for gi, (gkey, pats) in enumerate(groups):
                    if ctx.stop:
                        break
                    exps = None
                    for r in classes_for_group(recs, gi, ci, nfan):
                        if r.bad:
                            continue
                        if exps is None:
                            exps = expected(gkey, pats, order, signed)
                        check_group(ctx, r, gkey, pats, exps)
                        if sampled < 6 and gi == len(groups) // 2 and r.layout == LAYOUTS[sampled % 3]:
                            uop, pop = ops_for(r, pats, exps, 7 % len(pats))
                            run.sample({"class_src": r.src, "unpack": op_to_witness(uop), "pack": op_to_witness(pop)})
                            sampled += 1
                for r in recs:
                    if not r.bad and not ctx.stop:
                        history_late(ctx, r, hpool, r.full, r.salt, bexp)
            for mn in modnames:
                sys.modules.pop(mn, None)
    finally:
        run.extra["history_part_seconds"] = round(ctx.hist_seconds, 1)
        common.drop_scratch(scratch)


def check_group(ctx, rec, gkey, pats, exps):
    run = ctx.run
    bad_i = hot_group(rec, pats, exps)
    if bad_i is None:
        m = len(pats)
        run.case(key="%s|%s" % (rec.name, gkey), n=2 * m)
        mult = 2 if rec.layout in SEQ_LAYOUTS else 1
        if rec.layout in WRAPPED_OPTS:
            run.count("layout_%s_checked" % rec.layout, m)
            if rec.spelling is None and rec.order == "little" and rec.n >= 2 and rec.layout != "ref":
                run.count("%s_class_default_little_checked" % rec.layout, m)
        run.count("unpack_checked", m)
        run.count("pack_checked", m)
        run.count("int_values_decoded", m * mult)
        return True
    i = max(bad_i, 0)
    uop, pop = ops_for(rec, pats, exps, i)
    run.case(key=None, n=2)
    confirmed = False
    for op in (uop, pop):
        status, what, got = perform(rec.cls, op)
        if status == "violation":
            ctx.report(rec, op, what, got)
            confirmed = True
            break
    if not confirmed:
        # the hot loop reuses one packet instance for pack; the slow path builds a fresh one
        run.inconclusive_because("harness-disagreement: fast path flagged %s group %s index %d, generic executor did not"
                                 % (rec.name, gkey, i))
        rec.bad = True
    return False


def replay(run, rec):
    """Re-execute exactly the recorded operation on a class defined from the recorded source."""
    w = rec["witness"]
    scratch = common.scratch_dir("bvf_c05r_")
    try:
        module, _ = render.load_source(w["class_src"], scratch)
        cls = getattr(module, w["class_name"])
        if "dyn" in w:
            import collections
            status, idx, what, got = run_dyn_steps(cls, w["dyn"]["steps"], collections.Counter())
            if status == "violation":
                what = "%s [run-time selected field, step %d of the recorded history]" % (what, idx)
        elif "history" in w:
            # the whole recorded sequence, on the freshly defined class (steps the run had already done on the class
            # through its main part - replay_only - are executed too)
            status, idx, what, got, _obs = run_steps(cls, w["history"]["steps"], replaying=True)
            if status == "violation":
                what = "%s [history %s, step %d]" % (what, w["history"]["scenario"], idx)
        else:
            status, what, got = perform(cls, op_from_witness(w["op"]))
        run.case(key="replay", nontrivial=True)
        print("replay: %s -> %s %s got=%s" % (w["class_name"], status, what or "", got))
        if status == "violation":
            run.violation(what, dict(w, got=got), None)
        # a replay is one execution: the coverage counters of a full run are (honestly) absent, so a replay
        # that does not reproduce ends INCONCLUSIVE (nothing explored), one that reproduces ends VIOLATION.
        run.extra["replay_of"] = w["class_name"]
        run.extra["replay_outcome"] = status
    finally:
        common.drop_scratch(scratch)
