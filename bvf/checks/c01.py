"""C01  Parse-then-serialize reproduces the parsed bytes.

Trace oracle (model-free): the Recorder gives, for a successful unpack of the all-generic
variant, the leaf value spans [enter, exit) of every field; consumed = their union, overlap =
two non-empty leaf spans share a byte, extent = highest cursor reached.  pack() of the result
must then
  (a) equal raw at every consumed position (relative to the start offset),
  (b) be '.' at every traversed-but-unconsumed position,
  (c) be no longer than the extent,
  (d) not raise when no two spans overlap,
  (e) raise PacketError when two spans overlap.
The default (generated, vectorised) variant of the same declaration is held to the same
oracle.  Independently the reference model must report the same consumed set
(otherwise: harness-disagreement -> inconclusive, never a violation).
"""
from .. import common, driver, harness, model, monitors, render
from ..common import rng_for, b2j

LEVEL = "exploration"
SHARDS = {"quick": 1, "thorough": 16}
REQUIRED = ("families_with_end_marks_and_backward_empty_fields", "placeholder_positions_checked", "families_with_selected_int_without_byte_order_in_little_endian_class", "earlier_parses_repacked", "position_sweep_cases", "roundtrips_checked", "leaf_events", "holes_checked", "overlap_cases", "offsets_nonzero")
MIN_NONTRIVIAL = 100
RULE = {
    "quick": "seeded generator of declaration families over the whole language (Int all widths, Data in 7 sizing modes, Bits runs, "
             "Ref, run-time selected Ref, repeated/when/at/shift/aligned/Em, class endianness/align/search_buffer_length, nesting<=3) "
             "x inputs from the lazy-buffer generator (holes filled with random non-'.' bytes) x start offsets {0,1,3,7,random} with "
             "random prefix where relative positioning is well defined. ~450 families x 14 inputs. Non-trivial = unpack succeeded and "
             "at least one byte was consumed; distinct = (declaration skeleton, input class[offset-class, #leaf spans, holes?, overlap?]).",
    "thorough": "as quick with 16 shards x 2500 families, nesting<=4.",
}
ASSUMPTIONS = [
    "field enter/exit cursor spans observed through get_fields() wrappers of the all-generic variant are the bytes a field consumed",
    "excluded by the statement: regex delimiter not kept that can match different strings, consume_delimiter=False, embed=True",
    "offset rule: declarations positioned relative to the start of the data (begins) are run only at offsets where relative and absolute positions agree",
]

VARIANTS = {"g": render.VARIANTS["g"], "d": {}}


def profile_for(run):
    p = {"p_move": 0.22, "p_backward_at": 0.3, "p_describe": 0.08}
    if run.tier == "thorough":
        p["max_depth"] = 4
    return p


def check_output(run, bench, variant, raw, off, out, consumed, extent, spans, witness):
    """Conditions (a)-(c)."""
    for p in consumed:
        if off + p >= len(raw):
            run.count("consumed_beyond_input(C04 business)")
            continue
        if p >= len(out) or out[p] != raw[off + p]:
            run.violation("pack() differs from raw at a consumed byte",
                          dict(witness, variant=variant, position=p, packed=b2j(out)), None)
            return False
    for p in range(len(out)):
        if p not in consumed:
            run.count("holes_checked")
            if out[p] != 0x2E:
                run.violation("pack() holds a non-fill byte at a skipped position",
                              dict(witness, variant=variant, position=p, packed=b2j(out)), None)
                return False
    for pos, cls, name in witness.get("placeholders", ()):
        # an empty placeholder / empty byte string sits at `pos`: everything the parse skipped on its way there must be in the
        # output as fill bytes, so the output reaches at least that far
        run.count("placeholder_positions_checked")
        if len(out) < pos:
            run.violation("pack() ends before the position of an empty field / placeholder the parse reached: skipped positions before it are missing",
                          dict(witness, variant=variant, packed=b2j(out), placeholder=[pos, cls, name]), None)
            return False
    if len(out) > extent:
        run.violation("pack() is longer than the region the parse traversed",
                      dict(witness, variant=variant, packed=b2j(out), extent=extent), None)
        return False
    return True


def one_case(run, bench, rng, raw, off):
    fam = bench.fam
    st, mr = harness.model_parse(fam, raw, off)
    if st == "undefined":
        run.count("model_undefined_skipped")
        return
    res, roots, slices, _ = bench.traced_unpack("g", raw, off)
    run.case(nontrivial=False)
    if res.status == "timeout":
        run.count("watchdog_skipped")
        return
    if res.status != "ok":
        run.count("inputs_rejected")
        return
    spans, consumed, overlap, extent = driver.observed_spans(roots, off)
    run.count("leaf_events", len(spans))
    witness = {"source": driver.src_of(bench), "raw": b2j(raw), "offset": off, "spans": spans, "fam": fam}
    # zero-width leaves that serialize an (empty) chunk where they stand: Em and empty byte strings written plainly in a declaration
    placeholders = []
    for n in monitors.leaves(roots):
        if n.exit is not None and n.exit == n.enter and n.enter - off >= 0:
            decl = fam["decls"].get(str(n.cls).rsplit("_", 1)[0])
            f = next((x for x in (decl["fields"] if decl else ()) if x["name"] == n.name), None)
            if f is not None and f["t"] in ("em", "data") and not any(k in f for k in ("rep", "opt", "describe")):
                placeholders.append((n.enter - off, n.cls, n.name))
    witness["placeholders"] = placeholders
    if off:
        run.count("offsets_nonzero")
    # secondary oracle: the model must see the same consumed bytes
    disagree = None
    if st == "ok":
        mcons = set(p - off for p in mr.trace.consumed())
        if mcons != consumed:
            disagree = dict(witness, model=sorted(mcons), trace=sorted(consumed))
    elif st == "fail":
        run.count("model_rejects_but_library_accepts(C04 business)")
    before = run.counters["violations"] + sum(v["count"] for v in run.known_hits.values())
    judge_pack(run, bench, rng, raw, off, res, spans, consumed, overlap, extent, witness)
    after = run.counters["violations"] + sum(v["count"] for v in run.known_hits.values())
    if disagree is not None and after == before:
        # the model-free oracle found nothing but the reference model reads other bytes than the library did:
        # one of the two misrepresents the declaration -> not a verdict
        run.count("harness_disagreement")
        run.inconclusive_because("model-and-trace-disagree-on-consumed-bytes")
        run.extra.setdefault("disagreements", []).append(disagree)


def judge_pack(run, bench, rng, raw, off, res, spans, consumed, overlap, extent, witness):
    fam = bench.fam
    pr = harness.lib_pack(res.pkt)
    cls_key = (bench.skeleton, min(off, 2), min(len(spans), 6), len(consumed) < extent, overlap)
    run.case(key=cls_key, nontrivial=bool(consumed), n=0)
    if consumed:
        run.count("roundtrips_checked")
    if pr.status == "timeout":
        run.count("watchdog_skipped")
        return
    if overlap:
        run.count("overlap_cases")
        if pr.status == "ok":
            run.violation("two fields consumed overlapping bytes but pack() returned bytes instead of raising PacketError",
                          dict(witness, packed=b2j(pr.pkt)), None)
        elif pr.status == "exception":
            run.violation("overlap made pack() raise %s instead of PacketError" % pr.etype, dict(witness, error=repr(pr.err)), None)
        else:
            run.count("overlap_rejected_by_pack")
        return
    if pr.status != "ok":
        run.violation("pack() of a successfully parsed packet raised although no two fields consumed the same byte",
                      dict(witness, error=str(pr.err)[:400]), None)
        return
    if not check_output(run, bench, "g", raw, off, pr.pkt, consumed, extent, spans, witness):
        return
    # generated / vectorised variant of the same declaration
    rd = harness.lib_unpack(bench.root("d"), raw, off)
    if rd.status == "timeout":
        run.count("watchdog_skipped")
        return
    if rd.status != "ok":
        run.violation("generated variant rejects an input the generic variant accepts", dict(witness, error=str(rd.err)[:300]), None)
        return
    pd = harness.lib_pack(rd.pkt)
    if pd.status == "timeout":
        run.count("watchdog_skipped")
        return
    if pd.status != "ok":
        run.violation("pack() (generated variant) raised although no two fields consumed the same byte",
                      dict(witness, error=str(pd.err)[:400]), None)
        return
    run.count("generated_variant_roundtrips")
    check_output(run, bench, "d", raw, off, pd.pkt, consumed, extent, spans, witness)
    # second parse of a sibling input must not disturb the first packet's serialization (cheap purity probe)
    if len(run.samples) < 4 and consumed:
        run.sample({"source": driver.src_of(bench), "raw": raw, "offset": off, "spans": spans, "packed": pr.pkt})


def position_sweep(run, bench, rng, raw, off):
    """Dense overlap geometry: every one-byte field that steers a position (at/shift target) is set to
    every small value, so fields land before, flush against, one byte into, and fully inside
    already consumed bytes."""
    fam = bench.fam
    st, mr = harness.model_parse(fam, raw, off)
    if st != "ok":
        return
    steer = []
    for fe in mr.trace.fields:
        if fe["end"] - fe["start"] != 1 or fe["t"] not in ("int", "bits"):
            continue
        decl = fam["decls"][fe["cls"]]
        f = next((x for x in decl["fields"] if x["name"] == fe["name"]), None)
        if f is not None and "pos" in (f.get("hint") or {}) and fe["start"] < len(raw):
            steer.append(fe["start"])
    top = min(mr.trace.extent - off + 3, 40)
    for pos in steer[:2]:
        for v in range(0, max(top, 4)):
            if raw[pos] == v:
                continue
            b = bytearray(raw)
            b[pos] = v
            run.count("position_sweep_cases")
            one_case(run, bench, rng, bytes(b), off)


def run(run):
    shard, nshards = run.shard
    rng = rng_for(run.seed, "c01", shard)
    nfam = 450 if run.tier == "quick" else 2500
    ninputs = 14
    # second population: positioning-heavy declarations (several at/shift fields, backward targets) so that
    # fields land in holes, flush against and one byte into other fields
    overlap_profile = {"p_backrun": 0.25, "p_move": 0.6, "p_backward_at": 0.5, "max_fields": 5, "max_depth": 2, "p_rep": 0.08, "p_opt": 0.05,
                       "moves": {"at": 7, "shift": 3, "aligned": 1}, "references": {"innermost-pkt": 5, "begins": 2, "current-offset": 1},
                       "kinds": {"int": 45, "data": 40, "bits": 5, "ref": 6, "sel": 0, "em": 4}, "int_widths": [1, 1, 2, 2, 3, 4]}
    from .. import predicates
    import itertools as _it
    marks_profile = dict(overlap_profile, kinds={"int": 40, "data": 35, "bits": 3, "ref": 4, "sel": 0, "em": 18}, p_backrun=0.0, p_backward_at=0.8,
                         moves={"at": 8, "shift": 2, "aligned": 0}, accept=predicates.far_placeholder_then_backward_empty, min_fields=4, max_fields=6)
    for bench in _it.chain(driver.families(run, rng, overlap_profile, VARIANTS, nfam // 3, tag="c01o"),
                           driver.families(run, rng, marks_profile, VARIANTS, nfam // 4, tag="c01m")):
        if predicates.far_placeholder_then_backward_empty(bench.fam):
            run.count("families_with_end_marks_and_backward_empty_fields")
        run.count("positioning_heavy_families")
        for j in range(8):
            raw, oc = model.generate_input(bench.fam, rng, offset=0)
            run.count("gen_" + oc)
            try:
                one_case(run, bench, rng, raw, 0)
                if j < 4:
                    position_sweep(run, bench, rng, raw, 0)
            except RecursionError:
                run.count("recursion_skipped")
        if run.counters["violations"] > 30:
            return
    # third population: run-time selected references, repeated (the same alternative chosen several times in one
    # parse and in successive parses of one class)
    selector_profile = {"kinds": {"int": 30, "data": 10, "bits": 5, "ref": 5, "sel": 40, "em": 1}, "p_rep": 0.5, "max_depth": 2,
                        "sel_int_without_byte_order": True, "p_class_endianness": 0.6}
    def little_class_with_unordered_selected_int(fam):
        # a run-time selected Int of >= 2 bytes without a byte order of its own inside a class whose default is not big-endian
        for d in fam["decls"].values():
            if d["opts"].get("endianness") in ("little", "local"):
                for f in d["fields"]:
                    if f["t"] == "sel" and any(o["t"] == "int" and o.get("endian") is None and o["n"] >= 2 for o in f["options"].values()):
                        return True
        return False
    import itertools
    for bench in itertools.chain(driver.families(run, rng, selector_profile, VARIANTS, nfam // 5, tag="c01s"),
                                 driver.families(run, rng, dict(selector_profile, p_class_endianness=0.9, accept=little_class_with_unordered_selected_int),
                                                 VARIANTS, nfam // 12, tag="c01se")):
        run.count("selector_heavy_families")
        if little_class_with_unordered_selected_int(bench.fam):
            run.count("families_with_selected_int_without_byte_order_in_little_endian_class")
        held = []
        for j in range(10):
            raw, oc = model.generate_input(bench.fam, rng, offset=0)
            try:
                one_case(run, bench, rng, raw, 0)
                # a packet parsed earlier must still serialize to its own bytes after later parses of the class
                r = harness.lib_unpack(bench.root("g"), raw, 0)
                if r.status == "ok":
                    p = harness.lib_pack(r.pkt)
                    if p.status == "ok":
                        held.append((r.pkt, p.pkt, raw))
                for pkt, first, raw0 in held[:-1][-3:]:
                    again = harness.lib_pack(pkt)
                    run.count("earlier_parses_repacked")
                    if again.status == "timeout":
                        run.count("watchdog_skipped")
                        continue
                    if again.status != "ok" or again.pkt != first:
                        run.violation("a packet parsed earlier no longer serializes to its own bytes after another input was parsed with the same class",
                                      {"source": driver.src_of(bench), "raw": b2j(raw0), "later_input": b2j(raw), "first_pack": b2j(first),
                                       "pack_now": b2j(again.pkt) if again.status == "ok" else str(again.err)[:200], "fam": bench.fam}, None)
                        held = []
                        break
            except RecursionError:
                run.count("recursion_skipped")
        if run.counters["violations"] > 30:
            return
    for bench in driver.families(run, rng, profile_for(run), VARIANTS, nfam, tag="c01"):
        offs = driver.start_offsets(bench.fam, rng)
        for j in range(ninputs):
            off = offs[j % len(offs)] if j >= 4 else 0
            raw, oc = model.generate_input(bench.fam, rng, offset=off)
            run.count("gen_" + oc)
            try:
                one_case(run, bench, rng, raw, off)
                if j < 3:
                    position_sweep(run, bench, rng, raw, off)
            except RecursionError:
                run.count("recursion_skipped")
        if run.counters["violations"] > 30:
            break


def replay(run, rec):
    w = common.from_json(rec["witness"])
    d = common.scratch_dir("bvf_replay_")
    bench = harness.Bench(w["fam"], VARIANTS, d)
    bench.skeleton = "replay"
    one_case(run, bench, None, w["raw"], w.get("offset", 0))
