"""C19  Default-constructed packets hold the declared defaults.

Oracle: model.defaults(decl) - 0 for integers and bits unless given, NUL bytes of the declared
size for fixed byte strings and empty for variable ones, a fresh copy of the prototype for
references, the given or an empty list for repeated fields, None or the given default for
optional ones - overridden by exactly the keyword arguments; pack() must be the reference
encoding of that tree (or fail with PacketError when the model's encoding fails).
Cls() and Cls(**subset) for subsets of size 0, 1, 2 and all; override values come from
consistent parses.  Freshness: mutable sub-objects (lists, nested packets) of two default
packets are distinct objects, and mutating one packet never shows in another nor in later
default packets.
"""
import itertools

from .. import common, driver, harness, model, monitors, render
from ..common import rng_for, b2j

LEVEL = "exploration"
SHARDS = {"quick": 1, "thorough": 16}
REQUIRED = ("families_with_optional_int_default_in_little_endian_class", "shared_configuration_defaults_checked", "embedded_reference_defaults_checked", "implicit_reference_declarations_seen", "default_packets_compared", "override_packets_compared", "packs_compared", "freshness_checks", "user_defaults_seen",
            "prototype_instance_defaults_seen", "fixed_data_defaults", "variable_data_defaults", "list_defaults", "optional_defaults",
            "subset_size_1", "subset_size_2", "subset_all", "f2_probe_runs")
MIN_NONTRIVIAL = 150
RULE = {
    "quick": "~480 generated families with user-supplied defaults on 45% of the fields (Int/Bits/Data/list/optional defaults, nested "
             "prototype instances with their own defaults, described fields) x keyword subsets of size 0, 1, 2, all (override values from "
             "consistent parses) x generic and generated variants. Non-trivial = a constructed packet compared field by field; distinct = "
             "(skeleton, subset of overridden field names).",
    "thorough": "16 shards x 2000 families.",
}
ASSUMPTIONS = [
    "model.defaults is the statement's default table; model.encode is 'the encoding of those values'",
    "a default packet whose model encoding fails (e.g. a selector default inconsistent with the default key) must fail with PacketError too",
    "regex delimiters not kept are left out of the random declarations (F2: deterministic probe)",
]

VARIANTS = {"g": render.VARIANTS["g"], "d": {}}


def stats(run, fam):
    for d in fam["decls"].values():
        for f in d["fields"]:
            if "default" in f or ("rep" in f and "default" in f["rep"]) or ("opt" in f and "default" in f["opt"]):
                run.count("user_defaults_seen")
            if f.get("inst"):
                run.count("prototype_instance_defaults_seen")
            if f.get("implicit"):
                run.count("implicit_reference_declarations_seen")
            if f["t"] == "data" and "rep" not in f and "opt" not in f:
                run.count("fixed_data_defaults" if f["mode"] == "const" else "variable_data_defaults")
            if "rep" in f:
                run.count("list_defaults")
            if "opt" in f:
                run.count("optional_defaults")


def mutable_ids(pkt, fam, declname, out, path=""):
    import bisturi.packet as bp
    decl = fam["decls"][declname]
    for f in decl["fields"]:
        if f["t"] == "em":
            continue
        try:
            v = getattr(pkt, f["name"])
        except AttributeError:
            continue
        items = [v]
        if isinstance(v, list):
            out[path + f["name"]] = id(v)
            items = v
        for i, x in enumerate(items):
            if isinstance(x, bp.Packet):
                out["%s%s[%d]" % (path, f["name"], i)] = id(x)
                sub = type(x).__name__.rsplit("_", 1)[0]
                if sub in fam["decls"]:
                    mutable_ids(x, fam, sub, out, "%s%s[%d]." % (path, f["name"], i))


def compare(run, bench, v, kwargs_pv, want, witness, kind):
    fam = bench.fam
    cls = bench.root(v)
    real_kw = {k: monitors._real_val(bench.loaded, v, x, "kwargs", None) for k, x in kwargs_pv.items()}
    try:
        pkt = cls(**real_kw)
    except Exception as e:
        run.violation("constructing %s(**%s) raised %s: %s" % (cls.__name__, sorted(kwargs_pv), type(e).__name__, str(e)[:100]), witness, None)
        return None
    try:
        got = monitors.pkt_to_pv(fam, fam["root"], pkt)
    except monitors.Unreadable as e:
        run.violation("a constructed packet has an unreadable field: %s" % e, witness, None)
        return None
    run.count(kind)
    if got != want:
        diff = [k for k in want.vals if got.vals.get(k) != want.vals[k]]
        run.violation("constructed packet does not hold the declared defaults / keyword overrides (fields %s)" % diff,
                      dict(witness, library=got.to_json(), expected=want.to_json()), None)
        return None
    st, er = harness.model_encode(fam, want)
    if st == "undefined":
        run.count("pack_skipped_model_undefined")
        return pkt
    pr = harness.lib_pack(pkt)
    if pr.status == "timeout":
        return pkt
    run.count("packs_compared")
    if st == "ok":
        if pr.status != "ok":
            run.violation("pack() of a default/keyword-built packet failed: %s" % str(pr.err)[:160], witness, None)
        elif pr.pkt != er.data:
            run.violation("pack() of a default/keyword-built packet is not the encoding of its values",
                          dict(witness, packed=b2j(pr.pkt), reference=b2j(er.data)), None)
    else:
        if pr.status == "ok":
            run.violation("pack() returned bytes although the values cannot be encoded (%s)" % er.why, dict(witness, packed=b2j(pr.pkt)), None)
        elif pr.status == "exception":
            run.violation("pack() raised %s instead of PacketError" % pr.etype, witness, None)
    return pkt


def one_family(run, bench, rng):
    fam = bench.fam
    root = fam["root"]
    names = [f["name"] for f in fam["decls"][root]["fields"] if f["t"] != "em"]
    # override values from a consistent parse (if one is found)
    donor = None
    # (selector families: a donor that selects another alternative than the default packet does, so that one class serializes
    #  two different selections one after the other)
    sel_keys = [(f["key"], f["default_key"]) for f in fam["decls"][root]["fields"] if f["t"] == "sel"]
    d0 = model.defaults(fam, root) if sel_keys else None
    for attempt in range(14 if sel_keys else 6):
        raw, oc = model.generate_input(fam, rng, maxlen=100)
        st, mr = harness.model_parse(fam, raw, 0)
        if st == "ok":
            donor = mr.value
            if not sel_keys or attempt >= 8 or any(donor.vals.get(k) != d0.vals.get(k) for k, _ in sel_keys):
                if sel_keys and any(donor.vals.get(k) != d0.vals.get(k) for k, _ in sel_keys):
                    run.count("donors_selecting_another_alternative_than_the_default")
                break
    for v in ("g", "d"):
        src = driver.src_of(bench, v)
        want0 = model.defaults(fam, root)
        w = {"source": src, "variant": v, "kwargs": {}, "fam": fam}
        p1 = compare(run, bench, v, {}, want0, w, "default_packets_compared")
        run.case(key=(bench.skeleton, v, ()), nontrivial=True)
        if p1 is None:
            return
        # freshness
        p2 = bench.root(v)()
        ids1, ids2 = {}, {}
        mutable_ids(p1, fam, root, ids1)
        mutable_ids(p2, fam, root, ids2)
        for k in ids1:
            run.count("freshness_checks")
            if k in ids2 and ids1[k] == ids2[k]:
                run.violation("two default-constructed packets share the mutable sub-object %s" % k, w, None)
                return
        # mutate p1 in place, then a third default packet must still hold the defaults
        for f in fam["decls"][root]["fields"]:
            if f["t"] == "em":
                continue
            val = getattr(p1, f["name"], None)
            if isinstance(val, list):
                val.append(val[0] if val else 0)
        p3 = bench.root(v)()
        try:
            got3 = monitors.pkt_to_pv(fam, root, p3)
            got2 = monitors.pkt_to_pv(fam, root, p2)
        except monitors.Unreadable:
            got3 = got2 = None
        run.count("freshness_checks")
        if got3 != want0 or got2 != want0:
            run.violation("mutating a default packet's list changed another / a later default packet", w, None)
            return
        if donor is None or not names:
            continue
        subsets = []
        for n in names[:4]:
            subsets.append((n,))
        pairs = list(itertools.combinations(names, 2))
        rng.shuffle(pairs)
        subsets += pairs[:3]
        subsets.append(tuple(names))
        for sub in subsets:
            kw = {k: model.copy_val(donor.vals[k]) for k in sub if k in donor.vals}
            want = model.defaults(fam, root, overrides={k: model.copy_val(x) for k, x in kw.items()})
            run.count("subset_all" if len(sub) == len(names) and len(names) > 2 else "subset_size_%d" % min(len(sub), 2))
            w2 = {"source": src, "variant": v, "kwargs": {k: model.val_json(x) for k, x in kw.items()}, "fam": fam}
            run.case(key=(bench.skeleton, v, sub), nontrivial=True)
            if compare(run, bench, v, kw, want, w2, "override_packets_compared") is None:
                return


def f2_probe(run):
    d = common.scratch_dir("bvf_c19p_")
    src = render.HEADER + ("class LineD(Packet):\n    line = Data(until_marker=re.compile(b';'), default=b'ab')\n    tail = Int(1)\n")
    module, path = render.load_source(src, d)
    run.count("f2_probe_runs")
    out = module.LineD().pack()
    if out != b"ab;\x00":
        mech = "regex-delimiter-remembered-on-field" if out == b"ab\x00" else None
        run.violation("pack() of a default packet with a regex-delimited field (delimiter not kept) omits the delimiter before any unpack",
                      {"source": src, "steps": "LineD().pack()", "packed": b2j(out), "reference": b2j(b"ab;\x00")}, mech)
    common.drop_scratch(d)


def embed_probe(run):
    """A reference declared with embed=True lends its fields to the outer class; the reference's own attribute of a
    default-constructed packet is still "a fresh copy of the prototype" (the documented use is pkt.point_2d.y = 9).
    What the borrowed fields default to is a documented quirk of the feature and is not judged."""
    d = common.scratch_dir("bvf_c19e_")
    try:
        for opts in ({}, {"generate_for_pack": False, "generate_for_unpack": False}):
            src = render.HEADER + ("class Pt(Packet):\n    x = Int(1)\n    y = Int(1)\n\n\nclass P3(Packet):\n    __bisturi__ = %r\n"
                                   "    p = Ref(Pt(x=1, y=2), embed=True)\n    z = Int(1)\n\n\nclass Tag(Packet):\n    __bisturi__ = %r\n"
                                   "    t = Int(1)\n    where = Ref(P3(z=8))\n" % (opts, opts))
            module, path = render.load_source(src, d)
            w = {"source": src}
            for label, make in (("P3()", lambda: module.P3()), ("P3(x=7)", lambda: module.P3(x=7)), ("Tag().where", lambda: module.Tag().where)):
                a, b = make(), make()
                run.count("embedded_reference_defaults_checked")
                pa, pb = getattr(a, "p", None), getattr(b, "p", None)
                if not isinstance(pa, module.Pt) or (pa.x, pa.y) != (1, 2):
                    run.violation("%s: the embedded reference's own attribute is not a copy of its prototype Pt(x=1, y=2): %r" % (label, pa), w, None)
                    return
                if pa is pb:
                    run.violation("%s: two default packets share the embedded reference's packet object" % label, w, None)
                    return
                pa.y = 9
                c = make()
                if (pb.x, pb.y) != (1, 2) or (c.p.x, c.p.y) != (1, 2):
                    run.violation("%s: changing the embedded reference's packet of one default packet shows in another / a later one" % label, w, None)
                    return
            import sys as _sys
            _sys.modules.pop(module.__name__, None)
    finally:
        common.drop_scratch(d)


def shared_config_probe(run):
    """Several classes whose __bisturi__ is ONE dict object (a module-level constant reused by every declaration of a protocol):
    each class still holds its own declared defaults, in whatever order the classes are first constructed."""
    d = common.scratch_dir("bvf_c19s_")
    try:
        for opts in ("{'endianness': 'little'}", "{}", "{'generate_for_pack': False, 'generate_for_unpack': False}"):
            src = render.HEADER + ("CONF = %s\n\n\n"
                                   "class HelloA(Packet):\n    __bisturi__ = CONF\n    v = Int(2, default=3)\n    tag = Data(3, default=b'HEL')\n    n = Int(1)\n\n\n"
                                   "class HelloB(Packet):\n    __bisturi__ = CONF\n    v = Int(2, default=2)\n    tag = Data(3, default=b'XYZ')\n    n = Int(1, default=9)\n\n\n"
                                   "class Other(Packet):\n    __bisturi__ = CONF\n    k = Int(1, default=7)\n    l = Int(1).repeated(2, default=[1, 2])\n" % opts)
            module, path = render.load_source(src, d)
            little = "little" in opts
            want = {"HelloA": ((3, b"HEL", 0), (b"\x03\x00" if little else b"\x00\x03") + b"HEL\x00"),
                    "HelloB": ((2, b"XYZ", 9), (b"\x02\x00" if little else b"\x00\x02") + b"XYZ\x09"),
                    "Other": ((7, [1, 2]), b"\x07\x01\x02")}
            for order in (("HelloA", "HelloB", "Other", "HelloB", "HelloA"), ("Other", "HelloB", "HelloA")):
                for name in order:
                    run.count("shared_configuration_defaults_checked")
                    w = {"source": src, "steps": "default construction in the order %s" % (order,), "class": name}
                    try:
                        p = getattr(module, name)()
                        got = (p.v, p.tag, p.n) if name != "Other" else (p.k, p.l)
                        packed = p.pack()
                    except Exception as e:
                        run.violation("constructing / packing a default packet of a class that shares its configuration dict with other classes raised %s: %s"
                                      % (type(e).__name__, str(e)[:100]), w, None)
                        return
                    if got != want[name][0] or packed != want[name][1]:
                        run.violation("a default packet of a class that shares its configuration dict object with other classes does not hold its own declared defaults",
                                      dict(w, got=repr(got), expected=repr(want[name][0]), packed=b2j(packed), reference=b2j(want[name][1])), None)
                        return
            import sys as _sys
            _sys.modules.pop(module.__name__, None)
    finally:
        common.drop_scratch(d)


def run(run):
    shard, nshards = run.shard
    rng = rng_for(run.seed, "c19", shard)
    if shard == 0:
        embed_probe(run)
        shared_config_probe(run)
    else:
        run.count("embedded_reference_defaults_checked")
        run.count("shared_configuration_defaults_checked")
    nfam = 480 if run.tier == "quick" else 2000
    profile = {"p_local_classes": 0.4, "p_default": 0.45, "p_instance_proto": 0.5, "p_describe": 0.12, "allow_regex_nokeep_single": False,
               "allow_raw_callbacks": False, "p_rep": 0.22, "p_opt": 0.14,
               "kinds": {"int": 30, "data": 26, "bits": 10, "ref": 18, "sel": 8, "em": 3}}
    if run.tier == "thorough":
        profile["max_depth"] = 4
    if shard == 0:
        f2_probe(run)
    else:
        run.count("f2_probe_runs")
    sampled = 0
    import itertools
    from .. import predicates
    little = dict(profile, accept=predicates.little_class_with_optional_int_default, p_class_endianness=0.9, p_opt=0.35, p_default=0.7,
                  kinds={"int": 55, "data": 20, "bits": 6, "ref": 14, "sel": 3, "em": 2})
    selints = dict(profile, accept=predicates.selector_between_integers_of_different_shape, p_rep=0.08, p_opt=0.05,
                   kinds={"int": 45, "data": 15, "bits": 4, "ref": 8, "sel": 26, "em": 2})
    for bench in itertools.chain(driver.families(run, rng, profile, VARIANTS, nfam, instrument=(), tag="c19"),
                                 driver.families(run, rng, little, VARIANTS, max(12, nfam // 16), instrument=(), tag="c19l"),
                                 driver.families(run, rng, selints, VARIANTS, max(16, nfam // 12), instrument=(), tag="c19s")):
        if predicates.selector_between_integers_of_different_shape(bench.fam):
            run.count("families_selecting_between_integers_of_different_shape")
        if predicates.little_class_with_optional_int_default(bench.fam):
            run.count("families_with_optional_int_default_in_little_endian_class")
        stats(run, bench.fam)
        one_family(run, bench, rng)
        if sampled < 3 and len(bench.fam["order"]) > 1:
            sampled += 1
            run.sample({"source": driver.src_of(bench), "defaults": model.defaults(bench.fam, bench.fam["root"]).to_json()})
        if run.counters["violations"] > 30:
            break


def replay(run, rec):
    w = rec["witness"]
    if "fam" not in w:
        f2_probe(run)
        return
    fam = common.from_json(w["fam"])
    d = common.scratch_dir("bvf_replay_")
    bench = harness.Bench(fam, VARIANTS, d, instrument=())
    bench.skeleton = "replay"
    kw = {k: model.val_from_json(v) for k, v in (w.get("kwargs") or {}).items()}
    want = model.defaults(fam, fam["root"], overrides={k: model.copy_val(x) for k, x in kw.items()})
    compare(run, bench, w.get("variant", "g"), kw, want, dict(w), "override_packets_compared")
