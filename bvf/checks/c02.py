"""C02  Serialize-then-parse reproduces the packet.

Consistent value trees come from successful lazy parses of the reference model (lengths,
counts, presence conditions and delimiter-free bodies hold by construction).  Each tree is
built into a real packet three ways (constructor keywords, attribute assignment on a default
packet, mixed), recursively for nested packets, in the generic and the generated variant, then
  * pack() must equal the reference encoding (model.encode: in-order concatenation of each
    field's encoding at its declared position, '.' in holes),
  * the observed insert trace (shadowing Fragments) must be the model's: every field's bytes
    inserted once, in declaration order, at the model's position,
  * unpack(pack()) must succeed, end where the model ends (whole string traversed) and yield
    an equal value tree; assert_consistency() must be True.
"""
from .. import predicates, common, driver, harness, model, monitors, render
from ..common import rng_for, b2j
from .c12 import mutate_tree

LEVEL = "exploration"
SHARDS = {"quick": 1, "thorough": 16}
REQUIRED = ("repacks_after_changing_a_tracked_field", "repacks_after_failed_pack_of_another_packet", "position_sweep_trees", "repacks_after_assignment", "packs_compared_with_reference_encoding", "reparse_compared", "assert_consistency_true", "insert_traces_compared",
            "families_with_a_shared_options_table", "built_by_kwargs", "built_by_attrs", "built_by_mixed", "built_by_inplace", "nested_trees", "boundary_int_values", "empty_lists", "absent_optionals",
            "f2_probe_runs")
MIN_NONTRIVIAL = 150
RULE = {
    "quick": "~360 generated families + ~120 of a selector-heavy population (several run-time selected fields per declaration, "
             "often sharing one options table object) x up to 10 consistent value trees (from lazy parses; boundary integers, empty/maximal lists, absent "
             "optionals, nested packets) x 3 construction styles x 2 variants. Non-trivial = tree with at least two leaves whose encoding is "
             "non-empty; distinct = (declaration skeleton, construction style, shape of the value tree [list lengths, None-ness, nesting]).",
    "thorough": "16 shards x (2000 + 660) families, nesting <= 4.",
}
ASSUMPTIONS = [
    "a value tree is consistent with its declaration iff the reference model parses its own reference encoding back to the same tree",
    "model.encode is the meaning of 'in-order concatenation of each field's encoding placed at its declared position'",
    "value trees whose positions overlap are not consistent assignments (C01 judges overlap) and are skipped",
    "callbacks that inspect the raw buffer (sizes from len(raw), until-conditions peeking at raw/offset) are left out: with them consistency "
    "is not a property of the value assignment alone (skipped bytes, which pack() fills with '.', steer the parse)",
    "regex delimiters not kept in the value are left out of the random declarations (known finding F2, exhibited by one deterministic probe)",
]

VARIANTS = {"g": render.VARIANTS["g"], "d": {}}


def tree_shape(v):
    if isinstance(v, model.PV):
        return {k: tree_shape(x) for k, x in v.vals.items()}
    if isinstance(v, list):
        return [tree_shape(x) for x in v[:4]] + [len(v)]
    if v is None:
        return None
    if isinstance(v, bytes):
        return "b%d" % min(len(v), 3)
    return "i"


def tree_stats(run, fam, pv, top=True):
    decl = fam["decls"][pv.decl]
    for f in decl["fields"]:
        if f["t"] == "em":
            continue
        v = pv.vals[f["name"]]
        if "rep" in f and v == []:
            run.count("empty_lists")
        if "opt" in f and v is None:
            run.count("absent_optionals")
        if f["t"] == "int" and isinstance(v, int):
            from ..spec import int_range
            lo, hi = int_range(f["n"], f.get("signed", False))
            if v in (lo, hi) and v != 0:
                run.count("boundary_int_values")
        for x in (v if isinstance(v, list) else [v]):
            if isinstance(x, model.PV):
                run.count("nested_trees")
                tree_stats(run, fam, x, False)


def repack_edits(fam, pv, rng, depth=0):
    """A few (path, field, new in-domain value) edits of plain leaves that do not steer the layout."""
    decl = fam["decls"][pv.decl]
    out = []
    for f in decl["fields"]:
        if "rep" in f or "opt" in f or f.get("hint") or "describe" in f:
            continue
        v = pv.vals.get(f["name"])
        if f["t"] == "bits" and isinstance(v, int) and v:
            out.append(([f["name"]], f, v & (v - 1)))          # clear the lowest set bit
            out.append(([f["name"]], f, 0))
        elif f["t"] == "int" and isinstance(v, int) and not isinstance(v, bool) and v > 0:
            out.append(([f["name"]], f, v >> 1))
        elif f["t"] == "data" and f["mode"] == "const" and isinstance(v, bytes) and v:
            out.append(([f["name"]], f, bytes(len(v))))
        elif f["t"] == "ref" and isinstance(v, model.PV) and depth < 2:
            for p, ff, nv in repack_edits(fam, v, rng, depth + 1)[:2]:
                out.append(([f["name"]] + p, ff, nv))
    rng.shuffle(out)
    return out[:3]


def judge_tree(run, bench, pv, rng, mon):
    fam = bench.fam
    st, er = harness.model_encode(fam, pv)
    if st != "ok":
        run.count("tree_skipped_%s" % st)
        return
    want = er.data
    # "values that satisfy its own declaration": the reference semantics themselves must round-trip the
    # tree (e.g. a read-to-end field followed by a field positioned beyond it is not a consistent
    # assignment: serializing adds fill bytes that the read-to-end field would swallow)
    st0, mr0 = harness.model_parse(fam, want, 0)
    if st0 != "ok" or mr0.value != pv:
        run.count("tree_not_self_consistent_skipped")
        return
    want_inserts = [(p, d) for (p, d, _) in er.fragments.inserts if d]
    tree_stats(run, fam, pv)
    shape = common.stable_hash(tree_shape(pv))
    for v in ("g", "d"):
        for how in ("kwargs", "attrs", "mixed", "inplace"):
            witness = {"source": driver.src_of(bench, v), "values": pv.to_json(), "built_by": how, "variant": v, "fam": fam}
            try:
                pkt = monitors.build_packet(bench.loaded, v, pv, how, rng)
            except Exception as e:
                run.violation("constructing a packet from a consistent value tree raised %s: %s" % (type(e).__name__, e), witness, None)
                continue
            run.count("built_by_%s" % how)
            if how == "inplace":
                try:
                    fresh = monitors.pkt_to_pv(fam, fam["root"], bench.root(v)())
                except Exception:
                    fresh = None
                if fresh is not None and fresh != model.defaults(fam, fam["root"]):
                    run.violation("after a packet was filled by in-place list operations, a newly constructed packet of the class no longer holds the declared defaults",
                                  dict(witness, new_default_packet=fresh.to_json(), declared=model.defaults(fam, fam["root"]).to_json()), None)
                    continue
            nlog = len(mon.log())
            r = harness.lib_pack(pkt)
            run.case(key=(bench.skeleton, how, shape), nontrivial=len(want) > 1)
            if r.status == "timeout":
                run.count("watchdog_skipped")
                continue
            if r.status != "ok":
                run.violation("pack() of a packet built from a consistent value tree failed: %s" % str(r.err)[:200], witness, None)
                continue
            run.count("packs_compared_with_reference_encoding")
            if r.pkt != want:
                run.violation("pack() differs from the reference encoding (in-order concatenation at declared positions)",
                              dict(witness, packed=b2j(r.pkt), reference=b2j(want)), None)
                continue
            # insert trace
            frs = mon.log()[nlog:]
            if frs:
                got_inserts = [(p, d) for (p, d, rz) in frs[0]._ops if d and rz is None]
                run.count("insert_traces_compared")
                # byte-level comparison: a vectorised run legitimately merges adjacent fields into one insert
                flat = lambda ins: [(p + i, b) for (p, d) in ins for i, b in enumerate(d)]
                if flat(got_inserts) != flat(want_inserts):
                    run.violation("insert trace differs from the model (bytes inserted at another position / order / more than once)",
                                  dict(witness, observed=[(p, b2j(d)) for p, d in got_inserts],
                                       model=[(p, b2j(d)) for p, d in want_inserts]), None)
                    continue
            # re-parse
            st2, mr = harness.model_parse(fam, want, 0)
            rr = harness.lib_unpack(bench.root(v), r.pkt, 0)
            if rr.status == "timeout":
                run.count("watchdog_skipped")
                continue
            if rr.status != "ok":
                run.violation("unpack(p.pack()) failed: %s" % (str(rr.err)[:200]), dict(witness, packed=b2j(r.pkt)), None)
                continue
            try:
                back = monitors.pkt_to_pv(fam, fam["root"], rr.pkt)
            except monitors.Unreadable as e:
                run.violation("re-parsed packet unreadable: %s" % e, dict(witness, packed=b2j(r.pkt)), None)
                continue
            run.count("reparse_compared")
            if back != pv:
                run.violation("unpack(p.pack()) yields different field values",
                              dict(witness, packed=b2j(r.pkt), reparsed=back.to_json()), None)
                continue
            if st2 == "ok":
                if rr.end != mr.end:
                    run.violation("unpack(p.pack()) ends at %r, the model at %r" % (rr.end, mr.end), dict(witness, packed=b2j(r.pkt)), None)
                    continue
                if mr.trace.extent != len(want):
                    run.count("reparse_does_not_traverse_whole_string(not judged: trailing empty chunk)")
            try:
                ok = pkt.assert_consistency()
            except Exception as e:
                run.violation("assert_consistency() raised %s" % type(e).__name__, witness, None)
                continue
            if ok is not True:
                run.violation("assert_consistency() returned %r" % (ok,), witness, None)
                continue
            run.count("assert_consistency_true")
            # a failing pack of ANOTHER packet of the class (one invalid leaf) must leave no trace: this packet
            # still serializes to the same bytes afterwards
            for desc, badtree in mutate_tree(fam, pv, rng):
                try:
                    other = monitors.build_packet(bench.loaded, v, badtree, "kwargs")
                except Exception:
                    break
                fr = harness.lib_pack(other)
                if fr.status == "ok":
                    break
                again = harness.lib_pack(pkt)
                run.count("repacks_after_failed_pack_of_another_packet")
                if again.status == "timeout":
                    run.count("watchdog_skipped")
                    break
                if again.status != "ok" or again.pkt != want:
                    run.violation("after a failing pack() of another packet of the class this packet no longer serializes to the encoding of its values",
                                  dict(witness, failing_packet_mutation=desc, packed=b2j(again.pkt) if again.status == "ok" else str(again.err)[:200],
                                       reference=b2j(want)), None)
                break
            # attribute assignment on the packet that has just been packed: a second serialization must be the
            # encoding of the *new* values (nothing of the first one may linger)
            for path, f, newv in repack_edits(fam, pv, rng):
                m = model.copy_val(pv)
                tgt, obj = m, pkt
                for name in path[:-1]:
                    tgt = tgt.vals[name]
                    obj = getattr(obj, name)
                old = tgt.vals[path[-1]]
                tgt.vals[path[-1]] = newv
                st3, er3 = harness.model_encode(fam, m)
                if st3 != "ok":
                    continue
                st4, mr4 = harness.model_parse(fam, er3.data, 0)
                if st4 != "ok" or mr4.value != m:
                    continue
                setattr(obj, path[-1], newv)
                r3 = harness.lib_pack(pkt)
                run.count("repacks_after_assignment")
                if r3.status == "timeout":
                    run.count("watchdog_skipped")
                    break
                if r3.status != "ok" or r3.pkt != er3.data:
                    run.violation("after assigning a field on an already serialized packet, pack() is not the encoding of the new values",
                                  dict(witness, assigned={"path": path, "old": model.val_json(old), "new": model.val_json(newv)},
                                       packed=b2j(r3.pkt) if r3.status == "ok" else str(r3.err)[:200], reference=b2j(er3.data)), None)
                    break
                setattr(obj, path[-1], old)
    # automatic (described) fields left to compute themselves: built without them, serialized, the tracked field replaced by a
    # value of another length, serialized again - the second serialization carries the new length
    root = fam["decls"][fam["root"]]
    autos = [f for f in root["fields"] if f.get("describe", {}).get("k") in ("autolength", "alias") and f["describe"].get("impl", "autolength") == "autolength"]
    if autos:
        for v in ("g", "d"):
            try:
                pkt = monitors.build_packet(bench.loaded, v, model.strip_described(fam, model.copy_val(pv)), "kwargs")
            except Exception:
                run.count("auto_build_failed")
                continue
            r1 = harness.lib_pack(pkt)
            run.count("packs_with_automatic_fields_left_to_compute")
            witness = {"source": driver.src_of(bench, v), "variant": v, "values": pv.to_json(), "fam": fam, "how": "kwargs without the automatic fields"}
            if r1.status == "timeout":
                run.count("watchdog_skipped")
                continue
            if r1.status != "ok" or r1.pkt != want:
                run.violation("pack() of a packet whose automatic fields were left to compute is not the encoding of its values",
                              dict(witness, packed=b2j(r1.pkt) if r1.status == "ok" else str(r1.err)[:200], reference=b2j(want)), None)
                return
            f = autos[0]
            tracked = f["describe"]["of"]
            old = pv.vals.get(tracked)
            if not isinstance(old, bytes):
                continue
            newv = old + b"zq" if len(old) < 3 else old[:-1]
            m = model.copy_val(pv)
            m.vals[tracked] = newv
            m.vals[f["name"]] = len(newv)
            st5, er5 = harness.model_encode(fam, m)
            if st5 != "ok":
                continue
            st6, mr6 = harness.model_parse(fam, er5.data, 0)
            if st6 != "ok" or mr6.value != m:
                continue
            setattr(pkt, tracked, newv)
            r2 = harness.lib_pack(pkt)
            run.count("repacks_after_changing_a_tracked_field")
            if r2.status == "timeout":
                run.count("watchdog_skipped")
                continue
            if r2.status != "ok" or r2.pkt != er5.data:
                run.violation("after a first pack(), replacing the field an automatic length tracks and packing again does not give the encoding of "
                              "the new values", dict(witness, tracked=tracked, new_value=b2j(newv),
                                                     packed=b2j(r2.pkt) if r2.status == "ok" else str(r2.err)[:200], reference=b2j(er5.data)), None)
                return


def f2_probe(run):
    """Known finding F2: Data(until_marker=<regex>, include_delimiter=False) remembers the matched
    delimiter on the shared field object. A constructed packet packs without its delimiter until
    some packet of the class has been parsed."""
    d = common.scratch_dir("bvf_c02p_")
    src = render.HEADER + ("class LineP(Packet):\n    line = Data(until_marker=re.compile(b';'))\n    tail = Int(1)\n")
    module, path = render.load_source(src, d)
    run.count("f2_probe_runs")
    p = module.LineP(line=b"ab", tail=1)
    out = p.pack()
    want = b"ab;\x01"
    if out != want:
        mech = "regex-delimiter-remembered-on-field" if out == b"ab\x01" else None
        run.violation("a regex-delimited field whose delimiter is not kept packs without its delimiter before any packet of the class is parsed",
                      {"source": src, "steps": "LineP(line=b'ab', tail=1).pack()", "packed": b2j(out), "reference": b2j(want)}, mech)
    common.drop_scratch(d)


def run(run):
    shard, nshards = run.shard
    rng = rng_for(run.seed, "c02", shard)
    nfam = 300 if run.tier == "quick" else 1800
    profile = {"allow_regex_nokeep_single": False, "p_move": 0.2, "p_backward_at": 0.3, "allow_raw_callbacks": False, "p_describe": 0.12}
    if run.tier == "thorough":
        profile["max_depth"] = 4
    if shard == 0:
        f2_probe(run)
    else:
        run.count("f2_probe_runs")
    sampled = 0
    # second population: several run-time selected fields per declaration, often sharing one options table object
    sel_profile = dict(profile, kinds={"int": 30, "data": 18, "bits": 6, "ref": 10, "sel": 30, "em": 2}, p_share_table=0.6, p_rep=0.2, p_opt=0.12)
    import itertools
    with monitors.fragments_monitor() as mon:
        # third population: positioned layouts (fields placed high first, runs placed back, fields flush against and between others)
        pos_profile = dict(profile, p_backrun=0.4, p_move=0.55, p_backward_at=0.5, max_fields=5, max_depth=2, p_rep=0.06, p_opt=0.04,
                           moves={"at": 7, "shift": 3, "aligned": 1}, kinds={"int": 55, "data": 35, "bits": 4, "ref": 5, "sel": 0, "em": 1},
                           int_widths=[1, 1, 2, 2, 3, 4])
        for bench in itertools.chain(driver.families(run, rng, profile, VARIANTS, nfam, instrument=(), tag="c02"),
                                     driver.families(run, rng, sel_profile, VARIANTS, nfam // 4, instrument=(), tag="c02s"),
                                     driver.families(run, rng, dict(sel_profile, accept=predicates.shares_a_literal, min_fields=4), VARIANTS, nfam // 10,
                                                     instrument=(), tag="c02sl"),
                                     driver.families(run, rng, pos_profile, VARIANTS, nfam // 3, instrument=(), tag="c02p")):
            fam = bench.fam
            if any("share" in f for d in fam["decls"].values() for f in d["fields"]):
                run.count("families_with_a_shared_options_table")
            seen = set()
            for j in range(10):
                raw, oc = model.generate_input(fam, rng, maxlen=120)
                st, mr = harness.model_parse(fam, raw, 0)
                if st != "ok":
                    continue
                key = common.stable_hash(mr.value.to_json())
                if key in seen:
                    continue
                seen.add(key)
                del mon.log()[:]
                judge_tree(run, bench, mr.value, rng, mon)
                if j < 4:
                    # dense placement geometry: every small value of the fields that steer a position (fields end up in
                    # holes, flush against and behind others); inconsistent / overlapping trees are skipped by judge_tree
                    for steer in [f for f in fam["decls"][fam["root"]]["fields"]
                                  if "pos" in (f.get("hint") or {}) and f["t"] in ("int", "bits") and "rep" not in f and "opt" not in f][:2]:
                        top = min(len(raw) + 3, 24)
                        for val in range(top):
                            if mr.value.vals.get(steer["name"]) == val:
                                continue
                            m = model.copy_val(mr.value)
                            m.vals[steer["name"]] = val
                            run.count("position_sweep_trees")
                            del mon.log()[:]
                            judge_tree(run, bench, m, rng, mon)
                if sampled < 3 and len(mr.value.vals) > 2:
                    sampled += 1
                    run.sample({"source": driver.src_of(bench), "values": mr.value.to_json()})
            if run.counters["violations"] > 30:
                break
        for v in mon.violations[:3]:
            run.violation("fragment monitor during pack(): " + v["what"], v, None)


def replay(run, rec):
    raw = rec["witness"]
    if "fam" not in raw:
        f2_probe(run)
        return
    fam = common.from_json(raw["fam"])
    pv = model.val_from_json(raw["values"])
    d = common.scratch_dir("bvf_replay_")
    bench = harness.Bench(fam, VARIANTS, d, instrument=())
    bench.skeleton = "replay"
    with monitors.fragments_monitor() as mon:
        judge_tree(run, bench, pv, common.rng_for(0, "replay"), mon)
