"""C17  Auto/AutoLength fields always read and serialize consistently.

Exhaustive operation histories against an executable 3-variable state machine.

Model of one packet (written from the property statement, independent of the library):
    explicit : bool        the described field was assigned (keyword or attribute) and not deleted since
    xval     : int         the value assigned last
    tracked  : bytes|list  what the tracked field was last assigned / parsed as
    visible value of the described attribute = xval if explicit else f(tracked)
    (f = len for AutoLength, f = (2*len+1) & 0xff for the general Auto used here)
Reference encoding (int.to_bytes, big endian, no library code): the fields of the declaration in
order; the described field carries its *visible* value, the tracked field its bytes.

Histories: a start in {C(), C(described=k), C(tracked=v), C(described=k, tracked=v), C.unpack(raw)}
followed by every sequence over the 7 operations
    T0/T1  set tracked to v1 / v2 (different lengths)      D0/D1  set described to k1 / k2
    DEL    del described      RD  read described           PK     pack()
up to the length bound.  k values are chosen consistent (== f(tracked)) and inconsistent.
Two execution modes:
    pure      the history runs undisturbed (RD and PK results inside the history are compared with the
              model); after its LAST operation the full observation is made.  Every history of every
              length 1..L is run, so the observation is made after every operation of every history
              without the observation (which contains a pack) perturbing the prefix.
    observed  histories of length L-1 with the full observation after EVERY operation
              (the dense interleaving op,read,pack,read,op,...; an addition to the pure enumeration).
Full observation: described reads as the model's visible value; tracked/other fields read as
assigned/parsed; pack() == reference encoding of what the attributes read; a second pack() gives the
same bytes; no attribute reads differently after pack(); hasattr(p, '__dict__') is False.
Part 2 runs histories over TWO live packets of one class (operations address packet 0 or 1) against
two independent models: explicit/enabled state must not leak between instances.
Part 3 exercises the described packet NESTED: for each variant and inner option set, outer classes
    Outer{tag = Int(1); inner = Ref(Inner)}  and  OuterSeq{n = Int(1); inners = Ref(Inner).repeated(n)}
under outer option sets generic and default.  Operations T0/T1/D0/D1/DEL/RD act on an inner packet, PK packs
the OUTER packet; starts are Outer(), Outer(tag=.., inner=Inner(..)) and Outer.unpack(raw) (then the inner is
modified).  Oracle: outer.pack() == tag/n byte + reference encoding of each inner from what its attributes
currently read as; no attribute of an inner reads differently after the outer pack.  The inner packet is never
packed directly in Part 3 (a direct inner.pack() could refresh state the nested path must refresh itself).
Part 3 also declares outers whose Ref prototype is an INSTANCE: Ref(Inner(described=k consistent, tracked=v)),
Ref(Inner(described=k inconsistent, tracked=v)) and Ref(Inner(tracked=v)), single and repeated.  Model: the inner of
a default-constructed outer is a copy of the prototype, i.e. explicit exactly when the prototype was built with the
described keyword; an inner produced by Outer.unpack(raw) ALWAYS starts automatic whatever the prototype says.
Part 4 declares the described field POSITIONED: .at(2), .shift(1) after a tag byte, .aligned(4) after a tag byte, and a
class with __bisturi__ = {'align': 2}; each under the three option sets, run through the single-packet histories
(pure and observed mode, shorter bound).  The reference encoding places the bytes itself: the fill byte '.' in the
gaps (absolute position, relative shift, padding to a multiple of the alignment counted from the start of the data).
Part 5 adds layouts run through the single-packet histories (shorter bound) and partly through the two-packet histories:
    embedded   class Body carries the described + tracked field, class Outer{tag; body = Ref(Body, embed=True); [tail]}
               borrows them; EVERY operation (keywords, attribute sets, del, reads, pack, unpack) is done on the OUTER
               packet's own attributes (outer.body is never touched: the docs call embed experimental and say nothing
               about that object).  Reference encoding = tag byte + Body layout + tail byte.
    optional   the tracked field is Data(length).when(has): it is None in a default packet and when unpack skipped it.
    chained    Auto(func) where func reads the described attribute `total` of ANOTHER packet of the same class
               (slot `prev`): total = (len(value) + prev.total) & 0xff; packet 1 of a two-packet history has
               prev = packet 0, so its model value is computed from packet 0's model state (explicit or computed).
Failing computed reads (operation TN = assign None to the tracked field; also the start state of the optional layout):
while the tracked field is None the computed value does not exist (len(None)): a read of the described attribute of a
packet that is not explicitly assigned is NOT judged (any exception or value accepted, counted), nor is a pack() of such
a packet (for a non-optional tracked field no pack() is judged while it is None).  Everything else stays judged: an
explicitly assigned packet still reads its value, the other live packet is unaffected, and as soon as the tracked field is
assigned again (T0/T1) the statement applies in full (reads the computed value, packs it).
Part 6: single-packet histories over the 8 operations that contain TN; Part 7: the same over two live packets (exhaustive
short bound + seeded samples of longer histories); Part 8: nested Ref(Inner) / Ref(Inner).repeated(n) histories with TN.
Parts 9-11: the state "explicitly assigned a value that EQUALS the computed one" (explicit=True, explicit_value == f(tracked)) for
every way a packet comes to be.  Such a packet reads exactly like an automatic one NOW and differs after the next change of the
tracked field (it keeps the assigned value); with the default tracked value it reads like a fresh C() in every attribute.
    own constructor      C(described=f(default)), C(described=f(v), tracked=v)   (starts of Part 1; inner packets passed by keyword)
    Ref prototype        Ref(Inner(described=f(default)))  (prototype "consdefault": only the described keyword) next to
                         Ref(Inner(described=f(v), tracked=v)) and the differing / tracked-only prototypes of Part 3
    repeated default     Ref(Inner).repeated(n, default=[Inner(described=f(default)), Inner(described=k differing, tracked=v)]) and
                         default=[Inner(described=f(v), tracked=v), Inner(tracked=v)]: the elements of Outer(n=2) are copies of them
    optional Ref default Ref(Inner).when(tag, default=Inner(..)) with the explicit-equal (default tracked / tracked v) and differing keywords
    copies               copy.deepcopy(p), pickle.loads(pickle.dumps(p)), p.as_prototype().clone() of a packet in ANY model state:
                         operations CD / CP / CC replace the live packet by the copy, the model is not touched (a copy is in the same
                         state); Part 9 enumerates every operation sequence that contains the copy operation; nested: the OUTER packet
                         (holding explicit-equal / differing / automatic inner packets) is replaced by its copy before the first operation
    The packet a copy was taken of is read once more at the end of the history: nothing was done to it, it reads as it did.
Part 10 runs after EVERY single-packet start (all declarations), directly and through each copy, the fixed script
    T0|T1 (change the tracked field), RD, PK, DEL, RD   in pure and in observed mode;
Part 11 runs it on every inner packet of every nested start (PK packs the outer).  Counters explicit_equal_<origin>_* record, per way
of coming to be, the reads / packs after the tracked field changed, the deletes and the reads after the delete of such packets.
Part 12: the DESCRIBED field itself carries a wrapper or modifier.
    optional   length = Int(n).when(cond).describe(AutoLength('value')) / .describe(Auto(func)); cond is taken from an earlier plain
               field (has, flag == 1, has != 0), true and false in the unpacked data.  Also positioned: .when(..).describe(..).at(3) and
               .when(..).aligned(4).describe(..); embedded (Ref(Body, embed=True), operations on the outer packet); nested in
               Ref(Inner) / Ref(Inner).repeated(n).
               What the unchanged tree + docs fix: describe() applied to the Optional makes the class attribute the descriptor
               (isinstance(C.length, AutoLength), the documentation's own test), so the statement applies as to any described field:
               the attribute reads the computed value in a fresh packet, after unpack (condition true OR false: nothing was assigned)
               and after a delete.  The presence rule of an optional field on pack is documented in Field.when: "The 'when'
               condition has no effect neither in a default packet nor during the packing phase"; "If a field is not parsed, None
               is used as the value": the field is omitted exactly when its value is None.  Together with "pack() serializes exactly
               what the attribute currently reads as": attribute reads a number -> that number is on the wire at the field's place
               (whatever the condition field says); attribute reads None (only possible by assigning None: operation DN, keyword
               None) -> the field is omitted.  Model value None = absent; `DN DEL` returns to the computed state.
    repeated   mirror = Int(1).repeated(n).describe(Auto(func returning a list)): the values are lists; the reference encoding
               writes every element of the list the attribute reads (n is a plain field, not interpreted on pack).
    Not judged (recorded by probe_unjudged_declarations): .describe(..).when(..) and .describe(..).repeated(..) - the library accepts
    them but the class attribute is the undescribed wrapper (no descriptor; reads None / [] in a fresh packet): the field is not
    "described" in the sense of the statement; .repeated(n).describe(AutoLength(..)): the computed int is no value of a list field.
    Operations: the usual 7 + DN (8, 9 with TN); starts: the usual + C(described=None), C(described=None, tracked=v) + unpacked data
    with the condition false / true; histories through Parts 1, 2, 6, 7, 10 (with the scripts DN RD PK DEL RD PK ..., also through
    copies) and nested Parts 3, 8, 11.
"""
import copy
import itertools
import json
import os
import pickle
import time

from .. import common
from ..common import b2j

LEVEL = "exploration"
SHARDS = {"quick": 1, "thorough": 16}
EXHAUSTIVE = {"quick": True, "thorough": True}
MIN_NONTRIVIAL = 50
SHARD_TIMEOUT = {"quick": 120, "thorough": 900}
REQUIRED = (
    "reads_compared", "packs_compared", "packs_explicit_inconsistent", "packs_explicit_consistent", "mixed_code_path_histories_packgen", "mixed_code_path_histories_unpackgen",
    "packs_auto", "packs_auto_after_tracked_change", "reads_after_unpack_before_assignment",
    "deletes_while_explicit", "sets_while_explicit", "dict_checks", "two_packet_histories",
    "classes_generic_code", "classes_generated_code", "described_field_in_vectorised_run",
    "nested_histories", "nested_packs_compared", "nested_generic_inner_packs", "nested_generated_inner_packs",
    "nested_generic_inner_in_generated_outer_packs", "nested_packs_after_inner_change", "nested_seq_packs_compared",
    "nested_packs_after_outer_unpack", "nested_reads_compared",
    "nested_instance_prototype_histories", "nested_unpacked_inner_with_explicit_prototype",
    "nested_default_inner_explicit_from_prototype", "nested_unpacked_explicit_prototype_packs_after_tracked_change",
    "positioned_described_histories", "positioned_described_generated_unpack_then_tracked_change",
    "positioned_described_generic_unpack_then_tracked_change", "positioned_described_struct_coded_generated_unpack",
    "positioned_described_packs_with_fill_bytes",
    # embedded layout: Ref(Body, embed=True), every operation on the outer packet
    "embedded_histories", "embedded_two_packet_histories", "embedded_failing_read_histories",
    "embedded_generic_packs_auto_after_tracked_change", "embedded_generated_packs_auto_after_tracked_change",
    "embedded_generic_packs_auto_after_unpack_then_tracked_change", "embedded_generated_packs_auto_after_unpack_then_tracked_change",
    "embedded_generic_deletes_while_explicit", "embedded_generated_deletes_while_explicit",
    "embedded_generic_packs_explicit_inconsistent", "embedded_generated_packs_explicit_inconsistent",
    # optional tracked field
    "optional_histories", "optional_two_packet_histories", "optional_failing_read_histories",
    "optional_generic_packs_auto_after_tracked_change", "optional_generated_packs_auto_after_tracked_change",
    "packs_explicit_with_absent_optional_tracked",
    # Auto(func) reading the described attribute of another packet of the same class
    "chained_histories", "chained_two_packet_histories", "chained_reads_through_other_instance",
    "chained_generic_packs_auto_after_tracked_change", "chained_generated_packs_auto_after_tracked_change",
    # failing computed reads, then restore
    "failing_read_histories", "failing_read_two_packet_histories", "failing_read_two_packet_sampled_histories",
    "tracked_set_to_none", "computed_reads_failed", "tracked_restored_after_failed_read",
    "computed_reads_after_failed_read_same_instance", "computed_reads_after_failed_read_on_other_instance",
    "packs_auto_after_failed_read_and_restore",
    "nested_failing_read_histories", "nested_failing_read_histories_ref", "nested_failing_read_histories_seq",
    "nested_computed_reads_failed", "nested_computed_reads_after_failed_read",
    "nested_computed_reads_after_failed_read_on_other_inner", "nested_packs_after_failed_read_and_restore",
    # explicit value EQUAL to the computed one, for every way a packet comes to be (Parts 9-11)
    "constructed_with_explicit_value_equal_to_computed", "constructed_explicit_equal_reading_like_default_packet",
    "prototype_instances_with_explicit_value_equal_to_computed", "prototype_instances_explicit_equal_reading_like_default_packet",
    "prototype_instances_explicit_equal_inner_generic_outer_generic", "prototype_instances_explicit_equal_inner_generic_outer_default",
    "prototype_instances_explicit_equal_inner_generated_outer_generic", "prototype_instances_explicit_equal_inner_generated_outer_default",
    "repeated_default_elements_with_explicit_value_equal_to_computed", "repeated_default_elements_explicit_equal_reading_like_default_packet",
    "optional_ref_defaults_with_explicit_value_equal_to_computed", "optional_ref_defaults_explicit_equal_reading_like_default_packet",
    "copies_in_explicit_equal_state", "copies_in_explicit_equal_state_deepcopy", "copies_in_explicit_equal_state_pickle",
    "copies_in_explicit_equal_state_prototype_clone", "copies_explicit_equal_reading_like_default_packet",
    "copies_in_explicit_differing_state", "copies_in_automatic_state", "originals_checked_after_copy",
    "outer_copies_with_inner_in_explicit_equal_state", "outer_copies_with_inner_in_explicit_equal_state_deepcopy",
    "outer_copies_with_inner_in_explicit_equal_state_pickle", "outer_copies_with_inner_in_explicit_equal_state_prototype_clone",
    "copied_outer_inners_explicit_equal_reading_like_default_packet",
    "copy_histories", "explicit_equal_script_histories", "nested_explicit_equal_script_histories", "nested_copied_outer_histories",
    "nested_optional_ref_default_histories", "nested_repeated_default_element_histories",
    "nested_instance_prototype_histories_consdefault",
    # Part 12: the described field itself is optional / optional + positioned / repeated
    "optional_described_histories", "optional_described_two_packet_histories", "optional_described_failing_read_histories",
    "optional_described_none_script_histories", "positioned_optional_described_histories", "embedded_optional_described_histories",
    "wrapped_described_class_attribute_is_descriptor",
    "optional_described_unpacks_condition_true", "optional_described_unpacks_condition_false",
    "optional_described_reads_computed_after_unpack_condition_false", "optional_described_reads_computed_after_none_then_delete",
    "optional_described_reads_none_while_assigned_none",
    "optional_described_packs_in_computed_state", "optional_described_packs_in_computed_state_condition_field_says_absent",
    "optional_described_packs_in_computed_state_with_hidden_none", "optional_described_packs_in_computed_state_fresh_packet",
    "optional_described_packs_in_computed_state_after_unpack_condition_false",
    "optional_described_packs_in_computed_state_after_none_then_delete",
    "optional_described_packs_assigned_none_field_omitted", "optional_described_packs_assigned_value",
    "optional_described_none_assigned", "optional_described_deletes_while_assigned_none",
    "optional_described_generic_packs_in_computed_state_with_hidden_none",
    "optional_described_generated_packs_in_computed_state_with_hidden_none",
    "optional_described_generic_packs_in_computed_state_after_unpack_condition_false",
    "optional_described_generated_packs_in_computed_state_after_unpack_condition_false",
    "optional_described_generic_packs_in_computed_state_after_none_then_delete",
    "optional_described_generated_packs_in_computed_state_after_none_then_delete",
    "optional_described_generic_packs_assigned_none_field_omitted", "optional_described_generated_packs_assigned_none_field_omitted",
    "optional_described_generic_packs_auto_after_tracked_change", "optional_described_generated_packs_auto_after_tracked_change",
    "nested_optional_described_histories", "nested_optional_described_histories_ref", "nested_optional_described_histories_seq",
    "nested_optional_described_packs_in_computed_state_with_hidden_none",
    "nested_optional_described_generic_inner_packs_in_computed_state_with_hidden_none",
    "nested_optional_described_generated_inner_packs_in_computed_state_with_hidden_none",
    "nested_optional_described_packs_in_computed_state_after_unpack_condition_false",
    "nested_optional_described_packs_assigned_none_field_omitted", "nested_optional_described_deletes_while_assigned_none",
    "repeated_described_histories", "repeated_described_two_packet_histories", "repeated_described_failing_read_histories",
    "repeated_described_generic_packs_auto_after_tracked_change", "repeated_described_generated_packs_auto_after_tracked_change",
    "repeated_described_generic_packs_explicit_inconsistent", "repeated_described_generated_packs_explicit_inconsistent",
    "unjudged_declarations_observed",
) + tuple("explicit_equal_%s_%s" % (_o, _e)
          for _o in ("constructor", "prototype_instance", "repeated_default_element", "optional_ref_default", "deepcopy", "pickle",
                     "prototype_clone", "outer_deepcopy", "outer_pickle", "outer_prototype_clone")
          for _e in ("reads_after_tracked_change", "packs_after_tracked_change", "deletes", "reads_after_delete"))
RULE = {
    "quick": "4 declarations (AutoLength over Data sized by the described field; the same with the described Int(2) inside "
             "a vectorised run pad/length/kind; AutoLength over a repeated Int; general Auto) x 3 code-generation option sets "
             "x 8-9 starts (C(), C(described=k consistent / inconsistent), C(tracked=v), C(described=k, tracked=v) consistent / "
             "inconsistent, unpack(raw) x2-3) x EVERY operation sequence of length 1..4 (1..3 for the option set vectorize=False; "
             "rebalanced to make room for Parts 5-8) over 7 operations (pure mode, full "
             "observation after the last operation) + every sequence of length 3 with the full observation after every "
             "operation (observed mode); Part 2: every sequence of length 1..3 (1..2 for vectorize=False) over 14 operations on "
             "two live packets x 3 start pairs x 12 classes; Part 3 (nested; instance prototypes with generic and default inner "
             "classes only in this tier): 12 inner classes x outer option sets {generic, default} x {Ref(Inner): every "
             "sequence of length 1..3 over 7 operations, Ref(Inner).repeated(n) with two inners: every sequence of length 1..2 "
             "over 13 operations} x 3 starts (default/ctor, ctor with explicit inner, outer unpack), PK packs the outer packet; "
             "the same two outer shapes with an INSTANCE prototype (described keyword consistent / inconsistent / tracked keyword "
             "only) x 2 starts (default-constructed or constructed outer, unpacked outer), same lengths; "
             "Part 4 (positioned described field): 4 declarations (.at(2), .shift(1), .aligned(4), class align 2) x 3 option sets x "
             "all 8-9 starts x every sequence of length 1..3 (pure) and of length 2 (observed) over the 7 operations. "
             "Part 5 (new layouts, same short bound 1..3 pure / 2 observed, all 8-9 starts, 3 option sets): 4 embedded declarations "
             "Outer{[tag]; Ref(Body, embed=True); [tail]} with Body = AutoLength over Data / inside a vectorised run / over a "
             "repeated Int / over an optional Data, all operations on the outer packet; optional tracked field Data(length).when(has); "
             "Auto(func) whose func reads the described attribute of another packet of the class (slot prev); two-packet histories "
             "for optional, chained and one embedded declaration (length 1..2; chained 1..3, packet 1 has prev = packet 0). "
             "Failing computed reads (operation TN = tracked := None): Part 6 every sequence of length 1..3 over 8 operations that "
             "contains TN x 5 starts x 30 classes (all but the positioned ones); Part 7 two live packets, every sequence of length "
             "1..2 over 16 operations containing TN x 3 start pairs x 21 classes + 100 seeded samples (VERIF_SEED) of length 3..5 "
             "per class and start pair; Part 8 nested Ref(Inner) (length 1..3 over 8 operations) and Ref(Inner).repeated(n) with two "
             "inners (length 1..2 over 15 operations), sequences containing TN, 12 inner classes x 2 outer option sets x 3 starts. "
             "Explicit value EQUAL to the computed one (Parts 9-11): Part 3 gains the prototype Ref(Inner(described=f(default))) "
             "(reads like Inner()), the outers Ref(Inner).repeated(n, default=[2 instances]) (2 element lists; default-constructed: "
             "length 1..2, unpacked: length 1) and Ref(Inner).when(tag, default=instance) (3 keyword sets, default-constructed and "
             "unpacked, length 1..2), and for every default-constructed instance-prototype / default-object outer and a constructed "
             "class-prototype outer with explicit-equal inner the three COPIES of the outer packet (deepcopy, pickle round trip, "
             "as_prototype().clone(); length 1); Part 9: 12 plain classes x 6 starts x 3 copy operations x every sequence of length "
             "1..3 (1..2 for vectorize=False) over the 7 operations + the copy operation that contains it; Part 10: every class x every "
             "start x {no copy, 3 copies} x {T0, T1} followed by RD PK DEL RD, pure and observed; Part 11: the same script on every "
             "inner packet of every nested start. "
             "Part 12 (the described field itself wrapped; operations + DN = assign None, starts + C(described=None[, tracked=v])): 5 optional "
             "declarations Int(n).when(cond).describe(AutoLength|Auto) (until-marker Data; Data sized by the described field; general Auto; "
             "+ .at(3); + .aligned(4)), their embedded form, and Int(1).repeated(n).describe(Auto(list)) x 3 option sets x all starts "
             "(unpacked data with the condition false and true): every sequence of length 1..3 over the 8 (repeated: 7) operations + observed "
             "length 2 for optdesc_marker and repdesc_list (generic, default), length 1..2 + observed 2 for the other declarations and for "
             "vectorize=False (the other declarations under vectorize=False: pure mode only); two-packet histories (marker, repeated) length 1..2; failing computed reads (Parts 6, 7) for marker and "
             "repeated only; per start the None scripts DN RD PK DEL RD PK / DN DEL PK T0 PK / PK DN DEL PK and three scripts through one "
             "way of copying (rotating with the start); nested Ref(Inner) / Ref(Inner).repeated(n) with Inner = optdesc_marker (generic, "
             "default inner; class prototype and tracked-keyword instance prototype; Parts 3, 11; Part 8 through Ref(Inner) only). "
             "Rebalanced to make room for Part 12: the nested failing-read histories (Part 8) run with the generic and default inner "
             "classes only in this tier (vectorize=False inner: thorough tier). "
             "Exhaustive for these bounds (the seeded samples of Part 7 are an addition beyond them). A history is non-trivial when start+operations contain at least "
             "one assignment/deletion/keyword/unpack affecting the described or tracked field (i.e. not only reads and packs of "
             "a plain C()); distinct = distinct (class, start, mode, operation sequence).",
    "thorough": "as quick with every operation sequence of length 1..6 (pure) and of length 5 (observed), sharded by "
                "(class, start, mode, first operation); Part 2 with sequences of length 1..4; Part 3 with sequences of length 1..4 for both outer shapes (instance-prototype outers: Ref 1..4, repeated Ref 1..3); "
                "Part 4 with sequences of length 1..5 (pure) and 4 (observed); no option set is shortened in this tier. "
                "Part 5 layouts with length 1..5 (pure) / 4 (observed), two-packet histories 1..4; Part 6 length 1..4 and all "
                "starts; Part 7 length 1..3 + 480 seeded samples of length 4..6 per class and start pair; Part 8 Ref 1..4, "
                "repeated Ref 1..3. "
                "Parts 9-11: copy histories of length 1..4 from all starts; optional-Ref-default outers length 1..4, default-element "
                "outers 1..3, copied outers Ref 1..3 / repeated Ref 1..2; instance prototypes also with the vectorize=False inner. "
                "Part 12 layouts: length 1..4 (pure) / 3 (observed) for every declaration and option set, two-packet histories 1..3, "
                "nested Ref 1..4 / repeated Ref 1..3, "
                "failing reads for all non-positioned declarations, all three ways of copying in the None scripts, nested also with the "
                "vectorize=False inner. "
                "Exhaustive for these bounds (the seeded samples of Part 7 are an addition beyond them). "
                "Non-trivial as in quick; distinct = distinct (class, start, mode, first<=4 operations (<=3 in Part 2)) groups (the exact number "
                "of executed histories is in counters histories_pure / histories_observed / two_packet_histories).",
}
ASSUMPTIONS = [
    "the state machine (explicit, explicit_value, tracked) with visible = explicit_value if explicit else f(tracked) is the "
    "specification of C17; constructor keyword for the described field counts as an explicit assignment",
    "after unpack(raw) the described attribute is 'not assigned': it reads f(parsed tracked field) even when the raw bytes carried "
    "another number (general Auto variant), and pack() serializes that visible value",
    "`del` of a described field that is not currently assigned is not fixed by the statement: if it raises it is counted, not judged "
    "(it does not raise on the pinned tree); it must leave the state unchanged",
    "explicit values fit the integer width; an explicit value inconsistent with the tracked field is serialized as is "
    "(Data(length).pack does not validate its size)",
    "default byte order is big endian; pad/kind of the vectorised variant are plain Int(1) with default 0",
    "nested part: Ref(Inner) packs the referenced packet in place (outer bytes = Int(1) byte + inner encodings); Outer() holds a "
    "fresh default Inner; objects passed by keyword are the ones held; n of OuterSeq is a plain Int set by the harness",
    "Ref(Inner(described=k, ...)): the default inner of Outer() is a copy of that prototype and so counts as explicitly assigned "
    "(constructor keyword); sub-packets produced by unpack were never assigned and start automatic",
    "positioned variants: gaps are filled with b'.' on pack; at(2) is absolute from the start of the data, shift(1) skips one byte, "
    "aligned(n)/class align pad to the next multiple of n counted from the start of the data (packets are packed/unpacked at offset 0)",
    "embedded layout: Ref(Body, embed=True) lends Body's fields (described one included) to the outer packet, whose own attributes, "
    "constructor keywords, unpack and pack then follow the statement like fields written in the class body; the bytes are the outer "
    "fields in order with Body's fields in place of the Ref; the object outer.body is never read or written (the docs call embed "
    "experimental and its prototype values are documented as ignored)",
    "while the tracked field is None the computed value does not exist: a read of a not explicitly assigned described attribute and "
    "a pack() of such a packet are not judged (any exception or result accepted and counted); they must not change any state: the "
    "other live packets, an explicitly assigned value, and the same packet once the tracked field is assigned again are judged in full",
    "an optional field (.when) that is None packs as nothing (documented: None is the value of an absent optional field), so a packet "
    "with an explicitly assigned described field and an absent optional tracked field is judged on pack(); for a non-optional "
    "tracked field holding None no pack() is judged",
    "a copy of a packet (copy.deepcopy, pickle round trip, as_prototype().clone(), the copy Ref makes of its prototype instance, the "
    "copies Field.init makes of the default object of an optional Ref / of the default elements of a repeated Ref) is in the state "
    "of the packet it was taken of: explicitly assigned exactly when that one was (also when the assigned value equals the computed "
    "one, in which case both read like an automatic packet until the tracked field changes), and the packet it was taken of is not "
    "affected by operations on the copy; if a copy operation returns the very same object nothing is judged about it (counted)",
    "optional described field (Int(n).when(cond).describe(...)): the statement applies unchanged; a packet that was constructed "
    "without the keyword, unpacked (whether or not the condition let the field be parsed) or released by del reads the computed value; "
    "the presence rule on pack is the documented one of Field.when (the condition has no effect when packing; None is the value of "
    "a field that is not there): the field is omitted exactly when the attribute reads None, which only an explicit assignment of "
    "None (attribute or keyword) produces; otherwise the number the attribute reads is serialized at the field's place, also when "
    "the condition field of the same packet says 'absent' (unpack(raw).pack() == raw is not demanded and does not hold then)",
    "declarations with the wrapper applied after describe() (.describe(..).when(..), .describe(..).repeated(..)) are accepted by the "
    "library but install no descriptor (isinstance(C.name, AutoLength) is False): such a field is not 'described' in the sense of "
    "the statement and is only recorded; AutoLength on a repeated field computes an int a list field cannot hold: recorded only",
    "the hidden slot _described_<name> is read by the harness for COUNTING only (which state a pack started from), never for a verdict",
    "chained variant: the extra slot prev is harness state (additional_slots); total of packet 1 = (len(value) + total of packet 0 as "
    "it currently reads) & 0xff; the second described field n of that class is never assigned and must pack as len(value)",
]

HEADER = ("from bisturi.packet import Packet\n"
          "from bisturi.field import Data, Int, Ref\n"
          "from bisturi.descriptor import Auto, AutoLength\n\n")

OPTSETS = [
    ("generic", "{'generate_for_pack': False, 'generate_for_unpack': False}"),
    ("default", "{}"),
    ("novector", "{'vectorize': False}"),
]


def _f_len(n):
    return n


def _f_auto(n):
    return (n * 2 + 1) & 0xff


# layout items: ("D", width) described, ("T",) tracked, (name, width) other Int field
VARIANTS = [
    {
        "name": "autolen_data",
        "body": "    length = Int(1).describe(AutoLength('value'))\n"
                "    value = Data(length)\n",
        "described": "length", "tracked": "value", "others": [],
        "layout": [("D", 1), ("T",)],
        "f": _f_len, "tv": [b"ab", b"wxyz!"], "default": b"",
        "k_incons": 7,
        "raws": [(b"\x02ab", b"ab", {}), (b"\x00", b"", {}), (b"\x03q\x00r", b"q\x00r", {})],
    },
    {
        "name": "autolen_vectorised",
        "body": "    pad = Int(1)\n"
                "    length = Int(2).describe(AutoLength('value'))\n"
                "    kind = Int(1)\n"
                "    value = Data(length)\n",
        "described": "length", "tracked": "value", "others": ["pad", "kind"],
        "layout": [("pad", 1), ("D", 2), ("kind", 1), ("T",)],
        "f": _f_len, "tv": [b"ab", b"wxyz!"], "default": b"",
        "k_incons": 0x0107,
        "raws": [(b"\x09\x00\x02\x05ab", b"ab", {"pad": 9, "kind": 5}),
                 (b"\xff\x00\x00\x80", b"", {"pad": 255, "kind": 128})],
    },
    {
        "name": "autolen_repeated",
        "body": "    count = Int(1).describe(AutoLength('items'))\n"
                "    items = Int(1).repeated(count)\n",
        "described": "count", "tracked": "items", "others": [],
        "layout": [("D", 1), ("T",)],
        "f": _f_len, "tv": [[1, 2], [9, 8, 7, 6, 5]], "default": [],
        "k_incons": 7,
        "raws": [(b"\x02\x07\x08", [7, 8], {}), (b"\x00", [], {})],
    },
    {
        "name": "auto_general",
        "body": "    length = Int(1).describe(Auto(lambda pkt: (len(pkt.value) * 2 + 1) & 0xff))\n"
                "    value = Data(length // 2)\n",
        "described": "length", "tracked": "value", "others": [],
        "layout": [("D", 1), ("T",)],
        "f": _f_auto, "tv": [b"ab", b"wxyz!"], "default": b"",
        "k_incons": 7,
        # raw length byte 4 -> 2 data bytes but f = 5: the attribute must read 5 (computed), not 4
        "raws": [(b"\x04ab", b"ab", {}), (b"\x05ab", b"ab", {}), (b"\x00", b"", {})],
    },
    # ---- Part 4: the described field is positioned.  Layout directives: ("at", n) ("shift", k) ("align", n)
    {
        "name": "pos_at", "positioned": True,
        "body": "    length = Int(1).describe(AutoLength('value')).at(2)\n"
                "    value = Data(length)\n",
        "described": "length", "tracked": "value", "others": [],
        "layout": [("at", 2), ("D", 1), ("T",)],
        "f": _f_len, "tv": [b"ab", b"wxyz!"], "default": b"",
        "k_incons": 7,
        "raws": [(b"..\x02ab", b"ab", {}), (b"..\x00", b"", {}), (b"..\x03q\x00r", b"q\x00r", {})],
    },
    {
        "name": "pos_shift", "positioned": True,
        "body": "    tag = Int(1)\n"
                "    length = Int(1).describe(AutoLength('value')).shift(1)\n"
                "    value = Data(length)\n",
        "described": "length", "tracked": "value", "others": ["tag"],
        "layout": [("tag", 1), ("shift", 1), ("D", 1), ("T",)],
        "f": _f_len, "tv": [b"ab", b"wxyz!"], "default": b"",
        "k_incons": 7,
        "raws": [(b"\x09.\x02ab", b"ab", {"tag": 9}), (b"\x80.\x00", b"", {"tag": 128})],
    },
    {
        "name": "pos_aligned", "positioned": True,
        "body": "    tag = Int(1)\n"
                "    length = Int(2).describe(AutoLength('value')).aligned(4)\n"
                "    value = Data(length)\n",
        "described": "length", "tracked": "value", "others": ["tag"],
        "layout": [("tag", 1), ("align", 4), ("D", 2), ("T",)],
        "f": _f_len, "tv": [b"ab", b"wxyz!"], "default": b"",
        "k_incons": 0x0107,
        "raws": [(b"\x09...\x00\x02ab", b"ab", {"tag": 9}), (b"\x80...\x00\x00", b"", {"tag": 128})],
    },
    {
        "name": "pos_classalign", "positioned": True, "conf_extra": "'align': 2",
        "body": "    tag = Int(1)\n"
                "    length = Int(1).describe(AutoLength('value'))\n"
                "    value = Data(length)\n"
                "    tail = Int(1)\n",
        "described": "length", "tracked": "value", "others": ["tag", "tail"],
        "layout": [("align", 2), ("tag", 1), ("align", 2), ("D", 1), ("align", 2), ("T",), ("align", 2), ("tail", 1)],
        "f": _f_len, "tv": [b"ab", b"wxyz!"], "default": b"",
        "k_incons": 7,
        "raws": [(b"\x09.\x02.ab\x07", b"ab", {"tag": 9, "tail": 7}),
                 (b"\x80.\x00.\x01", b"", {"tag": 128, "tail": 1}),
                 (b"\x09.\x03.abc.\x07", b"abc", {"tag": 9, "tail": 7})],
    },
    # ---- Part 5: optional tracked field (None in a default packet / when unpack skipped it)
    {
        "name": "optional_tracked", "group": "optional", "two": True,
        "body": "    has = Int(1)\n"
                "    length = Int(1).describe(AutoLength('value'))\n"
                "    value = Data(length).when(has)\n",
        "described": "length", "tracked": "value", "others": ["has"],
        "layout": [("has", 1), ("D", 1), ("T",)],
        "f": _f_len, "tv": [b"ab", b"wxyz!"], "default": None, "none_packs_empty": True,
        "k_incons": 7,
        # has == 0: the tracked field is absent whatever the length byte says
        "raws": [(b"\x01\x02ab", b"ab", {"has": 1}), (b"\x00\x05", None, {"has": 0}), (b"\x01\x00", b"", {"has": 1})],
    },
    # ---- Part 5: Auto(func) reading the described attribute of another packet of the same class
    {
        "name": "auto_chained", "group": "chained", "two": True, "chained": True,
        "conf_extra": "'additional_slots': ['prev']",
        "body": "    total = Int(1).describe(Auto(lambda p: (len(p.value) + (p.prev.total if p.prev is not None else 0)) & 0xff))\n"
                "    n = Int(1).describe(AutoLength('value'))\n"
                "    value = Data(n)\n",
        "described": "total", "tracked": "value", "others": [],
        "layout": [("D", 1), ("L", 1), ("T",)],        # "L": a second, never assigned AutoLength of the tracked field
        "f": _f_len, "tv": [b"ab", b"wxyz!"], "default": b"",
        "k_incons": 200,
        # raw total byte 9 with 2 data bytes: the attribute must read 2 (computed), not 9
        "raws": [(b"\x09\x02ab", b"ab", {}), (b"\x00\x00", b"", {}), (b"\x03\x03q\x00r", b"q\x00r", {})],
    },
]


def _embedded_variant(base, name, tag, tail, two=False):
    """Outer{[tag]; body = Ref(Body, embed=True); [tail]} where Body has the fields of `base`."""
    v = dict(base)
    v.pop("plain", None)
    v["name"] = name
    v["group"] = "embedded"
    v["embedded"] = True
    v["two"] = two
    v["outer_body"] = ("    tag = Int(1)\n" if tag else "") + "    body = Ref(%s, embed=True)\n" + ("    tail = Int(1)\n" if tail else "")
    v["others"] = (["tag"] if tag else []) + list(base["others"]) + (["tail"] if tail else [])
    v["layout"] = ([("tag", 1)] if tag else []) + list(base["layout"]) + ([("tail", 1)] if tail else [])
    raws = []
    for raw, parsed, others in base["raws"]:
        o = dict(others)
        if tag:
            raw = b"\x07" + raw
            o["tag"] = 7
        if tail:
            raw = raw + b"\x09"
            o["tail"] = 9
        raws.append((raw, parsed, o))
    v["raws"] = raws
    return v


def _by_name(name):
    return [v for v in VARIANTS if v["name"] == name][0]


for _v in VARIANTS[:4]:
    _v["plain"] = True
for _v in VARIANTS:
    if _v.get("positioned"):
        _v["group"] = "positioned"
VARIANTS.extend([
    _embedded_variant(_by_name("autolen_data"), "emb_autolen_data", True, False, two=True),
    _embedded_variant(_by_name("autolen_vectorised"), "emb_autolen_vectorised", True, True),
    _embedded_variant(_by_name("autolen_repeated"), "emb_autolen_repeated", False, True),
    _embedded_variant(_by_name("optional_tracked"), "emb_optional_tracked", True, False),
])
PLAIN_VARIANTS = [v for v in VARIANTS if v.get("plain")]


def _f_range(n):
    return list(range(n))


# ---- Part 12: the DESCRIBED field itself carries a wrapper: optional (.when(cond).describe(..)), optional + positioned,
# repeated (.repeated(n).describe(Auto(func returning a list))).  "present": does the condition (taken from an earlier plain
# field) say that unpack parses the field.  "deep": histories up to the short bound LP (the others one operation less in the
# quick tier).  "M" layout item: literal bytes (the end marker of Data(until_marker=..)); "DL": described list of Int(w).
OPTDESC_VARIANTS = [
    {
        "name": "optdesc_marker", "group": "optional_described", "optdesc": True, "two": True, "deep": True, "nested_lite": True,
        "body": "    has = Int(1)\n"
                "    length = Int(1).when(has).describe(AutoLength('value'))\n"
                "    value = Data(until_marker=b'\\x00')\n",
        "described": "length", "tracked": "value", "others": ["has"],
        "layout": [("has", 1), ("D", 1), ("T",), ("M", b"\x00")],
        "f": _f_len, "tv": [b"ab", b"wxyz!"], "default": b"",
        "k_incons": 7, "present": lambda o: bool(o["has"]),
        # has == 0: the described field is not in the data; has == 1 with a length byte that differs from the data
        "raws": [(b"\x00xy\x00", b"xy", {"has": 0}), (b"\x01\x02ab\x00", b"ab", {"has": 1}),
                 (b"\x00\x00", b"", {"has": 0}), (b"\x01\x09abc\x00", b"abc", {"has": 1})],
    },
    {
        "name": "optdesc_sized", "group": "optional_described", "optdesc": True,
        "body": "    flag = Int(1)\n"
                "    length = Int(2).when(flag == 1).describe(AutoLength('value'))\n"
                "    value = Data(length)\n"
                "    tail = Int(1)\n",
        "described": "length", "tracked": "value", "others": ["flag", "tail"],
        "layout": [("flag", 1), ("D", 2), ("T",), ("tail", 1)],
        "f": _f_len, "tv": [b"ab", b"wxyz!"], "default": b"",
        "k_incons": 0x0107, "present": lambda o: o["flag"] == 1,
        # the tracked field is sized by the described one: only data with the field present can be unpacked
        "raws": [(b"\x01\x00\x02ab\x09", b"ab", {"flag": 1, "tail": 9}), (b"\x01\x00\x00\x80", b"", {"flag": 1, "tail": 128})],
    },
    {
        "name": "optdesc_auto", "group": "optional_described", "optdesc": True,
        "body": "    has = Int(1)\n"
                "    length = Int(1).when(has != 0).describe(Auto(lambda pkt: (len(pkt.value) * 2 + 1) & 0xff))\n"
                "    value = Data(until_marker=b'\\x00')\n",
        "described": "length", "tracked": "value", "others": ["has"],
        "layout": [("has", 1), ("D", 1), ("T",), ("M", b"\x00")],
        "f": _f_auto, "tv": [b"ab", b"wxyz!"], "default": b"",
        "k_incons": 8, "present": lambda o: o["has"] != 0,
        # raw length byte 4 but f = 5: the attribute must read 5 (computed)
        "raws": [(b"\x00ab\x00", b"ab", {"has": 0}), (b"\x05\x04ab\x00", b"ab", {"has": 5}), (b"\x00\x00", b"", {"has": 0})],
    },
    {
        "name": "optdesc_pos_at", "group": "optional_described", "optdesc": True, "optpos": True,
        "body": "    has = Int(1)\n"
                "    length = Int(1).when(has).describe(AutoLength('value')).at(3)\n"
                "    value = Data(until_marker=b'\\x00')\n",
        "described": "length", "tracked": "value", "others": ["has"],
        "layout": [("has", 1), ("at", 3), ("D", 1), ("T",), ("M", b"\x00")],
        "f": _f_len, "tv": [b"ab", b"wxyz!"], "default": b"",
        "k_incons": 7, "present": lambda o: bool(o["has"]),
        "raws": [(b"\x00..xy\x00", b"xy", {"has": 0}), (b"\x01..\x02ab\x00", b"ab", {"has": 1}), (b"\x00..\x00", b"", {"has": 0})],
    },
    {
        "name": "optdesc_pos_aligned", "group": "optional_described", "optdesc": True, "optpos": True,
        "body": "    tag = Int(1)\n"
                "    length = Int(2).when(tag == 1).aligned(4).describe(AutoLength('value'))\n"
                "    value = Data(length)\n",
        "described": "length", "tracked": "value", "others": ["tag"],
        "layout": [("tag", 1), ("align", 4), ("D", 2), ("T",)],
        "f": _f_len, "tv": [b"ab", b"wxyz!"], "default": b"",
        "k_incons": 0x0107, "present": lambda o: o["tag"] == 1,
        "raws": [(b"\x01...\x00\x02ab", b"ab", {"tag": 1}), (b"\x01...\x00\x00", b"", {"tag": 1})],
    },
    {
        "name": "repdesc_list", "group": "repeated_described", "two": True, "deep": True,
        "body": "    n = Int(1)\n"
                "    mirror = Int(1).repeated(n).describe(Auto(lambda pkt: list(range(len(pkt.value)))))\n"
                "    value = Data(n)\n",
        "described": "mirror", "tracked": "value", "others": ["n"],
        "layout": [("n", 1), ("DL", 1), ("T",)],
        "f": _f_range, "tv": [b"ab", b"wxyz!"], "default": b"",
        "k_incons": [7, 7, 7],
        # the parsed elements 9, 8 differ from the computed list [0, 1]
        "raws": [(b"\x02\x09\x08ab", b"ab", {"n": 2}), (b"\x00", b"", {"n": 0}), (b"\x03\x00\x01\x02q\x00r", b"q\x00r", {"n": 3})],
    },
]
VARIANTS.extend(OPTDESC_VARIANTS)
_v = _embedded_variant(OPTDESC_VARIANTS[0], "emb_optdesc_marker", True, True)
_v.update({"group": "optional_described", "deep": False, "nested_lite": False})
VARIANTS.append(_v)
NESTED_VARIANTS = PLAIN_VARIANTS + [v for v in VARIANTS if v.get("nested_lite")]
FILL = b"."
_BROKEN = "<no computed value: tracked field is None>"     # compared by identity only

OPS = ("T0", "T1", "D0", "D1", "DEL", "RD", "PK")
OPS8 = OPS + ("TN",)
STATE_CHANGING = ("T0", "T1", "D0", "D1", "DEL", "TN", "DN")
NEW_GROUPS = ("optional_described", "repeated_described")
# counters of the optional described layouts that are also reported per code path (generic / generated)
OD_PATH_COUNTERS = (
    "optional_described_packs_in_computed_state_with_hidden_none",
    "optional_described_packs_in_computed_state_after_unpack_condition_false",
    "optional_described_packs_in_computed_state_after_none_then_delete",
    "optional_described_packs_assigned_none_field_omitted",
)


def ops_for(v, tn=False):
    """Operation alphabet of a variant: an optional described field also gets DN (assign None = 'absent' to the described
    attribute; `DN DEL` is the way back to the computed state with nothing stored for the field)."""
    return OPS + (("DN",) if v.get("optdesc") else ()) + (("TN",) if tn else ())


def two_ops_for(v, tn=False):
    return tuple((i, op) for i in (0, 1) for op in ops_for(v, tn))

# ---- Part 9..11: every way a packet comes to be, in the state "explicitly assigned a value EQUAL to the computed one"
# copy operations: the live packet is replaced by a copy of itself (the model is not touched: a copy is in the same state)
COPY_OPS = ("CD", "CP", "CC")
COPY_KIND = {"CD": "deepcopy", "CP": "pickle", "CC": "prototype_clone"}
COPY_KINDS = ("deepcopy", "pickle", "prototype_clone")
# the fixed tail run after every start state: change the tracked field, read, pack, delete, read
SCRIPT_TAIL = ("RD", "PK", "DEL", "RD")
ORIGINS = ("constructor", "prototype_instance", "repeated_default_element", "optional_ref_default",
           "deepcopy", "pickle", "prototype_clone", "outer_deepcopy", "outer_pickle", "outer_prototype_clone")
ORIGIN_STATE_COUNTERS = {
    "constructor": ("constructed_with_explicit_value_equal_to_computed",),
    "prototype_instance": ("prototype_instances_with_explicit_value_equal_to_computed",),
    "repeated_default_element": ("repeated_default_elements_with_explicit_value_equal_to_computed",),
    "optional_ref_default": ("optional_ref_defaults_with_explicit_value_equal_to_computed",),
}
for _k in COPY_KINDS:
    ORIGIN_STATE_COUNTERS[_k] = ("copies_in_explicit_equal_state", "copies_in_explicit_equal_state_%s" % _k)
    ORIGIN_STATE_COUNTERS["outer_" + _k] = ("outer_copies_with_inner_in_explicit_equal_state",
                                            "outer_copies_with_inner_in_explicit_equal_state_%s" % _k)
ORIGIN_EVENTS = ("reads_after_tracked_change", "packs_after_tracked_change", "deletes", "reads_after_delete")
ORIGIN_EVENT_COUNTERS = {o: {e: "explicit_equal_%s_%s" % (o, e) for e in ORIGIN_EVENTS} for o in ORIGINS}


def _copy_packet(p, kind):
    """A copy of a live packet by one of the public ways."""
    if kind == "deepcopy":
        return copy.deepcopy(p)
    if kind == "pickle":
        return pickle.loads(pickle.dumps(p))
    return p.as_prototype().clone()


def class_source(variant, optname, optsrc):
    cname = "C17_%s_%s" % (variant["name"], optname)
    extra = variant.get("conf_extra")
    if extra:
        optsrc = "{" + extra + (", " + optsrc[1:] if optsrc != "{}" else "}")
    if variant.get("embedded"):
        bname = cname + "_Body"
        src = HEADER + "class %s(Packet):\n    __bisturi__ = %s\n%s" % (bname, optsrc, variant["body"])
        src += "\n\nclass %s(Packet):\n    __bisturi__ = %s\n%s" % (cname, optsrc, variant["outer_body"] % bname)
        return cname, src
    src = HEADER + "class %s(Packet):\n    __bisturi__ = %s\n%s" % (cname, optsrc, variant["body"])
    return cname, src


def starts_for(v):
    """JSON-able start descriptors: ["ctor", {kw: value}] | ["unpack", raw, parsed_tracked, others]."""
    d, t, f = v["described"], v["tracked"], v["f"]
    tv0, tv1 = v["tv"]
    k_default = f(len(v["default"] or b""))   # consistent with the default tracked value (an absent one counts as empty)
    k0 = f(len(tv0))                       # consistent with tv0
    out = [
        ["ctor", {}],
        ["ctor", {d: k_default}],
        ["ctor", {d: v["k_incons"]}],
        ["ctor", {t: tv0}],
        ["ctor", {d: k0, t: tv0}],
        ["ctor", {d: v["k_incons"], t: tv1}],
    ]
    for raw, parsed, others in v["raws"]:
        out.append(["unpack", raw, parsed, others])
    if v.get("optdesc"):
        # None passed by keyword: explicitly assigned "absent" (appended after the unpack starts: indices stay put)
        out.append(["ctor", {d: None}])
        out.append(["ctor", {d: None, t: tv1}])
    return out


def _fresh(x):
    return list(x) if isinstance(x, list) else x


class Ctx:
    """One class under test plus everything precomputed from its variant."""

    def __init__(self, cls, variant, optname, source):
        self.cls = cls
        self.v = variant
        self.optname = optname
        self.source = source
        self.dname = variant["described"]
        self.tname = variant["tracked"]
        self.others = list(variant["others"])
        self.layout = variant["layout"]
        self.f = variant["f"]
        self.tv = variant["tv"]
        f = self.f
        self.kv = [f(len(self.tv[0])), variant["k_incons"]]   # D0: consistent with tv0, D1: never consistent
        reachable = [f(len(variant["default"] or b"")), f(len(self.tv[0])), f(len(self.tv[1]))]
        reachable += [f(len(p or b"")) for _, p, _ in variant["raws"]]
        assert variant["k_incons"] not in reachable
        self.optdesc = bool(variant.get("optdesc"))           # the described field is optional: None = absent, packs as nothing
        self.present = variant.get("present")
        self.hidden_name = "_described_" + self.dname        # read for COUNTING only (which internal state a pack started from)
        self.ops = ops_for(variant)
        self.chained = bool(variant.get("chained"))
        self.none_ok = bool(variant.get("none_packs_empty"))   # None is a regular value of the tracked field (packs as nothing)
        self.group = variant.get("group")
        # last history on this class in which a computed read raised: class-level state leaking out of it would show up
        # in a LATER history, whose witness then names this one as its prefix
        self.last_failed = None

    def encode(self, visible, tracked, others):
        out = b""
        for item in self.layout:
            if item[0] == "D":
                if visible is not None:          # optional described field reading None: absent, nothing on the wire
                    out += int(visible).to_bytes(item[1], "big")
            elif item[0] == "DL":
                out += b"".join(int(x).to_bytes(item[1], "big") for x in visible)
            elif item[0] == "M":
                out += item[1]
            elif item[0] == "T":
                out += b"" if tracked is None else bytes(tracked)
            elif item[0] == "L":
                out += len(tracked).to_bytes(1, "big")
            elif item[0] == "at":
                out += FILL * (item[1] - len(out))
            elif item[0] == "shift":
                out += FILL * item[1]
            elif item[0] == "align":
                out += FILL * (-len(out) % item[1])
            else:
                out += int(others[item[0]]).to_bytes(item[1], "big")
        return out


class Stats:
    __slots__ = ("c",)

    def __init__(self):
        self.c = {}

    def add(self, k, n=1):
        self.c[k] = self.c.get(k, 0) + n

    def flush(self, run):
        for k, n in self.c.items():
            run.count(k, n)
        self.c = {}


def execute(ctx, starts, ops, mode, st, states=None):
    """Run one history on the real library and on the model in lock-step.
    starts: list of start descriptors (one per live packet); ops: sequence of (packet_index, opcode);
    mode: 'pure' | 'observed'.  Returns None or a (what, detail) pair describing the first violation."""
    cls = ctx.cls
    dname, tname, f = ctx.dname, ctx.tname, ctx.f
    chained, none_ok = ctx.chained, ctx.none_ok
    pk = []      # real packets
    md = []      # models: [explicit, xval, tracked, others, tracked_changed_since_start, assigned_since_unpack, origin]
    #              origin: how the packet came to be while "explicit with a value equal to the computed one" (or None)
    for s in starts:
        try:
            if s[0] == "ctor":
                kw = {k: _fresh(val) for k, val in s[1].items()}
                p = cls(**kw)
                explicit = dname in s[1]
                m = [explicit, s[1].get(dname), _fresh(s[1].get(tname, ctx.v["default"])),
                     {o: 0 for o in ctx.others}, False, None, None]
            else:
                p = cls.unpack(s[1])
                m = [False, None, _fresh(s[2]), dict(s[3]), False, False, None]
            if chained:
                p.prev = pk[-1] if pk else None      # harness-owned extra slot: packet i computes from packet i-1
        except Exception as e:
            return ("start raised %s" % type(e).__name__, {"step": -1, "error": "%s: %s" % (type(e).__name__, str(e)[:300])})
        pk.append(p)
        md.append(m)
    optdesc = ctx.optdesc
    # optional described field: how each packet came to be / what was done last (for the counters only)
    came = []
    none_then_deleted = [False] * len(pk)
    if optdesc:
        for s in starts:
            if s[0] == "ctor":
                came.append("keyword" if dname in s[1] else "fresh")
            else:
                came.append("present" if ctx.present(s[3]) else "absent")
                st.add("optional_described_unpacks_condition_true" if came[-1] == "present"
                       else "optional_described_unpacks_condition_false")
    failed = [False] * len(pk)      # a computed read of this packet raised (tracked field None) earlier in the history
    nfailed = [0]
    origs = []                      # (original packet, frozen model) left behind by the copy operations

    def auto_value(i):
        t = md[i][2]
        if t is None:
            return _BROKEN
        if chained:
            if i:
                pv = visible(i - 1)
                if pv is _BROKEN:
                    return _BROKEN
                return (len(t) + pv) & 0xff
            return len(t) & 0xff
        return f(len(t))

    def visible(i):
        m = md[i]
        return m[1] if m[0] else auto_value(i)

    def set_origin(i, origin):
        # the packet i has just come to be (constructed / copied): remember how if it is explicit with the computed value
        m = md[i]
        if m[0]:
            if m[1] == auto_value(i):
                m[6] = origin
                for name in ORIGIN_STATE_COUNTERS[origin]:
                    st.add(name)
                if m[2] == ctx.v["default"] and not any(m[3].values()):
                    # every attribute reads like the one of a fresh C(): only the explicit flag differs
                    st.add("copies_explicit_equal_reading_like_default_packet" if origin in COPY_KINDS
                           else "constructed_explicit_equal_reading_like_default_packet")
                return True
        m[6] = None
        return False

    def origin_event(i, kind):
        # kind "reads" / "packs" of a packet that came to be explicit-equal
        m = md[i]
        if m[0]:
            if m[1] != auto_value(i):
                st.add(ORIGIN_EVENT_COUNTERS[m[6]][kind + "_after_tracked_change"])
        elif kind == "reads":
            st.add(ORIGIN_EVENT_COUNTERS[m[6]]["reads_after_delete"])

    for i in range(len(pk)):
        if starts[i][0] == "ctor":
            set_origin(i, "constructor")

    def failing_read(p, i):
        # the computed value does not exist: nothing is fixed about this read
        try:
            getattr(p, dname)
        except Exception:
            st.add("computed_reads_failed")
            if not failed[i]:
                failed[i] = True
                nfailed[0] += 1
                ctx.last_failed = (starts, ops, mode)
        else:
            st.add("computed_reads_in_failing_state_returned_not_judged")

    def note_computed_read(i):
        # a judged read of a computed value
        if chained and i:
            st.add("chained_reads_through_other_instance")
        if nfailed[0]:
            if failed[i]:
                st.add("computed_reads_after_failed_read_same_instance")
                if nfailed[0] > 1:
                    st.add("computed_reads_after_failed_read_on_other_instance")
            else:
                st.add("computed_reads_after_failed_read_on_other_instance")

    _missing = object()

    def od_note_pack(i, p):
        # a judged pack of a packet whose described field is optional: which state does it start from (counting only)
        m = md[i]
        if m[0]:
            st.add("optional_described_packs_assigned_none_field_omitted" if m[1] is None
                   else "optional_described_packs_assigned_value")
            return
        st.add("optional_described_packs_in_computed_state")
        if m[3] and not ctx.present(m[3]):
            st.add("optional_described_packs_in_computed_state_condition_field_says_absent")
        if getattr(p, ctx.hidden_name, _missing) is None:
            st.add("optional_described_packs_in_computed_state_with_hidden_none")
            if none_then_deleted[i]:
                st.add("optional_described_packs_in_computed_state_after_none_then_delete")
            elif came[i] == "absent":
                st.add("optional_described_packs_in_computed_state_after_unpack_condition_false")
            elif came[i] == "fresh":
                st.add("optional_described_packs_in_computed_state_fresh_packet")

    def od_note_read(i, r):
        m = md[i]
        if m[0]:
            if m[1] is None:
                st.add("optional_described_reads_none_while_assigned_none")
        else:
            if came[i] == "absent" and m[5] is False:
                st.add("optional_described_reads_computed_after_unpack_condition_false")
            if none_then_deleted[i]:
                st.add("optional_described_reads_computed_after_none_then_delete")

    def unjudged_pack(p):
        try:
            p.pack()
        except Exception:
            st.add("packs_in_failing_state_raised_not_judged")
        else:
            st.add("packs_in_failing_state_returned_not_judged")

    # a second consecutive pack is part of the closing observation of a pure history only (in observed mode the
    # enumerated histories containing PK PK cover it)
    attempts = (0, 1) if mode == "pure" else (0,)

    def observe(step):
        # 1. reads before pack
        reads = []
        for i, p in enumerate(pk):
            m = md[i]
            want = visible(i)
            try:
                if want is _BROKEN:
                    failing_read(p, i)
                    r = _BROKEN
                else:
                    r = getattr(p, dname)
                t = getattr(p, tname)
                o = {n: getattr(p, n) for n in ctx.others}
            except Exception as e:
                return ("attribute read raised %s" % type(e).__name__,
                        {"step": step, "packet": i, "error": "%s: %s" % (type(e).__name__, str(e)[:300])})
            if t != m[2] or o != m[3]:
                return ("tracked/plain field does not read as last assigned or parsed (disturbed by the described-field machinery)",
                        {"step": step, "packet": i, "got": {"tracked": t, "others": o},
                         "want": {"tracked": m[2], "others": m[3]}})
            if want is not _BROKEN:
                st.add("reads_compared")
                if m[5] is False:
                    st.add("reads_after_unpack_before_assignment")
                    if m[4]:
                        st.add("observed_after_unpack_then_tracked_change")
                if r != want:
                    return ("described attribute reads %r but the model (explicit=%s) says %r" % (r, m[0], want),
                            {"step": step, "packet": i, "got": r, "want": want,
                             "model": {"explicit": m[0], "explicit_value": m[1], "tracked": m[2]},
                             "computed_read_failed_earlier_on_packets": [j for j, x in enumerate(failed) if x]})
                if not m[0]:
                    note_computed_read(i)
                if m[6]:
                    origin_event(i, "reads")
                if optdesc:
                    od_note_read(i, r)
            reads.append((r, t, o))
        # 2. pack every packet, compare with the reference encoding of what was just read
        for i, p in enumerate(pk):
            m = md[i]
            r, t, o = reads[i]
            if r is _BROKEN or (t is None and not none_ok):
                unjudged_pack(p)
                continue
            want = ctx.encode(r, t, o)
            if optdesc:
                od_note_pack(i, p)
            for attempt in attempts:
                try:
                    b = p.pack()
                except Exception as e:
                    return ("pack() raised %s" % type(e).__name__,
                            {"step": step, "packet": i, "error": "%s: %s" % (type(e).__name__, str(e)[:300])})
                st.add("packs_compared")
                if b != want:
                    return ("pack() bytes differ from the reference encoding of what the attributes read"
                            + (" (second consecutive pack)" if attempt else ""),
                            {"step": step, "packet": i, "got": b2j(b), "want": b2j(want),
                             "reads": {"described": r, "tracked": t, "others": o},
                             "model": {"explicit": m[0], "explicit_value": m[1], "tracked": m[2]}})
            if m[6]:
                origin_event(i, "packs")
            if m[0]:
                st.add("packs_explicit_consistent" if m[1] == auto_value(i) else "packs_explicit_inconsistent")
                if t is None:
                    st.add("packs_explicit_with_absent_optional_tracked")
            else:
                st.add("packs_auto")
                if m[4]:
                    st.add("packs_auto_after_tracked_change")
                    if m[5] is False:
                        st.add("packs_auto_after_unpack_then_tracked_change")
                if failed[i]:
                    st.add("packs_auto_after_failed_read_and_restore")
        # 3. reads after pack (of every packet: a pack of one must not change the other either)
        for i, p in enumerate(pk):
            try:
                r2 = _BROKEN if reads[i][0] is _BROKEN else getattr(p, dname)
                t2 = getattr(p, tname)
                o2 = {n: getattr(p, n) for n in ctx.others}
            except Exception as e:
                return ("attribute read after pack() raised %s" % type(e).__name__,
                        {"step": step, "packet": i, "error": "%s: %s" % (type(e).__name__, str(e)[:300])})
            if (r2, t2, o2) != reads[i]:
                return ("pack() changed what an attribute reads",
                        {"step": step, "packet": i, "before": {"described": reads[i][0], "tracked": reads[i][1], "others": reads[i][2]},
                         "after": {"described": r2, "tracked": t2, "others": o2}})
            st.add("dict_checks")
            if hasattr(p, "__dict__"):
                return ("instance has a __dict__", {"step": step, "packet": i})
        # 4. the packets a copy was taken of: nothing was done to them since, they still read as they did
        if origs and step == len(ops) - 1:
            for k, (po, mo, want) in enumerate(origs):
                try:
                    r = want if want is _BROKEN else getattr(po, dname)
                    t = getattr(po, tname)
                    o = {n: getattr(po, n) for n in ctx.others}
                except Exception as e:
                    return ("attribute read of a packet a copy was taken of raised %s" % type(e).__name__,
                            {"step": step, "copy_number": k, "error": "%s: %s" % (type(e).__name__, str(e)[:300])})
                st.add("originals_checked_after_copy")
                if r != want or t != mo[2] or o != mo[3]:
                    return ("a packet a copy was taken of reads differently after operations on the copy",
                            {"step": step, "copy_number": k, "got": {"described": r, "tracked": t, "others": o},
                             "want": {"described": want, "tracked": mo[2], "others": mo[3]},
                             "model_of_original": {"explicit": mo[0], "explicit_value": mo[1], "tracked": mo[2]}})
        return None

    nops = len(ops)
    for step, (i, op) in enumerate(ops):
        p = pk[i]
        m = md[i]
        if states is not None:
            states.add((m[0], (m[1] == auto_value(i)) if m[0] else None, -1 if m[2] is None else len(m[2]), op))
        try:
            if op == "T0" or op == "T1":
                val = ctx.tv[0 if op == "T0" else 1]
                if m[2] is None and failed[i]:
                    st.add("tracked_restored_after_failed_read")
                setattr(p, tname, _fresh(val))
                m[2] = _fresh(val)
                m[4] = True
            elif op == "TN":
                setattr(p, tname, None)
                m[2] = None
                m[4] = True
                st.add("tracked_set_to_none")
            elif op == "D0" or op == "D1":
                val = ctx.kv[0 if op == "D0" else 1]
                if m[0]:
                    st.add("sets_while_explicit")
                setattr(p, dname, _fresh(val))
                m[0], m[1] = True, _fresh(val)
                m[6] = None
                if m[5] is False:
                    m[5] = True
                if optdesc:
                    none_then_deleted[i] = False
            elif op == "DN":
                # optional described field: None = "absent" assigned explicitly
                if m[0]:
                    st.add("sets_while_explicit")
                setattr(p, dname, None)
                m[0], m[1] = True, None
                m[6] = None
                if m[5] is False:
                    m[5] = True
                none_then_deleted[i] = False
                st.add("optional_described_none_assigned")
            elif op in COPY_KIND:
                kind = COPY_KIND[op]
                newp = _copy_packet(p, kind)
                st.add("copies_taken")
                if newp is p:
                    st.add("copy_returned_the_same_object_not_judged")
                else:
                    want = _BROKEN if chained else visible(i)      # chained: depends on another packet, not frozen
                    origs.append((p, [m[0], m[1], _fresh(m[2]), dict(m[3])], want))
                    pk[i] = newp
                    if not set_origin(i, kind):
                        st.add("copies_in_explicit_differing_state" if m[0] else "copies_in_automatic_state")
            elif op == "DEL":
                was = m[0]
                if was and m[6]:
                    st.add(ORIGIN_EVENT_COUNTERS[m[6]]["deletes"])
                try:
                    delattr(p, dname)
                except AttributeError:
                    if was:
                        raise
                    st.add("delete_while_not_assigned_raised_not_judged")
                st.add("deletes_while_explicit" if was else "deletes_while_auto")
                if optdesc and was and m[1] is None:
                    none_then_deleted[i] = True
                    st.add("optional_described_deletes_while_assigned_none")
                m[0] = False
            elif op == "RD":
                want = visible(i)
                if want is _BROKEN:
                    failing_read(p, i)
                else:
                    r = getattr(p, dname)
                    st.add("reads_compared")
                    if m[5] is False:
                        st.add("reads_after_unpack_before_assignment")
                    if r != want:
                        return ("described attribute reads %r but the model (explicit=%s) says %r" % (r, m[0], want),
                                {"step": step, "packet": i, "got": r, "want": want,
                                 "model": {"explicit": m[0], "explicit_value": m[1], "tracked": m[2]},
                                 "computed_read_failed_earlier_on_packets": [j for j, x in enumerate(failed) if x]})
                    if not m[0]:
                        note_computed_read(i)
                    if m[6]:
                        origin_event(i, "reads")
                    if optdesc:
                        od_note_read(i, r)
            elif op == "PK":
                vis = visible(i)
                if vis is _BROKEN or (m[2] is None and not none_ok):
                    unjudged_pack(p)
                else:
                    if optdesc:
                        od_note_pack(i, p)
                    b = p.pack()
                    st.add("packs_compared")
                    if m[6]:
                        origin_event(i, "packs")
                    want = ctx.encode(vis, m[2], m[3])
                    if b != want:
                        return ("pack() bytes differ from the reference encoding of the model state",
                                {"step": step, "packet": i, "got": b2j(b), "want": b2j(want),
                                 "model": {"explicit": m[0], "explicit_value": m[1], "tracked": m[2]}})
            else:
                raise RuntimeError("unknown op %r" % (op,))
        except RuntimeError:
            raise
        except Exception as e:
            return ("operation %s raised %s" % (op, type(e).__name__),
                    {"step": step, "packet": i, "error": "%s: %s" % (type(e).__name__, str(e)[:300])})
        if mode == "observed" or step == nops - 1:
            bad = observe(step)
            if bad is not None:
                return bad
    if nops == 0:
        return observe(-1)
    return None


def _witness(ctx, starts, ops, mode, detail):
    w = {"declaration": ctx.source, "class": ctx.cls.__name__, "variant": ctx.v["name"], "options": ctx.optname,
         "starts": starts, "ops": [list(o) for o in ops], "mode": mode,
         "op_values": {"T0": ctx.tv[0], "T1": ctx.tv[1], "D0": ctx.kv[0], "D1": ctx.kv[1], "TN": None, "DN": None,
                       "CD": "packet = copy.deepcopy(packet)", "CP": "packet = pickle.loads(pickle.dumps(packet))",
                       "CC": "packet = packet.as_prototype().clone()"},
         "described": ctx.dname, "tracked": ctx.tname}
    if ctx.chained:
        w["note"] = "packet i has its extra slot prev = packet i-1 (None for packet 0), set by the harness right after the start"
    lf = ctx.last_failed
    if lf is not None and (lf[0], tuple(lf[1]), lf[2]) != (starts, tuple(ops), mode):
        w["preceding_history_with_failed_computed_read_on_same_class"] = {
            "starts": lf[0], "ops": [list(o) for o in lf[1]], "mode": lf[2],
            "note": "executed earlier in this process on other packets of the same class; replay runs it first"}
    w.update(detail)
    return w


def _nontrivial(starts, ops):
    if any(s[0] == "unpack" or s[1] for s in starts):
        return True
    return any(op in STATE_CHANGING for _, op in ops)


def define_classes(run, scratch, count=True):
    from bisturi.packet import Packet
    from .. import render
    ctxs = []
    for v in VARIANTS:
        for optname, optsrc in OPTSETS:
            cname, src = class_source(v, optname, optsrc)
            module, path = render.load_source(src, scratch)
            cls = getattr(module, cname)
            ctx = Ctx(cls, v, optname, src)
            ctxs.append(ctx)
            generic = (cls.pack_impl is Packet.pack_impl) and (cls.unpack_impl is Packet.unpack_impl)
            generated = (cls.pack_impl is not Packet.pack_impl) and (cls.unpack_impl is not Packet.unpack_impl)
            if optname == "generic" and not generic:
                run.inconclusive_because("option set 'generic' did not give generic pack/unpack code for %s" % cname)
            if optname != "generic" and not generated:
                run.inconclusive_because("option set %r did not give generated pack/unpack code for %s" % (optname, cname))
            if not count:
                continue
            run.cover("classes", "%s/%s" % (v["name"], optname))
            if generic:
                run.count("classes_generic_code")
            if generated:
                run.count("classes_generated_code")
                gen = os.path.join(scratch, "__pkts__", "%s_%s.py" % (module.__name__, cname))
                try:
                    with open(gen) as fh:
                        text = fh.read()
                except OSError:
                    text = ""
                for line in text.splitlines():
                    if "StructPack(" in line and ("pkt._described_%s" % v["described"]) in line and line.count("pkt.") >= 2:
                        run.count("described_field_in_vectorised_run")
                        run.cover("vectorised_pack_lines", "%s/%s: %s" % (v["name"], optname, line.strip()))
                if "sync_methods[0](pkt)" in text:
                    run.count("generated_code_calls_sync_before_pack")
                if v.get("positioned"):
                    for line in text.splitlines():
                        if "StructUnpack(" in line and "=" in line and v["described"] in line.split("=")[0]:
                            run.count("positioned_described_struct_coded_generated_unpack")
                            run.cover("positioned_unpack_lines", "%s/%s: %s" % (v["name"], optname, line.strip()))
    return ctxs


TWO_OPS = tuple((i, op) for i in (0, 1) for op in OPS)
TWO_OPS8 = tuple((i, op) for i in (0, 1) for op in OPS8)


def two_packet_starts(v):
    s = starts_for(v)
    unpacks = [x for x in s if x[0] == "unpack"]
    unpack1 = unpacks[0]
    if v["default"] is None:
        # optional tracked field: a default packet has no computed value; pair it with one that has
        return [
            [s[0], s[3]],                  # C() (computed read fails), C(tracked=v1)
            [s[5], s[0]],                  # C(described=k inconsistent, tracked=v2), C()
            [unpacks[1], unpack1],         # unpack(raw without the tracked field), unpack(raw with it)
        ]
    return [
        [s[0], s[0]],            # C(), C()
        [s[5], s[3]],            # C(described=k inconsistent, tracked=v2), C(tracked=v1)
        [unpack1, s[0]],         # unpack(raw), C()
    ]


# ---------------------------------------------------------------------------------------------------
# Part 3: the described packet as a sub-packet
# ---------------------------------------------------------------------------------------------------
NHEADER = ("from bisturi.packet import Packet\n"
           "from bisturi.field import Data, Int, Ref\n"
           "from bisturi.descriptor import Auto, AutoLength\n\n")
OUTER_OPTSETS = [OPTSETS[0], OPTSETS[1]]
INNER_OPS = ("T0", "T1", "D0", "D1", "DEL", "RD")
NPK = (-1, "PK")
NESTED_ALPHABET = {
    "ref": tuple((0, op) for op in INNER_OPS) + (NPK,),
    "seq": tuple((i, op) for i in (0, 1) for op in INNER_OPS) + (NPK,),
}
INNER_OPS_TN = INNER_OPS + ("TN",)
NESTED_ALPHABET_TN = {
    "ref": tuple((0, op) for op in INNER_OPS_TN) + (NPK,),
    "seq": tuple((i, op) for i in (0, 1) for op in INNER_OPS_TN) + (NPK,),
}


def nested_alphabet(v, kind, tn=False):
    inner = INNER_OPS + (("DN",) if v.get("optdesc") else ()) + (("TN",) if tn else ())
    return tuple((i, op) for i in ((0,) if kind == "ref" else (0, 1)) for op in inner) + (NPK,)


class NestedCtx:
    def __init__(self, ictx, ocls, kind, ooptname, source, proto="class", proto_kw=None, shape="plain"):
        self.ictx = ictx
        self.ocls = ocls
        self.kind = kind
        self.ooptname = ooptname
        self.source = source
        self.proto = proto              # "class" | "cons" | "incons" | "tracked" | "consdefault" | "seqdefA" | "seqdefB"
        # keywords the prototype instance was built with (None for Ref(Inner)); shape "optdef": keywords of the default
        # instance; shape "seqdef": LIST of the keywords of the default elements
        self.proto_kw = proto_kw
        # "plain": Ref(proto) / Ref(proto).repeated(n);  "optdef": Ref(Inner).when(tag, default=Inner(..));
        # "seqdef": Ref(Inner).repeated(n, default=[Inner(..), Inner(..)])
        self.shape = shape
        self.prefix_name = "tag" if kind == "ref" else "n"
        self.holder = "inner" if kind == "ref" else "inners"


def nested_module_source(variant, optname, optsrc):
    iname = "C17N_%s_%s" % (variant["name"], optname)
    src = NHEADER + "class %s(Packet):\n    __bisturi__ = %s\n%s" % (iname, optsrc, variant["body"])
    outers = []
    lite = bool(variant.get("nested_lite"))      # Part 12 inner classes: class prototype and tracked-keyword instance prototype only
    for proto, kw in prototype_keywords(variant):
        if lite and proto not in ("class", "tracked"):
            continue
        if kw is None:
            expr, tagp = iname, ""
        else:
            expr = "%s(%s)" % (iname, ", ".join("%s=%r" % (k, x) for k, x in kw.items()))
            tagp = "_P" + proto
        for ooptname, ooptsrc in OUTER_OPTSETS:
            rname = "%s_Ref%s_%s" % (iname, tagp, ooptname)
            sname = "%s_Seq%s_%s" % (iname, tagp, ooptname)
            src += "\nclass %s(Packet):\n    __bisturi__ = %s\n    tag = Int(1)\n    inner = Ref(%s)\n" % (rname, ooptsrc, expr)
            src += "\nclass %s(Packet):\n    __bisturi__ = %s\n    n = Int(1)\n    inners = Ref(%s).repeated(n)\n" % (sname, ooptsrc, expr)
            outers.append((rname, "ref", ooptname, proto, kw, "plain"))
            outers.append((sname, "seq", ooptname, proto, kw, "plain"))

    def inst(kw):
        return "%s(%s)" % (iname, ", ".join("%s=%r" % (k, x) for k, x in kw.items()))

    # packets that come to be as a copy of a DEFAULT object: optional Ref default, default elements of a repeated Ref
    for proto, kw in prototype_keywords(variant):
        if lite or proto not in ("consdefault", "cons", "incons"):
            continue
        for ooptname, ooptsrc in OUTER_OPTSETS:
            oname = "%s_Opt_P%s_%s" % (iname, proto, ooptname)
            src += "\nclass %s(Packet):\n    __bisturi__ = %s\n    tag = Int(1)\n    inner = Ref(%s).when(tag, default=%s)\n" % (
                oname, ooptsrc, iname, inst(kw))
            outers.append((oname, "ref", ooptname, proto, kw, "optdef"))
    for proto, kws in default_element_keywords(variant):
        if lite:
            continue
        for ooptname, ooptsrc in OUTER_OPTSETS:
            oname = "%s_Seq_%s_%s" % (iname, proto, ooptname)
            src += "\nclass %s(Packet):\n    __bisturi__ = %s\n    n = Int(1)\n    inners = Ref(%s).repeated(n, default=[%s])\n" % (
                oname, ooptsrc, iname, ", ".join(inst(kw) for kw in kws))
            outers.append((oname, "seq", ooptname, proto, kws, "seqdef"))
    return iname, outers, src


def prototype_keywords(v):
    d, t, f = v["described"], v["tracked"], v["f"]
    tv0 = v["tv"][0]
    return [
        ("class", None),
        ("cons", {d: f(len(tv0)), t: tv0}),
        ("incons", {d: v["k_incons"], t: tv0}),
        ("tracked", {t: tv0}),
        # only the described keyword, with the value a fresh packet computes: the instance READS like Inner()
        ("consdefault", {d: f(len(v["default"]))}),
    ]


def default_element_keywords(v):
    """Default elements of Ref(Inner).repeated(n, default=[...]): explicit-equal / explicit-differing / automatic."""
    d, t, f = v["described"], v["tracked"], v["f"]
    tv0 = v["tv"][0]
    return [
        ("seqdefA", [{d: f(len(v["default"]))}, {d: v["k_incons"], t: tv0}]),
        ("seqdefB", [{d: f(len(tv0)), t: tv0}, {t: tv0}]),
    ]


def define_nested_classes(run, scratch, count=True):
    from bisturi.packet import Packet
    from .. import render
    out = []
    for v in NESTED_VARIANTS:
        for optname, optsrc in OPTSETS:
            iname, outers, src = nested_module_source(v, optname, optsrc)
            module, path = render.load_source(src, scratch)
            icls = getattr(module, iname)
            ictx = Ctx(icls, v, optname, src)
            if (icls.pack_impl is Packet.pack_impl) != (optname == "generic"):
                run.inconclusive_because("nested inner %s: pack code path does not match option set %r" % (iname, optname))
            for oname, kind, ooptname, proto, kw, shape in outers:
                ocls = getattr(module, oname)
                if (ocls.pack_impl is Packet.pack_impl) != (ooptname == "generic"):
                    run.inconclusive_because("nested outer %s: pack code path does not match option set %r" % (oname, ooptname))
                out.append(NestedCtx(ictx, ocls, kind, ooptname, src, proto, kw, shape))
                if count:
                    run.cover("nested_classes", "%s inner=%s outer=%s/%s prototype=%s%s" % (
                        v["name"], optname, kind, ooptname, proto, "" if shape == "plain" else " shape=" + shape))
    return out


def nested_starts(nctx):
    """JSON-able starts: {"how": "default"} | {"how": "ctor", "prefix": int, "inners": [kwargs...]}
    | {"how": "unpack", "raw": bytes, "prefix": int, "inners": [[parsed_tracked, others]...]}."""
    v = nctx.ictx.v
    d, t, f = v["described"], v["tracked"], v["f"]
    tv0, tv1 = v["tv"]
    raws = v["raws"]

    def with_copies(base, starts):
        # the same start, then the OUTER packet is replaced by a copy of itself before the first operation
        return starts + [dict(base, copy=k, short=True) for k in COPY_KINDS]

    if nctx.shape == "optdef":
        r = raws[0]
        base = {"how": "default", "prefix": 1, "protos": [dict(nctx.proto_kw)]}
        # the copied outer is a plain Outer(): with an explicit-equal default it READS like a fresh packet all the way down
        return with_copies({"how": "default", "protos": [dict(nctx.proto_kw)]}, [
            base,
            {"how": "unpack", "raw": b"\x05" + r[0], "prefix": 5, "inners": [[r[1], r[2]]], "proto": dict(nctx.proto_kw)},
        ])
    if nctx.shape == "seqdef":
        ra, rb = raws[0], raws[1]
        base = {"how": "default", "prefix": 2, "protos": [dict(kw) for kw in nctx.proto_kw]}
        return with_copies({"how": "default", "protos": [dict(kw) for kw in nctx.proto_kw]}, [
            base,
            {"how": "unpack", "raw": b"\x02" + ra[0] + rb[0], "prefix": 2, "inners": [[ra[1], ra[2]], [rb[1], rb[2]]],
             "proto": dict(nctx.proto_kw[0]), "short": True},
        ])
    if nctx.proto_kw is not None:
        # instance prototype: "proto" records the keywords the default inner is a copy of (model input)
        if nctx.kind == "ref":
            r = raws[0]
            base = {"how": "default", "proto": dict(nctx.proto_kw)}
            out = [
                base,
                {"how": "unpack", "raw": b"\x05" + r[0], "prefix": 5, "inners": [[r[1], r[2]]], "proto": dict(nctx.proto_kw)},
            ]
            return with_copies(base, out) if d in nctx.proto_kw else out
        ra, rb = raws[0], raws[1]
        return [
            {"how": "ctor", "prefix": 2, "inners": [{}, {t: tv1}], "proto": dict(nctx.proto_kw)},
            {"how": "unpack", "raw": b"\x02" + ra[0] + rb[0], "prefix": 2, "inners": [[ra[1], ra[2]], [rb[1], rb[2]]],
             "proto": dict(nctx.proto_kw)},
        ]
    kdef = f(len(v["default"]))
    if nctx.kind == "ref":
        r = raws[0]
        return with_copies({"how": "ctor", "prefix": 3, "inners": [{d: f(len(tv0)), t: tv0}]}, [
            {"how": "default"},
            {"how": "ctor", "prefix": 3, "inners": [{d: v["k_incons"], t: tv1}]},
            {"how": "unpack", "raw": b"\x05" + r[0], "prefix": 5, "inners": [[r[1], r[2]]]},
        ])
    ra, rb = raws[0], raws[1]
    return with_copies({"how": "ctor", "prefix": 2, "inners": [{d: kdef}, {d: v["k_incons"], t: tv1}]}, [
        {"how": "ctor", "prefix": 2, "inners": [{}, {t: tv0}]},
        {"how": "ctor", "prefix": 2, "inners": [{d: v["k_incons"], t: tv1}, {}]},
        {"how": "unpack", "raw": b"\x02" + ra[0] + rb[0], "prefix": 2, "inners": [[ra[1], ra[2]], [rb[1], rb[2]]]},
    ])


def execute_nested(nctx, start, ops, st):
    """One nested history: inner operations on the inner packet(s), PK / closing observation on the OUTER packet.
    Returns None or (what, detail)."""
    ictx = nctx.ictx
    dname, tname, f = ictx.dname, ictx.tname, ictx.f
    v = ictx.v
    how = start["how"]
    copied = start.get("copy")
    orig_outer = None
    try:
        if how == "default":
            # the inner packets come to be as copies of the Ref prototype instance / of the default object(s) of the field
            if "prefix" in start:
                prefix = start["prefix"]
                outer = nctx.ocls(**{nctx.prefix_name: prefix})
            else:
                outer = nctx.ocls()
                prefix = 0
            kws = start.get("protos") or [start.get("proto") or {}]
            md = [[dname in kw, kw.get(dname), _fresh(kw.get(tname, v["default"])), {o: 0 for o in ictx.others}, False, None, None]
                  for kw in kws]
            if any(dname in kw for kw in kws):
                st.add("nested_default_inner_explicit_from_prototype")
            origin = {"plain": "prototype_instance", "optdef": "optional_ref_default", "seqdef": "repeated_default_element"}[nctx.shape]
        elif how == "ctor":
            inners = [ictx.cls(**{k: _fresh(x) for k, x in kw.items()}) for kw in start["inners"]]
            prefix = start["prefix"]
            if nctx.kind == "ref":
                outer = nctx.ocls(**{nctx.prefix_name: prefix, "inner": inners[0]})
            else:
                outer = nctx.ocls(**{nctx.prefix_name: prefix, "inners": inners})
            md = [[dname in kw, kw.get(dname), _fresh(kw.get(tname, v["default"])), {o: 0 for o in ictx.others}, False, None, None]
                  for kw in start["inners"]]
            origin = "constructor"
        else:
            outer = nctx.ocls.unpack(start["raw"])
            prefix = start["prefix"]
            md = [[False, None, _fresh(x[0]), dict(x[1]), False, False, None] for x in start["inners"]]
            origin = None
        if copied:
            newo = _copy_packet(outer, copied)
            st.add("nested_outer_copies_taken")
            if newo is outer:
                st.add("copy_returned_the_same_object_not_judged")
            else:
                orig_outer = outer
                outer = newo
                origin = "outer_" + copied
        held = getattr(outer, nctx.holder)
        pk = [held] if nctx.kind == "ref" else list(held)
    except Exception as e:
        return ("nested start raised %s" % type(e).__name__, {"step": -1, "error": "%s: %s" % (type(e).__name__, str(e)[:300])})
    if len(pk) != len(md) or not all(isinstance(p, ictx.cls) for p in pk):
        return ("outer packet does not hold the expected inner packets after the start",
                {"step": -1, "got": [type(p).__name__ for p in pk], "want": len(md)})
    orig_want = None
    if orig_outer is not None:
        # what the packet the copy was taken of reads as now: nothing is done to it in this history
        orig_want = [(m[1] if m[0] else f(len(m[2])), _fresh(m[2]), dict(m[3])) for m in md]
    if origin is not None:
        for m in md:
            if m[0] and m[1] == f(len(m[2])):
                m[6] = origin
                for name in ORIGIN_STATE_COUNTERS[origin]:
                    st.add(name)
                if origin == "prototype_instance":
                    st.add("prototype_instances_explicit_equal_inner_%s_outer_%s" % (
                        "generic" if ictx.optname == "generic" else "generated", nctx.ooptname))
                if m[2] == v["default"] and how == "default":
                    # every attribute of this packet reads like the one of a fresh Inner(): only the explicit flag differs
                    st.add("%s_explicit_equal_reading_like_default_packet" % (
                        "copied_outer_inners" if copied else ORIGIN_STATE_COUNTERS[origin][0].split("_with_")[0]))
    unpacked = how == "unpack"
    optdesc = ictx.optdesc
    generic_inner = ictx.optname == "generic"
    unpacked_explicit_proto = unpacked and dname in (start.get("proto") or {})
    if unpacked_explicit_proto:
        st.add("nested_unpacked_inner_with_explicit_prototype", len(pk))
    tchanged = [False]
    failed = [False] * len(pk)      # a computed read of this inner raised (tracked field None) earlier in the history

    def visible(m):
        if m[0]:
            return m[1]
        return _BROKEN if m[2] is None else f(len(m[2]))

    def origin_event(m, kind):
        if m[0]:
            if m[2] is None or m[1] != f(len(m[2])):
                st.add(ORIGIN_EVENT_COUNTERS[m[6]][kind + "_after_tracked_change"])
        elif kind == "reads":
            st.add(ORIGIN_EVENT_COUNTERS[m[6]]["reads_after_delete"])

    def failing_read(p, i):
        try:
            getattr(p, dname)
        except Exception:
            st.add("nested_computed_reads_failed")
            if not failed[i]:
                failed[i] = True
                ictx.last_failed = (nctx, start, ops)
        else:
            st.add("nested_computed_reads_in_failing_state_returned_not_judged")

    def read_all():
        out = []
        for i, p in enumerate(pk):
            if visible(md[i]) is _BROKEN:
                failing_read(p, i)
                r = _BROKEN
            else:
                r = getattr(p, dname)
            out.append((r, getattr(p, tname), {n: getattr(p, n) for n in ictx.others}))
        return out

    def outer_pack(step, reads, closing):
        if any(r is _BROKEN or t is None for r, t, o in reads):
            # some inner has no computed value / an unpackable tracked field: the outer pack is not judged
            try:
                outer.pack()
            except Exception:
                st.add("nested_packs_in_failing_state_raised_not_judged")
            else:
                st.add("nested_packs_in_failing_state_returned_not_judged")
            return None
        if any(failed):
            st.add("nested_packs_after_failed_read_and_restore")
        want = bytes([prefix]) + b"".join(ictx.encode(r, t, o) for r, t, o in reads)
        if optdesc:
            # counting only: which state does the outer pack find each inner packet in
            for i, p in enumerate(pk):
                m = md[i]
                if m[0]:
                    if m[1] is None:
                        st.add("nested_optional_described_packs_assigned_none_field_omitted")
                    continue
                st.add("nested_optional_described_packs_in_computed_state")
                if getattr(p, ictx.hidden_name, 0) is None:
                    st.add("nested_optional_described_packs_in_computed_state_with_hidden_none")
                    st.add("nested_optional_described_%s_inner_packs_in_computed_state_with_hidden_none"
                           % ("generic" if generic_inner else "generated"))
                    if unpacked and not ictx.present(m[3]):
                        st.add("nested_optional_described_packs_in_computed_state_after_unpack_condition_false")
        for attempt in ((0, 1) if (closing and nctx.kind == "ref") else (0,)):
            try:
                b = outer.pack()
            except Exception as e:
                return ("outer pack() raised %s" % type(e).__name__,
                        {"step": step, "error": "%s: %s" % (type(e).__name__, str(e)[:300])})
            st.add("nested_packs_compared")
            if nctx.kind == "seq":
                st.add("nested_seq_packs_compared")
            if generic_inner:
                st.add("nested_generic_inner_packs")
                if nctx.ooptname != "generic":
                    st.add("nested_generic_inner_in_generated_outer_packs")
            else:
                st.add("nested_generated_inner_packs")
            if any(m[4] for m in md):
                st.add("nested_packs_after_inner_change")
                if unpacked:
                    st.add("nested_packs_after_outer_unpack")
            if unpacked_explicit_proto and tchanged[0]:
                st.add("nested_unpacked_explicit_prototype_packs_after_tracked_change")
            if not attempt:
                for m in md:
                    if m[6]:
                        origin_event(m, "packs")
            if b != want:
                return ("outer pack() bytes differ from prefix byte + reference encoding of what the inner attributes read"
                        + (" (second consecutive pack)" if attempt else ""),
                        {"step": step, "got": b2j(b), "want": b2j(want),
                         "inner_reads": [{"described": r, "tracked": t, "others": o} for r, t, o in reads],
                         "models": [{"explicit": m[0], "explicit_value": m[1], "tracked": m[2]} for m in md]})
        return None

    def check_reads(step):
        try:
            reads = read_all()
        except Exception as e:
            return None, ("inner attribute read raised %s" % type(e).__name__,
                          {"step": step, "error": "%s: %s" % (type(e).__name__, str(e)[:300])})
        for i, (r, t, o) in enumerate(reads):
            m = md[i]
            st.add("nested_reads_compared")
            if t != m[2] or o != m[3]:
                return None, ("inner tracked/plain field does not read as last assigned or parsed",
                              {"step": step, "packet": i, "got": {"tracked": t, "others": o}, "want": {"tracked": m[2], "others": m[3]}})
            want = visible(m)
            if r is not want and r != want:
                return None, ("inner described attribute reads %r but the model (explicit=%s) says %r" % (r, m[0], want),
                              {"step": step, "packet": i, "got": r, "want": want,
                               "model": {"explicit": m[0], "explicit_value": m[1], "tracked": m[2]},
                               "computed_read_failed_earlier_on_inners": [j for j, x in enumerate(failed) if x]})
            if not m[0] and want is not _BROKEN and any(failed):
                st.add("nested_computed_reads_after_failed_read")
                if any(x for j, x in enumerate(failed) if j != i):
                    st.add("nested_computed_reads_after_failed_read_on_other_inner")
            if m[6] and want is not _BROKEN:
                origin_event(m, "reads")
        return reads, None

    nops = len(ops)
    for step, (i, op) in enumerate(ops):
        try:
            if op == "PK":
                reads, bad = check_reads(step)
                if bad is None:
                    bad = outer_pack(step, reads, False)
                if bad is not None:
                    return bad
            else:
                p = pk[i]
                m = md[i]
                if op == "T0" or op == "T1":
                    val = ictx.tv[0 if op == "T0" else 1]
                    setattr(p, tname, _fresh(val))
                    m[2] = _fresh(val)
                    m[4] = True
                    tchanged[0] = True
                elif op == "TN":
                    setattr(p, tname, None)
                    m[2] = None
                    m[4] = True
                    tchanged[0] = True
                    st.add("nested_tracked_set_to_none")
                elif op == "D0" or op == "D1":
                    val = ictx.kv[0 if op == "D0" else 1]
                    setattr(p, dname, val)
                    m[0], m[1] = True, val
                    m[4] = True
                    m[6] = None
                elif op == "DN":
                    setattr(p, dname, None)
                    m[0], m[1] = True, None
                    m[4] = True
                    m[6] = None
                    st.add("nested_optional_described_none_assigned")
                elif op == "DEL":
                    was = m[0]
                    if was and m[6]:
                        st.add(ORIGIN_EVENT_COUNTERS[m[6]]["deletes"])
                    if optdesc and was and m[1] is None:
                        st.add("nested_optional_described_deletes_while_assigned_none")
                    try:
                        delattr(p, dname)
                    except AttributeError:
                        if was:
                            raise
                        st.add("delete_while_not_assigned_raised_not_judged")
                    m[0] = False
                    m[4] = True
                elif op == "RD":
                    want = visible(m)
                    if want is _BROKEN:
                        failing_read(p, i)
                        continue
                    r = getattr(p, dname)
                    st.add("nested_reads_compared")
                    if r != want:
                        return ("inner described attribute reads %r but the model (explicit=%s) says %r" % (r, m[0], want),
                                {"step": step, "packet": i, "got": r, "want": want,
                                 "model": {"explicit": m[0], "explicit_value": m[1], "tracked": m[2]},
                                 "computed_read_failed_earlier_on_inners": [j for j, x in enumerate(failed) if x]})
                    if not m[0] and any(failed):
                        st.add("nested_computed_reads_after_failed_read")
                        if any(x for j, x in enumerate(failed) if j != i):
                            st.add("nested_computed_reads_after_failed_read_on_other_inner")
                    if m[6]:
                        origin_event(m, "reads")
                else:
                    raise RuntimeError("unknown op %r" % (op,))
        except RuntimeError:
            raise
        except Exception as e:
            return ("nested operation %s raised %s" % (op, type(e).__name__),
                    {"step": step, "packet": i, "error": "%s: %s" % (type(e).__name__, str(e)[:300])})
    # closing observation on the outer packet
    step = nops - 1
    reads, bad = check_reads(step)
    if bad is not None:
        return bad
    bad = outer_pack(step, reads, True)
    if bad is not None:
        return bad
    try:
        reads2 = read_all()
        held2 = getattr(outer, nctx.holder)
        prefix2 = getattr(outer, nctx.prefix_name)
    except Exception as e:
        return ("attribute read after outer pack() raised %s" % type(e).__name__,
                {"step": step, "error": "%s: %s" % (type(e).__name__, str(e)[:300])})
    if reads2 != reads or prefix2 != prefix:
        return ("outer pack() changed what an attribute reads",
                {"step": step, "before": [{"described": r, "tracked": t, "others": o} for r, t, o in reads],
                 "after": [{"described": r, "tracked": t, "others": o} for r, t, o in reads2],
                 "prefix_before": prefix, "prefix_after": prefix2})
    now = [held2] if nctx.kind == "ref" else list(held2)
    if len(now) != len(pk) or any(a is not b for a, b in zip(now, pk)):
        return ("outer pack() replaced the inner packet objects", {"step": step})
    st.add("dict_checks")
    if hasattr(outer, "__dict__") or any(hasattr(p, "__dict__") for p in pk):
        return ("instance has a __dict__ (nested)", {"step": step})
    if orig_outer is not None:
        # the outer packet the copy was taken of: nothing was done to it, its inner packets still read as they did
        try:
            oheld = getattr(orig_outer, nctx.holder)
            got = [(getattr(p, dname), getattr(p, tname), {n: getattr(p, n) for n in ictx.others})
                   for p in ([oheld] if nctx.kind == "ref" else list(oheld))]
        except Exception as e:
            return ("attribute read of the outer packet a copy was taken of raised %s" % type(e).__name__,
                    {"step": step, "error": "%s: %s" % (type(e).__name__, str(e)[:300])})
        st.add("originals_checked_after_copy")
        if got != orig_want:
            return ("the outer packet a copy was taken of reads differently after operations on the copy",
                    {"step": step, "got": [{"described": r, "tracked": t, "others": o} for r, t, o in got],
                     "want": [{"described": r, "tracked": t, "others": o} for r, t, o in orig_want]})
    return None


def _nested_witness(nctx, start, ops, detail):
    ictx = nctx.ictx
    w = {"declaration": nctx.source, "nested": True, "inner_class": ictx.cls.__name__, "outer_class": nctx.ocls.__name__,
         "outer_kind": nctx.kind, "outer_options": nctx.ooptname, "variant": ictx.v["name"], "options": ictx.optname,
         "ref_prototype": nctx.proto, "ref_prototype_keywords": nctx.proto_kw, "outer_shape": nctx.shape,
         "start": start, "ops": [list(o) for o in ops], "mode": "pure",
         "op_values": {"T0": ictx.tv[0], "T1": ictx.tv[1], "D0": ictx.kv[0], "D1": ictx.kv[1], "TN": None, "DN": None},
         "described": ictx.dname, "tracked": ictx.tname,
         "note": "ops [i, OP] act on inner packet i; [-1, 'PK'] packs the OUTER packet; the closing observation packs the outer; "
                 "start 'default': Outer([prefix]) whose inner packet(s) are copies of the prototype / default object(s) built with the "
                 "keywords 'proto' / 'protos'; start key 'copy': the outer packet is replaced by copy.deepcopy(outer) / "
                 "pickle.loads(pickle.dumps(outer)) / outer.as_prototype().clone() before the first operation"}
    lf = ictx.last_failed
    if lf is not None and not (lf[0] is nctx and lf[1] == start and tuple(lf[2]) == tuple(ops)):
        w["preceding_history_with_failed_computed_read_on_same_class"] = {
            "outer_class": lf[0].ocls.__name__, "outer_kind": lf[0].kind, "outer_options": lf[0].ooptname,
            "ref_prototype": lf[0].proto, "ref_prototype_keywords": lf[0].proto_kw, "outer_shape": lf[0].shape,
            "start": lf[1], "ops": [list(o) for o in lf[2]],
            "note": "executed earlier in this process on other inner packets of the same class; replay runs it first"}
    w.update(detail)
    return w



UNJUDGED_DECLARATIONS = [
    # (name, body, why the statement does not apply)
    ("describe_then_when",
     "    has = Int(1)\n    length = Int(1).describe(AutoLength('value')).when(has)\n    value = Data(until_marker=b'\\x00')\n",
     "the class attribute is the Optional wrapper, which is not described (the descriptor sits on its anonymous prototype)"),
    ("describe_then_repeated",
     "    n = Int(1)\n    length = Int(1).describe(AutoLength('value')).repeated(n)\n    value = Data(until_marker=b'\\x00')\n",
     "the class attribute is the Sequence wrapper, which is not described (the descriptor sits on its anonymous prototype)"),
    ("repeated_then_describe_autolength",
     "    n = Int(1)\n    length = Int(1).repeated(n).describe(AutoLength('value'))\n    value = Data(until_marker=b'\\x00')\n",
     "the computed value is an int, which a repeated field cannot serialize: pack() raises, nothing to compare"),
]


def probe_unjudged_declarations(run, scratch):
    """Declarations in which a wrapper is applied AFTER describe() (or the computed value cannot be a value of the field): the
    library accepts them; what they do is recorded (run.cover) and counted, never judged.  The test the documentation gives for
    'this is a described field' is isinstance(Class.name, AutoLength); it fails for the first two."""
    from bisturi.descriptor import Auto
    from .. import render
    for name, body, why in UNJUDGED_DECLARATIONS:
        for optname, optsrc in OPTSETS[:2]:
            cname = "C17U_%s_%s" % (name, optname)
            src = HEADER + "class %s(Packet):\n    __bisturi__ = %s\n%s" % (cname, optsrc, body)
            try:
                module, path = render.load_source(src, scratch)
                cls = getattr(module, cname)
            except BaseException as e:
                run.count("unjudged_declarations_rejected_by_the_library")
                run.cover("unjudged_declarations", "%s/%s: declaration raised %s" % (name, optname, type(e).__name__))
                continue
            is_desc = isinstance(cls.__dict__.get("length"), Auto)
            obs = []
            for label, fn in (("C(value=b'ab').length", lambda: cls(value=b"ab").length),
                              ("C(value=b'ab').pack()", lambda: cls(value=b"ab").pack())):
                try:
                    obs.append("%s -> %r" % (label, fn()))
                except Exception as e:
                    obs.append("%s raised %s" % (label, type(e).__name__))
            run.count("unjudged_declarations_observed")
            run.count("unjudged_declarations_class_attribute_is_%s" % ("a_descriptor" if is_desc else "not_a_descriptor"))
            run.cover("unjudged_declarations", "%s/%s: class attribute is %sa descriptor; %s; not judged: %s" % (
                name, optname, "" if is_desc else "NOT ", "; ".join(obs), why))


def _has_tn(ops):
    for _, op in ops:
        if op == "TN":
            return True
    return False


def _has_op(ops, name):
    for _, op in ops:
        if op == name:
            return True
    return False


def copy_start_indices(v, quick):
    """Starts used by the copy histories (Part 9): all in the thorough tier; the quick tier leaves out C(tracked=v) and the
    second and third unpack (the copy scripts of Part 10 still run from every start)."""
    n = len(starts_for(v))
    if not quick:
        return list(range(n))
    return [0, 1, 2, 4, 5, 6]


def fail_start_indices(v, quick):
    """Starts used by the failing-read parts (Part 6): a spread of explicit / automatic / unpacked starts."""
    n = len(starts_for(v))
    if not quick:
        return list(range(n))
    return [0, 2, 3, 5, 6]


def sampled_two_packet_history(rng, lo, hi, alphabet=None):
    """A seeded two-packet history over the 16 (18 with DN) operations that contains TN and reads (weighted towards TN / RD / T0)."""
    n = rng.randint(lo, hi)
    weighted = (alphabet or TWO_OPS8) + tuple((i, op) for i in (0, 1) for op in ("TN", "RD", "RD", "T0"))
    ops = [weighted[rng.randrange(len(weighted))] for _ in range(n)]
    if not _has_tn(ops):
        ops[rng.randrange(max(1, n - 1))] = (rng.randrange(2), "TN")
    return tuple(ops)


MIXED_OPTSETS = [
    ("packgen", "{'generate_for_unpack': False}"),     # generated pack code, field loop for unpack
    ("unpackgen", "{'generate_for_pack': False}"),     # field loop for pack, generated unpack code
]


def mixed_code_path_histories(run, scratch, quick, states):
    """Part 13: one direction generated, the other one interpreted (the remaining two of the four generate_for_* combinations):
    whatever keeps automatic fields in step with their hidden slot must be in the code of the direction that is running.
    Every variant, every start, all pure histories up to length 2 (3 in the thorough tier) plus the fixed script."""
    import itertools
    from bisturi.packet import Packet
    from .. import render
    st = Stats()
    for v in VARIANTS:
        for optname, optsrc in MIXED_OPTSETS:
            cname, src = class_source(v, optname, optsrc)
            module, path = render.load_source(src, scratch)
            cls = getattr(module, cname)
            gp = cls.pack_impl is not Packet.pack_impl
            gu = cls.unpack_impl is not Packet.unpack_impl
            if (gp, gu) != ((True, False) if optname == "packgen" else (False, True)):
                run.inconclusive_because("option set %r did not give exactly one generated direction for %s" % (optname, cname))
                continue
            ctx = Ctx(cls, v, optname, src)
            run.cover("classes", "%s/%s" % (v["name"], optname))
            n_exec = 0
            for start in starts_for(v):
                histories = [tuple((0, o) for o in ("T1",) + SCRIPT_TAIL)]
                for n in range(1, (2 if quick else 3) + 1):
                    histories.extend(tuple((0, o) for o in h) + ((0, "PK"),) for h in itertools.product(ctx.ops, repeat=n))
                for ops in histories:
                    run.case(key="13|%s|%s|%s" % (cname, json.dumps(start, default=repr, sort_keys=True), ",".join(o for _, o in ops)), nontrivial=True)
                    n_exec += 1
                    bad = execute(ctx, [start], ops, "pure", st, states)
                    if bad is not None:
                        run.violation(bad[0], _witness(ctx, [start], ops, "pure", bad[1]), None)
                        if run.counters["violations"] > 20:
                            st.flush(run)
                            return
            run.count("mixed_code_path_histories", n_exec)
            run.count("mixed_code_path_histories_%s" % optname, n_exec)
    st.flush(run)


def run(run):
    shard, nshards = run.shard
    quick = run.tier == "quick"
    L = 4 if quick else 6
    LOBS = 3 if quick else 5          # length of the observed-mode histories
    L2 = 3 if quick else 4
    L3 = {"ref": 3 if quick else 4, "seq": 2 if quick else 4}     # nested part, Ref(Inner)
    L3I = {"ref": 3 if quick else 4, "seq": 2 if quick else 3}    # nested part, Ref(Inner(...)) instance prototypes
    LP = 3 if quick else 5            # short bound (positioned / embedded / optional / chained): pure 1..LP, observed LP-1
    LF = 3 if quick else 4            # Part 6: single-packet histories containing TN
    LF2 = 2 if quick else 3           # Part 7: two-packet histories containing TN, exhaustive bound
    NF2 = 100 if quick else 480       # Part 7: seeded samples per (class, start pair), lengths LF2+1 .. LF2+3
    LF3 = {"ref": 3 if quick else 4, "seq": 2 if quick else 3}    # Part 8: nested histories containing TN
    LC = 3 if quick else 4            # Part 9: single-packet histories containing a copy operation
    LOPT = 2 if quick else 4          # Part 11: optional Ref default outers
    LSHORT = {"ref": 1 if quick else 3, "seq": 1 if quick else 2}   # Part 11: copied outers, unpacked default-element outers
    # watchdog: CPU seconds of this process (a busy machine must not make the run inconclusive) + a generous wall limit
    cpu_budget = 200.0 if quick else 600.0
    wall_budget = 900.0 if quick else 840.0
    t0 = time.time()
    c0 = time.process_time()

    def over_budget():
        if time.process_time() - c0 > cpu_budget:
            run.inconclusive_because("watchdog: enumeration not finished within %.0f CPU-seconds" % cpu_budget)
            return True
        if time.time() - t0 > wall_budget:
            run.inconclusive_because("watchdog: enumeration not finished within %.0fs wall time" % wall_budget)
            return True
        return False

    scratch = common.scratch_dir("bvf_c17_")
    try:
        ctxs = define_classes(run, scratch, count=(shard == 0))
        nctxs = define_nested_classes(run, scratch, count=(shard == 0))
        if shard == 0:
            probe_unjudged_declarations(run, scratch)
        for ctx in ctxs:
            # Part 12 premise: the attribute of the class IS the descriptor (the documentation's own test)
            if ctx.group in NEW_GROUPS and shard == 0:
                from bisturi.descriptor import Auto as _Auto
                holder = ctx.cls
                if isinstance(getattr(holder, ctx.dname, None), _Auto):
                    run.count("wrapped_described_class_attribute_is_descriptor")
                else:
                    run.inconclusive_because("%s.%s is not an Auto descriptor: the wrapped described field is not described at all"
                                             % (ctx.cls.__name__, ctx.dname))
        st = Stats()
        gst = {}       # statistics of the grouped variants, by (group, code path of the class)
        states = set()

        def stats_for(ctx):
            g = ctx.group
            if g is None:
                return st
            key = (g, "generic" if ctx.optname == "generic" else "generated")
            if key not in gst:
                gst[key] = Stats()
            return gst[key]

        # ---- jobs: (part, ctx index, start index, mode, first op index) -------------------------------
        jobs = []
        for ci, ctx in enumerate(ctxs):
            v = ctx.v
            ns = len(starts_for(v))
            for si in range(ns):
                for mode in ("pure", "observed"):
                    if (quick and mode == "observed" and ctx.group in NEW_GROUPS and not v.get("deep")
                            and ctx.optname == "novector"):
                        continue    # quick tier: the shallow Part 12 declarations under vectorize=False run in pure mode only
                    for fo in range(len(ctx.ops)):
                        jobs.append((1, ci, si, mode, fo))
            if v.get("plain") or v.get("two"):
                for si in range(3):
                    for fo in range(2 * len(ctx.ops)):
                        jobs.append((2, ci, si, "pure", fo))
            # Part 10: the fixed script (change tracked, read, pack, delete, read) after every start, also through each copy
            for si in range(ns):
                jobs.append((10, ci, si, "script", -1))
            # Part 9: histories with a copy operation (the live packet is replaced by a deepcopy / pickle round trip / clone)
            if v.get("plain"):
                for si in copy_start_indices(v, quick):
                    for cop in COPY_OPS:
                        for fo in range(len(OPS) + 1):
                            jobs.append((9, ci, si, cop, fo))
            if v.get("positioned") or v.get("optpos"):
                continue
            if quick and ctx.group in NEW_GROUPS and not v.get("deep"):
                continue        # quick tier: failing computed reads only for the deep Part 12 declarations
            for si in fail_start_indices(v, quick):
                for fo in range(len(ctx.ops) + 1):
                    jobs.append((6, ci, si, "pure", fo))
            if v.get("plain") or v.get("two"):
                for si in range(3):
                    for fo in range(2 * (len(ctx.ops) + 1)):
                        jobs.append((7, ci, si, "pure", fo))
                    jobs.append((7, ci, si, "sampled", -1))

        for ni, nctx in enumerate(nctxs):
            if quick and nctx.proto_kw is not None and nctx.ictx.optname == "novector":
                continue        # quick tier: instance prototypes with generic and default inner classes only
            if quick and nctx.ictx.optdesc and nctx.ictx.optname == "novector":
                continue        # quick tier: nested optional described field with generic and default inner classes only
            nstarts = nested_starts(nctx)
            for si in range(len(nstarts)):
                for fo in range(len(nested_alphabet(nctx.ictx.v, nctx.kind))):
                    jobs.append((3, ni, si, "pure", fo))
                jobs.append((11, ni, si, "script", -1))      # the fixed script on every inner packet
            if nctx.proto_kw is None and not (quick and nctx.ictx.optname == "novector"):
                # (quick tier: nested failing reads with generic and default inner classes only; rebalanced for Part 12)
                for si in range(len(nstarts)):
                    if nstarts[si].get("copy"):
                        continue
                    if quick and nctx.ictx.optdesc and nctx.kind != "ref":
                        continue    # quick tier: nested failing reads of the optional described inner through Ref(Inner) only
                    for fo in range(len(nested_alphabet(nctx.ictx.v, nctx.kind, True))):
                        jobs.append((8, ni, si, "pure", fo))

        stop = False
        samples = 0
        nested_samples = 0
        cpu_by_part = {}
        tick = [None, time.process_time()]

        def account(part):
            now = time.process_time()
            if tick[0] is not None:
                cpu_by_part[tick[0]] = cpu_by_part.get(tick[0], 0.0) + now - tick[1]
            tick[0], tick[1] = part, now

        for ji, (part, ci, si, mode, fo) in enumerate(jobs):
            if nshards > 1 and ji % nshards != shard:
                continue
            if stop:
                break
            account("part%02d%s" % (part, "_part12_layouts" if (part not in (3, 8, 11) and ctxs[ci].group in NEW_GROUPS)
                                    or (part in (3, 8, 11) and nctxs[ci].ictx.optdesc) else ""))
            if part == 11:
                # fixed script on every inner packet: change the tracked field, read, pack the outer, delete, read
                nctx = nctxs[ci]
                start = nested_starts(nctx)[si]
                run.cover("nested_starts", "%s/%s: %s" % (nctx.ictx.v["name"], nctx.kind, start))
                n_exec = 0
                for k in range(1 if nctx.kind == "ref" else 2):
                    for top in ("T0", "T1"):
                        ops = ((k, top), (k, "RD"), NPK, (k, "DEL"), (k, "RD"))
                        run.case(key="11|%s|%d|%d%s" % (nctx.ocls.__name__, si, k, top), nontrivial=True)
                        n_exec += 1
                        bad = execute_nested(nctx, start, ops, st)
                        if bad is not None:
                            run.violation(bad[0], _nested_witness(nctx, start, ops, bad[1]), None)
                            if run.counters["violations"] > 20:
                                stop = True
                run.count("nested_explicit_equal_script_histories", n_exec)
                if start.get("copy"):
                    run.count("nested_copied_outer_histories", n_exec)
                continue
            if part == 3 or part == 8:
                nctx = nctxs[ci]
                start = nested_starts(nctx)[si]
                tn_only = part == 8
                alphabet = nested_alphabet(nctx.ictx.v, nctx.kind, tn_only)
                first = alphabet[fo]
                keybase = "%d|%s|%d|" % (part, nctx.ocls.__name__, si)
                run.cover("nested_starts", "%s/%s: %s" % (nctx.ictx.v["name"], nctx.kind, start))
                n_exec = 0
                maxlen = (LF3 if tn_only else (L3 if nctx.proto_kw is None else L3I))[nctx.kind]
                if nctx.ictx.optdesc and nctx.kind == "seq" and not quick:
                    maxlen = min(maxlen, 3)         # 15 / 17 operations on two optional described inners: thorough bound 3
                if not tn_only:
                    if start.get("short"):
                        maxlen = LSHORT[nctx.kind]
                    elif nctx.shape == "optdef":
                        maxlen = LOPT
                for length in range(1, maxlen + 1):
                    for rest in itertools.product(alphabet, repeat=length - 1):
                        ops = (first,) + rest
                        if tn_only and not _has_tn(ops):
                            continue
                        nt = (start["how"] != "default" or bool(start.get("proto")) or bool(start.get("protos"))
                              or any(op in STATE_CHANGING for _, op in ops))
                        if nt:
                            run.case(key=keybase + ",".join("%d%s" % o for o in ops[:3]), nontrivial=True)
                        else:
                            run.case(key=None, nontrivial=False)
                        n_exec += 1
                        bad = execute_nested(nctx, start, ops, st)
                        if bad is not None:
                            run.violation(bad[0], _nested_witness(nctx, start, ops, bad[1]), None)
                            if run.counters["violations"] > 20:
                                stop = True
                                break
                        elif nested_samples < 2 and nt and n_exec == 40 and (ji // nshards) % 40 == 7:
                            run.sample({"declaration": nctx.source, "outer_class": nctx.ocls.__name__, "start": start,
                                        "ops": ops, "mode": "nested", "result": "held"}, cap=8)
                            nested_samples += 1
                    if stop:
                        break
                    if over_budget():
                        stop = True
                        break
                if nctx.ictx.optdesc:
                    run.count("nested_optional_described_histories", n_exec)
                    run.count("nested_optional_described_histories_%s" % nctx.kind, n_exec)
                if tn_only:
                    run.count("nested_failing_read_histories", n_exec)
                    run.count("nested_failing_read_histories_%s" % nctx.kind, n_exec)
                    continue
                run.count("nested_histories", n_exec)
                if start.get("copy"):
                    run.count("nested_copied_outer_histories", n_exec)
                if nctx.shape == "optdef":
                    run.count("nested_optional_ref_default_histories", n_exec)
                elif nctx.shape == "seqdef":
                    run.count("nested_repeated_default_element_histories", n_exec)
                elif nctx.proto_kw is not None:
                    run.count("nested_instance_prototype_histories", n_exec)
                    run.count("nested_instance_prototype_histories_%s" % nctx.proto, n_exec)
                run.count("nested_histories_%s_outer_%s" % (nctx.kind, nctx.ooptname), n_exec)
                continue
            ctx = ctxs[ci]
            v = ctx.v
            group = ctx.group
            short = group is not None
            need_tn = False
            need_copy = False
            if part == 10:
                # fixed scripts: [copy] T RD PK DEL RD, pure and observed
                starts = [starts_for(v)[si]]
                cur_st = stats_for(ctx)
                run.cover("starts", "%s: %s" % (v["name"], starts))
                n_exec = 0
                prefixes = [()] if ctx.chained else [()] + [(c,) for c in COPY_OPS]
                for pre in prefixes:
                    for top in ("T0", "T1"):
                        ops = tuple((0, o) for o in pre + (top,) + SCRIPT_TAIL)
                        for smode in ("pure", "observed"):
                            run.case(key="10|%s|%d|%s|%s" % (ctx.cls.__name__, si, smode, ",".join(o for _, o in ops)), nontrivial=True)
                            n_exec += 1
                            bad = execute(ctx, starts, ops, smode, cur_st, states)
                            if bad is not None:
                                run.violation(bad[0], _witness(ctx, starts, ops, smode, bad[1]), None)
                                if run.counters["violations"] > 20:
                                    stop = True
                run.count("explicit_equal_script_histories", n_exec)
                if ctx.optdesc:
                    # optional described field: assign None ("absent"), read, pack, delete, read, pack - directly and with a
                    # copy taken before the assignment / between the assignment and the delete
                    n_od = 0
                    scripts = [("DN",) + SCRIPT_TAIL + ("PK",), ("DN", "DEL", "PK", "T0", "PK"), ("PK", "DN", "DEL", "PK")]
                    for c in ((COPY_OPS[si % 3],) if quick else COPY_OPS):      # quick: one way of copying per start, rotating
                        scripts.append((c, "DN") + SCRIPT_TAIL + ("PK",))
                        scripts.append(("DN", c, "RD", "DEL", "PK"))
                        scripts.append(("DN", "DEL", c, "PK", "T1", "PK"))
                    for sc in scripts:
                        ops = tuple((0, o) for o in sc)
                        for smode in ("pure", "observed"):
                            run.case(key="10|%s|%d|%s|%s" % (ctx.cls.__name__, si, smode, ",".join(sc)), nontrivial=True)
                            n_od += 1
                            bad = execute(ctx, starts, ops, smode, cur_st, states)
                            if bad is not None:
                                run.violation(bad[0], _witness(ctx, starts, ops, smode, bad[1]), None)
                                if run.counters["violations"] > 20:
                                    stop = True
                    run.count("optional_described_none_script_histories", n_od)
                    n_exec += n_od
                run.count("histories_%s_%s" % (v["name"], ctx.optname), n_exec)
                continue
            if part == 9:
                starts = [starts_for(v)[si]]
                alphabet = tuple((0, op) for op in OPS + (mode,))
                lmax = LC
                if quick and ctx.optname == "novector":
                    lmax = LC - 1
                lengths = range(1, lmax + 1)
                counter = "copy_histories"
                need_copy = mode
                mode = "pure"
            elif part == 1:
                starts = [starts_for(v)[si]]
                alphabet = tuple((0, op) for op in ctx.ops)
                lmax = L
                if quick and ctx.optname == "novector":
                    lmax = L - 1          # quick tier: the non-vectorised generated code gets one operation less
                lengths = range(1, lmax + 1) if mode == "pure" else (LOBS,)
                counter = "histories_pure" if mode == "pure" else "histories_observed"
                if short:
                    lp = LP
                    if group in NEW_GROUPS:
                        # Part 12 layouts: thorough one operation less than the other short-bound layouts (8 operations);
                        # quick: the full short bound only for the "deep" declarations
                        lp = LP - 1 if (not quick or not v.get("deep") or ctx.optname == "novector") else LP
                    lengths = range(1, lp + 1) if mode == "pure" else (max(2, lp - 1),)
                    counter = "positioned_described_histories" if group == "positioned" else "%s_histories" % group
            elif part == 2:
                starts = two_packet_starts(v)[si]
                alphabet = two_ops_for(v)
                lmax = L2
                if (quick and (ctx.optname == "novector" or group in ("optional", "embedded"))) or group in NEW_GROUPS:
                    lmax = L2 - 1       # Part 12 layouts: one operation less in both tiers (16 / 14 operations)
                lengths = range(1, lmax + 1)
                counter = "two_packet_histories"
            elif part == 6:
                starts = [starts_for(v)[si]]
                alphabet = tuple((0, op) for op in ops_for(v, True))
                lengths = range(1, LF + 1)
                counter = "failing_read_histories"
                need_tn = True
            else:
                starts = two_packet_starts(v)[si]
                alphabet = two_ops_for(v, True)
                lengths = range(1, LF2 + 1)
                counter = "failing_read_two_packet_histories"
                need_tn = True
            cur_st = stats_for(ctx)
            keylen = 4 if part in (1, 6, 9) else 3
            keybase = "%d|%s|%d|%s|" % (part, ctx.cls.__name__, si, mode)
            run.cover("starts", "%s: %s" % (v["name"], starts))
            n_exec = 0
            if mode == "sampled":
                # Part 7, beyond the exhaustive bound: seeded samples
                rng = common.rng_for(run.seed, "c17", "two-packet-failing", ctx.cls.__name__, si)
                counter = "failing_read_two_packet_sampled_histories"
                for k in range(NF2):
                    ops = sampled_two_packet_history(rng, LF2 + 1, LF2 + 3, alphabet)
                    run.case(key=keybase + ",".join("%d%s" % o for o in ops), nontrivial=True)
                    n_exec += 1
                    bad = execute(ctx, starts, ops, "pure" if k % 3 else "observed", cur_st, states)
                    if bad is not None:
                        run.violation(bad[0], _witness(ctx, starts, ops, "pure" if k % 3 else "observed", bad[1]), None)
                        if run.counters["violations"] > 20:
                            stop = True
                            break
                if over_budget():
                    stop = True
                lengths = ()
            else:
                first = alphabet[fo]
            for length in lengths:
                for rest in itertools.product(alphabet, repeat=length - 1):
                    ops = (first,) + rest
                    if need_tn and not _has_tn(ops):
                        continue
                    if need_copy and not _has_op(ops, need_copy):
                        continue
                    nt = _nontrivial(starts, ops)
                    if nt:
                        key = keybase + ",".join("%d%s" % o for o in (ops if quick else ops[:keylen]))
                        run.case(key=key, nontrivial=True)
                    else:
                        run.case(key=None, nontrivial=False)
                    n_exec += 1
                    bad = execute(ctx, starts, ops, mode, cur_st, states)
                    if bad is not None:
                        run.violation(bad[0], _witness(ctx, starts, ops, mode, bad[1]), None)
                        if run.counters["violations"] > 20:
                            stop = True
                            break
                    elif samples < 4 and nt and n_exec == 200 and (ji // nshards) % 150 == 3:
                        run.sample({"declaration": ctx.source, "starts": starts, "ops": ops, "mode": mode, "result": "held"})
                        samples += 1
                if stop:
                    break
                if over_budget():
                    stop = True
                    break
            run.count(counter, n_exec)
            run.count("histories_%s_%s" % (v["name"], ctx.optname), n_exec)
            if group in ("embedded", "optional", "chained") + NEW_GROUPS and part != 1:
                run.count("%s_%s" % (group, counter), n_exec)
            if part == 1 and v.get("optpos"):
                run.count("positioned_optional_described_histories", n_exec)
            if part == 1 and v.get("embedded") and group == "optional_described":
                run.count("embedded_optional_described_histories", n_exec)
        account(None)
        st.flush(run)
        for (group, path), ps in sorted(gst.items()):
            c = ps.c
            if group == "positioned":
                run.count("positioned_described_%s_unpack_then_tracked_change" % path,
                          c.get("observed_after_unpack_then_tracked_change", 0))
                run.count("positioned_described_packs_with_fill_bytes", c.get("packs_compared", 0))
            else:
                for name in ("packs_auto_after_tracked_change", "packs_auto_after_unpack_then_tracked_change",
                             "packs_explicit_inconsistent", "deletes_while_explicit", "reads_compared", "packs_compared"):
                    run.count("%s_%s_%s" % (group, path, name), c.get(name, 0))
                if group == "optional_described":
                    for name in OD_PATH_COUNTERS:
                        run.count(name.replace("optional_described_", "optional_described_%s_" % path, 1), c.get(name, 0))
            ps.flush(run)
        if shard == 0 and not over_budget():
            mixed_code_path_histories(run, scratch, quick, states)
        for s in states:
            run.cover("model_state_x_operation", "explicit=%s consistent=%s tracked_len=%d op=%s" % s)
        if shard == 0:
            run.extra["max_history_length"] = L
            run.extra["observed_mode_history_length"] = LOBS
            run.extra["max_two_packet_history_length"] = L2
            run.extra["max_nested_history_length"] = dict(L3)
            run.extra["max_nested_history_length_instance_prototype"] = dict(L3I)
            run.extra["operation_alphabet"] = list(OPS8)
            run.extra["max_positioned_history_length"] = LP
            run.extra["max_short_bound_history_length"] = LP
            run.extra["max_failing_read_history_length"] = LF
            run.extra["max_failing_read_two_packet_history_length"] = {"exhaustive": LF2, "sampled": LF2 + 3}
            run.extra["max_failing_read_nested_history_length"] = dict(LF3)
            run.extra["max_copy_history_length"] = LC
            run.extra["max_nested_history_length_optional_ref_default"] = LOPT
            run.extra["max_nested_history_length_copied_outer"] = dict(LSHORT)
            run.extra["fixed_script"] = "[copy] T0|T1, RD, PK, DEL, RD after every start (single packet: pure and observed mode)"
            run.extra["cpu_seconds"] = round(time.process_time() - c0, 1)
            run.extra["cpu_seconds_by_part_shard0"] = {k: round(x, 1) for k, x in sorted(cpu_by_part.items())}
            if samples == 0 and ctxs:
                ctx = ctxs[1]
                ops = tuple((0, o) for o in ("D1", "PK", "T1", "DEL"))
                starts = [starts_for(ctx.v)[6]]
                if execute(ctx, starts, ops, "observed", Stats()) is None:
                    run.sample({"declaration": ctx.source, "starts": starts, "ops": ops, "mode": "observed", "result": "held"})
    finally:
        common.drop_scratch(scratch)


def _unj(o):
    if isinstance(o, dict):
        if set(o) == {"__bytes__"}:
            return bytes.fromhex(o["__bytes__"])
        return {k: _unj(x) for k, x in o.items()}
    if isinstance(o, list):
        return [_unj(x) for x in o]
    return o


def replay(run, rec):
    """Re-execute exactly the recorded history on a class defined from the recorded source."""
    from .. import render
    w = _unj(rec["witness"])
    scratch = common.scratch_dir("bvf_c17_replay_")
    try:
        module, path = render.load_source(w["declaration"], scratch)
        if w.get("nested"):
            variant = [v for v in VARIANTS if v["name"] == w["variant"]][0]
            ictx = Ctx(getattr(module, w["inner_class"]), variant, w["options"], w["declaration"])
            nctx = NestedCtx(ictx, getattr(module, w["outer_class"]), w["outer_kind"], w["outer_options"], w["declaration"],
                             w.get("ref_prototype", "class"), w.get("ref_prototype_keywords"), w.get("outer_shape", "plain"))
            ops = tuple((int(i), str(op)) for i, op in w["ops"])
            st = Stats()
            pre = w.get("preceding_history_with_failed_computed_read_on_same_class")
            if pre:
                pctx = NestedCtx(ictx, getattr(module, pre["outer_class"]), pre["outer_kind"], pre["outer_options"],
                                 w["declaration"], pre.get("ref_prototype", "class"), pre.get("ref_prototype_keywords"),
                                 pre.get("outer_shape", "plain"))
                execute_nested(pctx, pre["start"], tuple((int(i), str(op)) for i, op in pre["ops"]), Stats())
            run.case(key="replay", nontrivial=True)
            bad = execute_nested(nctx, w["start"], ops, st)
            st.flush(run)
            print("replay nested %s inner=%s outer=%s/%s start=%r ops=%r -> %s" % (
                w["variant"], w["options"], w["outer_kind"], w["outer_options"], w["start"], ops, bad[0] if bad else "held"))
            if bad is not None:
                run.violation(bad[0], _nested_witness(nctx, w["start"], ops, bad[1]), None)
            return
        cls = getattr(module, w["class"])
        variant = [v for v in VARIANTS if v["name"] == w["variant"]][0]
        ctx = Ctx(cls, variant, w["options"], w["declaration"])
        ops = tuple((int(i), str(op)) for i, op in w["ops"])
        st = Stats()
        pre = w.get("preceding_history_with_failed_computed_read_on_same_class")
        if pre:
            execute(ctx, pre["starts"], tuple((int(i), str(op)) for i, op in pre["ops"]), pre["mode"], Stats())
            ctx.last_failed = None
        run.case(key="replay", nontrivial=True)
        bad = execute(ctx, w["starts"], ops, w["mode"], st)
        st.flush(run)
        print("replay %s/%s starts=%r ops=%r mode=%s -> %s" % (
            w["variant"], w["options"], w["starts"], ops, w["mode"], bad[0] if bad else "held"))
        if bad is not None:
            run.violation(bad[0], _witness(ctx, w["starts"], ops, w["mode"], bad[1]), None)
    finally:
        common.drop_scratch(scratch)
