"""C16  The code cache survives crashes and concurrent definitions.

Part 1  crash points (fault enumeration).  A first child defines the class with "die just before
        step i" for EVERY observed file-system step of the cache update (so also after every
        step) and "die after k bytes" inside every write (every 16th byte quick / every byte
        thorough), starting from an empty cache directory and from one holding the module of
        another declaration (so the crash hits a rewrite).  Then fresh children define (a) the
        same declaration and (b) a different same-named declaration; every definition must
        succeed and its behaviour probe must match the model of its own declaration.
Part 2  controlled two-process schedules.  Two children define identical or different same-named
        declarations in one module; every announced file-system step blocks until the parent
        grants it.  Depth-first enumeration over "which child moves next" (bounded; seeded
        sample in quick); each schedule runs a fresh pair of processes, followed by a third
        late definer.
Part 3  free-running stress: N processes each redefining two variants many times in one directory.
Oracle everywhere: no exception of any type at class definition, and every probe vector behaves
per the process's own declaration.
"""
import os
import shutil

from .. import common, procs
from ..common import rng_for
from .c15 import designed_variants, MODULE

LEVEL = "fault_enumeration"
SHARDS = {"quick": 8, "thorough": 16}
REQUIRED = ("crash_points_injected", "torn_writes_injected", "followers_after_crash_probed", "followers_with_recycled_pid_probed",
            "schedules_in_a_directory_without_cache_directory", "schedules_of_forked_workers", "schedules_executed",
            "distinct_schedules", "concurrent_definitions_probed", "stress_definitions_probed", "crashes_during_rewrite",
            "schedules_with_different_declarations", "schedules_with_identical_declarations")
MIN_NONTRIVIAL = 30
RULE = {
    "quick": "Part 1: 3 variant pairs x {empty cache, cache of the other declaration} x every step index + torn writes every 16th byte, each "
             "followed by 2 fresh definers (same / different declaration), bytecode on and off alternating. Part 2: 200 seeded schedules of "
             "two gated definers (identical and different declarations; clean and pre-seeded directory). Part 3: 8 processes x 40 alternating "
             "definitions in one directory. Non-trivial = an injected crash or an executed schedule with its followers; distinct = (scenario, "
             "crash step / byte) and distinct announced step interleavings.",
    "thorough": "Part 1: every byte of every write; Part 2: depth-first enumeration of the decision tree up to 3000 schedules per scenario "
                "(4 scenarios) plus 1000 random ones; Part 3: 16 processes x 300 definitions.",
}
ASSUMPTIONS = [
    "crash = os._exit at an observed step of the real code (the kernel keeps what was written; power-loss reordering of data vs metadata is not modelled)",
    "interleavings are enumerated at the granularity of the coarsened file-system steps (existence test, load, remove, create/truncate, "
    "after the cookie line, close, rename, reload), not at instruction granularity",
    "a watchdog expiry of a child is inconclusive, never a violation",
]


def judge_define(run, r, variant, witness, counter):
    """A completed child must have defined its class and probe per its own declaration."""
    if r.status == "timeout":
        run.count("child_watchdog")
        run.inconclusive_because("child-watchdog")
        return False
    act = r.action()
    if r.report is None or act is None:
        run.violation("a definer process crashed (rc=%s): %s" % (r.rc, (r.stderr or "")[-300:]), witness, None)
        return False
    ok = True
    for act in r.report["actions"]:
        if act.get("op") != "define":
            continue
        if not act.get("defined"):
            run.violation("class definition raised %s: %s" % (act["exception"]["type"], act["exception"]["msg"][:140]),
                          dict(witness, traceback=act["exception"]["tb"][-700:]), None)
            return False
        v = variant if not isinstance(variant, dict) else variant[act["tag"].split("#")[0]]
        bad = v.judge_probe(act["probe"])
        run.count(counter)
        if bad:
            run.violation("a definition succeeded but the class runs code that is not its own declaration's (truncated or foreign module)",
                          dict(witness, declared=v.tag, mismatches=bad[:2]), None)
            return False
    return ok


# ------------------------------------------------------------------------------------------ part 1
def crash_part(run, rng, pairs, scratch, stride):
    shard, nshards = run.shard
    job_i = 0
    for (v1, v2) in pairs:
        for pre in ("empty", "other"):
            # dry run to learn the step sequence of this scenario
            base = os.path.join(scratch, "c_%s_%s_base" % (v1.tag, pre))
            os.makedirs(base)
            if pre == "other":
                procs.run_child(procs.base_job(base, [v2.define_action(MODULE)], bytecode=True), base)
            snap = base + "_snap"
            shutil.copytree(base, snap)
            dry = procs.run_child(procs.base_job(base, [v1.define_action(MODULE)], bytecode=True), base)
            if dry.report is None:
                run.violation("dry run of a definition crashed", {"scenario": pre, "stderr": (dry.stderr or "")[-300:]}, None)
                return
            steps = dry.report["steps"]
            run.extra.setdefault("observed_protocols", {})["%s/%s" % (v1.tag, pre)] = ["%s %s" % (k, d) for k, d in steps]
            plan = [("step", i, None) for i in range(len(steps) + 1)]
            for i, (k, d) in enumerate(steps):
                if k == "write":
                    n = int(d.split()[0])
                    for b in range(0, n, stride):
                        plan.append(("torn", i, b))
            for kind, i, b in plan:
                job_i += 1
                if job_i % nshards != shard:
                    continue
                wd = os.path.join(scratch, "c%d" % job_i)
                shutil.copytree(snap, wd)
                hooks = {"mode": "log"}
                if kind == "step":
                    hooks["die_at"] = i
                else:
                    hooks["torn"] = {"step": i, "bytes": b}
                bc = bool(job_i % 2)
                first = procs.run_child(procs.base_job(wd, [v1.define_action(MODULE)], bytecode=bc, hooks=hooks), wd)
                witness = {"scenario": "crash", "precondition": pre, "crashing_definition": v1.tag, "kind": kind, "step_index": i,
                           "bytes_written": b, "protocol": ["%s %s" % (k, d) for k, d in steps], "source_first": v1.source, "bytecode": bc,
                           "first_stdout": first.stdout[-200:]}
                if first.status == "died":
                    run.count("crash_points_injected" if kind == "step" else "torn_writes_injected")
                    if pre == "other":
                        run.count("crashes_during_rewrite")
                elif first.status == "completed":
                    run.count("crash_point_not_reached(completed)")
                    if not judge_define(run, first, v1, witness, "uncrashed_definitions_probed"):
                        return
                else:
                    run.violation("the definer crashed by itself (rc=%s): %s" % (first.rc, (first.stderr or "")[-200:]), witness, None)
                    return
                run.case(key=("crash", v1.tag, pre, kind, i, b), nontrivial=first.status == "died")
                # followers in fresh processes; when the dead process left a private temporary file behind, also a
                # follower that carries the dead process's ids (process ids are recycled)
                followers = [(v1, "same", None), (v2, "different", None)]
                ids = leftover_ids(wd)
                if ids:
                    followers += [(v1, "same, recycled pid", ids), (v2, "different, recycled pid", ids)]
                for follower, label, pretend in followers:
                    wd2 = wd + "_" + label.replace(" ", "").replace(",", "_")
                    shutil.copytree(wd, wd2)
                    fh = {"mode": "log"}
                    if pretend:
                        fh["pretend_ids"] = pretend
                    r = procs.run_child(procs.base_job(wd2, [follower.define_action(MODULE)], bytecode=not bc, hooks=fh), wd2)
                    w2 = dict(witness, follower=label, follower_source=follower.source, cache_after_crash=read_cache(wd), follower_ids=pretend)
                    if not judge_define(run, r, follower, w2, "followers_with_recycled_pid_probed" if pretend else "followers_after_crash_probed"):
                        return
                    shutil.rmtree(wd2, ignore_errors=True)
                shutil.rmtree(wd, ignore_errors=True)
            shutil.rmtree(base, ignore_errors=True)
            shutil.rmtree(snap, ignore_errors=True)


def leftover_ids(wd):
    """(pid, thread id) in the name of a temporary file a dead definer left in the cache directory, if any."""
    d = procs.cache_dir(wd)
    if os.path.isdir(d):
        for f in sorted(os.listdir(d)):
            parts = f.split(".")
            if f.endswith(".tmp") and len(parts) >= 4 and parts[-2].isdigit() and parts[-3].isdigit():
                return [int(parts[-3]), int(parts[-2])]
    return None


def read_cache(wd):
    out = {}
    d = procs.cache_dir(wd)
    if os.path.isdir(d):
        for f in sorted(os.listdir(d)):
            p = os.path.join(d, f)
            if os.path.isfile(p):
                try:
                    with open(p, "rb") as fh:
                        data = fh.read()
                    out[f] = {"size": len(data), "tail": data[-80:].decode("utf-8", "replace")}
                except OSError:
                    pass
    return out


# ------------------------------------------------------------------------------------------ part 2
def one_schedule(run, scratch, sid, va, vb, pre, choices, default, vlate):
    wd = os.path.join(scratch, "s%d_%d" % (os.getpid(), sid))
    os.makedirs(wd)
    if pre == "fresh-directory":
        # two processes define the same declaration from one declaring file in a directory that has no cache
        # directory yet: its existence test and its creation are scheduling points too
        pre = None
        assert va.tag == vb.tag
        ja = procs.base_job(wd, [va.define_action(MODULE)], bytecode=bool(sid % 2), hooks={"gate_dirs": True})
        jb = procs.base_job(wd, [vb.define_action(MODULE)], bytecode=bool((sid // 2) % 2), hooks={"gate_dirs": True})
        with open(os.path.join(wd, MODULE + ".py"), "w") as f:
            f.write(va.define_action(MODULE)["source"])
        run.count("schedules_in_a_directory_without_cache_directory")
        return _run_schedule(run, wd, sid, va, vb, pre, choices, default, vlate, ja, jb, fresh=True)
    forked = False
    if pre == "forked-workers":
        # the two definers are workers forked from one process that imported the library first (multiprocessing, pre-fork servers)
        pre = None
        forked = True
        run.count("schedules_of_forked_workers")
    if pre is not None:
        procs.run_child(procs.base_job(procs.private_view(wd, "pre"), [pre.define_action(MODULE)], bytecode=True), wd)
    ja = procs.base_job(procs.private_view(wd, "A"), [va.define_action(MODULE)], bytecode=bool(sid % 2) and not forked)
    jb = procs.base_job(procs.private_view(wd, "B"), [vb.define_action(MODULE)], bytecode=bool((sid // 2) % 2) and not forked)
    return _run_schedule(run, wd, sid, va, vb, pre, choices, default, vlate, ja, jb, forked=forked)


def _run_schedule(run, wd, sid, va, vb, pre, choices, default, vlate, ja, jb, fresh=False, forked=False):
    ra, rb, trace, decisions = (procs.run_forked_schedule if forked else procs.run_schedule)(ja, jb, wd, choices, default)
    witness = {"scenario": ("schedule of two forked workers" if forked else "schedule") if not fresh else "schedule in a directory without a cache directory",
               "A": va.tag, "B": vb.tag,
               "pre_seeded_with": pre.tag if pre else None, "schedule": trace,
               "source_A": va.source, "source_B": vb.source}
    ok = True
    if ra.status == "timeout" or rb.status == "timeout":
        run.count("schedule_watchdog")
        run.inconclusive_because("schedule-watchdog")
        ok = False
    else:
        run.count("schedules_executed")
        run.count("schedules_with_identical_declarations" if va.tag == vb.tag else "schedules_with_different_declarations")
        key = common.stable_hash(trace)
        run.cover("distinct_schedules_set", key)
        run.case(key=("sched", va.tag, vb.tag, pre.tag if pre else ("fresh" if fresh else ("forked" if forked else None)), key), nontrivial=True)
        ok = judge_define(run, ra, va, dict(witness, process="A"), "concurrent_definitions_probed") and \
            judge_define(run, rb, vb, dict(witness, process="B"), "concurrent_definitions_probed")
        if ok:
            late = procs.run_child(procs.base_job(wd if fresh else procs.private_view(wd, "late"), [vlate.define_action(MODULE)], bytecode=True), wd)
            ok = judge_define(run, late, vlate, dict(witness, process="late definer of %s" % vlate.tag), "late_definitions_probed")
    shutil.rmtree(wd, ignore_errors=True)
    return ok, decisions


def schedule_part(run, rng, variants, scratch, quick):
    shard, nshards = run.shard
    v = {x.tag: x for x in variants}
    scenarios = [
        (v["i1i2"], v["i2i1"], None),
        (v["i1i2"], v["i1i2"], None),
        (v["i1i2"], v["i2i1"], v["i1d2"]),
        (v["i2i1"], v["i2i1"], v["i1i2"]),
        (v["i1i2-unpackonly"], v["i2i1-unpackonly"], None),     # declarations that differ only in their generated unpack code
        (v["i1i2-packonly"], v["i2i1-packonly"], None),         # ... only in their generated pack code
        (v["ea1eb2-noann"], v["eb1ea2-noann"], None),          # ... only in non-ASCII characters of the field names
        (v["desc-auto-noann"], v["desc-plain-noann"], None),    # ... only in the calls around the per-field code (descriptor hooks)
        (v["desc-plain-noann"], v["desc-plain-noann"], v["desc-auto-noann"]),
        (v["i1i2"], v["i1i2"], "fresh-directory"),
        (v["i1i2"], v["i2i1"], "forked-workers"),
        (v["i2i1"], v["i2i1"], "forked-workers"),
    ]
    sid = 0
    if quick:
        total = 200
        for n in range(total):
            if n % nshards != shard:
                continue
            va, vb, pre = scenarios[n % len(scenarios)]
            choices = [rng.randint(0, 1) for _ in range(40)]
            sid += 1
            ok, _ = one_schedule(run, scratch, sid, va, vb, pre, choices, 0, va)
            if not ok and run.counters["violations"] > 5:
                return
        return
    # thorough: depth-first enumeration of the decision tree, partitioned by the first decisions
    cap = 3000
    for si, (va, vb, pre) in enumerate(scenarios):
        stack = [[]]
        done = 0
        while stack and done < cap:
            prefix = stack.pop()
            # partition: shard owns prefixes whose first 4 decisions hash to it
            if len(prefix) >= 4 and (prefix[0] * 8 + prefix[1] * 4 + prefix[2] * 2 + prefix[3]) % nshards != shard:
                continue
            sid += 1
            ok, decisions = one_schedule(run, scratch, sid, va, vb, pre, prefix, 0, va)
            done += 1
            for i in range(len(prefix), len(decisions)):
                stack.append(prefix + [0] * (i - len(prefix)) + [1])
            if not ok and run.counters["violations"] > 5:
                return
        ptag = pre if isinstance(pre, str) else (pre.tag if pre else None)
        run.extra.setdefault("dfs_schedules", {})["%s|%s|%s" % (va.tag, vb.tag, ptag)] = done
        run.extra.setdefault("dfs_exhausted", {})["%s|%s|%s" % (va.tag, vb.tag, ptag)] = not stack
    for n in range(1000 // nshards):
        va, vb, pre = scenarios[n % len(scenarios)]
        sid += 1
        one_schedule(run, scratch, sid, va, vb, pre, [rng.randint(0, 1) for _ in range(40)], rng.randint(0, 1), vb)


# ------------------------------------------------------------------------------------------ part 3
def stress_part(run, rng, variants, scratch, nprocs, ndefs):
    import subprocess
    import sys
    import json
    wd = os.path.join(scratch, "stress")
    os.makedirs(wd)
    v = {x.tag: x for x in variants}
    pool = [v["i1i2"], v["i2i1"]]
    kids = []
    for p in range(nprocs):
        actions = []
        for i in range(ndefs):
            var = pool[(i + p) % 2]
            act = var.define_action(MODULE)
            act["tag"] = "%s#%d" % (var.tag, i)
            actions.append(act)
        job = procs.base_job(procs.private_view(wd, "p%d" % p), actions, bytecode=bool(p % 2))
        jp = procs.write_job(job, wd)
        kids.append((subprocess.Popen([sys.executable, "-m", "bvf.child", jp], cwd=common.VERIF, env=procs.child_env(),
                                      stdout=subprocess.PIPE, stderr=subprocess.PIPE), jp))
    bytag = {x.tag: x for x in pool}
    for proc, jp in kids:
        try:
            out, err = proc.communicate(timeout=300)
        except subprocess.TimeoutExpired:
            proc.kill()
            run.inconclusive_because("stress-watchdog")
            continue
        out = out.decode("utf-8", "replace")
        rep = procs.parse_stdout(out)
        r = procs.ChildResult("completed" if rep is not None and proc.returncode == 0 else "crashed", proc.returncode, rep, out,
                              err.decode("utf-8", "replace"))
        # earlier-class reprobes are large: judge only the definitions themselves
        judge_define(run, r, bytag, {"scenario": "stress", "processes": nprocs, "definitions_per_process": ndefs,
                                     "variants": [x.tag for x in pool]}, "stress_definitions_probed")
        if run.counters["violations"] > 5:
            break
    for proc, jp in kids:
        if proc.poll() is None:
            proc.kill()
    run.case(key=("stress", nprocs, ndefs), nontrivial=True)
    shutil.rmtree(wd, ignore_errors=True)


def run(run):
    shard, nshards = run.shard
    rng = rng_for(run.seed, "c16", shard)
    quick = run.tier == "quick"
    scratch = common.scratch_dir("bvf_c16_")
    vrng = rng_for(run.seed, "c16-variants")        # same variants (and vectors) in every shard
    variants = designed_variants(vrng)
    v = {x.tag: x for x in variants}
    pairs = [(v["i1i2"], v["i2i1"]), (v["i1d2"], v["d1i2"]), (v["i1i2-unpackonly"], v["i2i1-unpackonly"])]
    crash_part(run, rng, pairs, scratch, 16 if quick else 1)
    if run.counters["violations"] <= 5:
        schedule_part(run, rng, variants, scratch, quick)
    if shard == 0 and run.counters["violations"] <= 5:
        stress_part(run, rng, variants, scratch, 8 if quick else 16, 40 if quick else 300)
    else:
        run.count("stress_definitions_probed", 0)
    run.extra["distinct_schedules"] = len(run.coverage_sets.get("distinct_schedules_set", ()))
    run.counters["distinct_schedules"] = len(run.coverage_sets.get("distinct_schedules_set", ()))
    if shard == 0:
        run.sample({"crash_scenario": "define %s while the cache holds %s; die before step i / after k bytes; then define %s and %s in fresh processes"
                    % (pairs[0][0].tag, pairs[0][1].tag, pairs[0][0].tag, pairs[0][1].tag), "declaration": pairs[0][0].source})
    common.drop_scratch(scratch)
