"""C20  Packet equality is structural and total.

Oracle: p == q  <=>  isinstance(q, type(p)) and model value trees equal;  p != q is its
negation;  neither comparison nor repr(p) ever raises;  repr returns a str.
Pairs: the same bytes parsed twice; the same value tree constructed twice; parsed vs
constructed; one leaf changed at a random depth (inside lists, optionals, bit fields, nested
and selected packets, described fields); different classes with identical fields; packets
compared before and after one of them was packed; comparison with non-packets.
Declarations emphasise at/shift/aligned, the class-wide align option, Em and described fields.
"""
from .. import common, driver, harness, model, monitors, render
from ..common import rng_for, b2j

LEVEL = "exploration"
SHARDS = {"quick": 1, "thorough": 16}
REQUIRED = ("in_place_changes_of_default_packets", "in_place_changes_of_default_packets_nested", "pattern_packet_comparisons", "embedded_class_comparisons", "same_name_class_pairs", "auto_described_pairs", "equal_pairs", "unequal_pairs", "reprs", "pairs_with_move_fields", "pairs_with_em", "pairs_with_described",
            "pairs_after_pack", "different_class_pairs", "nested_leaf_changes", "parsed_vs_constructed", "non_packet_comparisons")
MIN_NONTRIVIAL = 150
RULE = {
    "quick": "~450 generated families (positioning on 35% of fields, class align 15%, Em 8%, described fields 25%) x up to 6 value trees x "
             "~10 pairs each (identical twice-parsed / twice-built / parsed-vs-built, one-leaf-changed at any depth, other class, after "
             "pack, non-packets). Non-trivial = a comparison between two packets; distinct = (skeleton, pair kind, expected verdict).",
    "thorough": "16 shards x 2000 families.",
}
ASSUMPTIONS = [
    "model value trees read through public attributes are 'the value-bearing fields'; equality of nested packets is recursive",
    "regex delimiters not kept in the value are left out (F2 is not an equality matter)",
]

VARIANTS = {"g": render.VARIANTS["g"], "d": {}}


def leaf_changes(fam, pv, rng, depth=0):
    """Yield (description, changed tree, depth) - exactly one leaf differs."""
    decl = fam["decls"][pv.decl]
    fields = [f for f in decl["fields"] if f["t"] != "em"]
    rng.shuffle(fields)
    for f in fields:
        name = f["name"]
        v = pv.vals[name]
        m = model.copy_val(pv)
        if isinstance(v, list):
            if v and isinstance(v[0], model.PV):
                for desc, sub, dd in leaf_changes(fam, v[-1], rng, depth + 1):
                    m.vals[name][-1] = sub
                    yield ("%s[-1].%s" % (name, desc), m, dd)
                    break
            elif v:
                x = v[0]
                m.vals[name][0] = (x + 1) if isinstance(x, int) else (x + b"!" if isinstance(x, bytes) else x)
                if m.vals[name][0] != x:
                    yield ("%s[0]" % name, m, depth)
            m2 = model.copy_val(pv)
            m2.vals[name] = list(m2.vals[name]) + ([m2.vals[name][0]] if m2.vals[name] else [0 if f["t"] == "int" else b"x"])
            if f["t"] in ("int", "data") or m2.vals[name][:1]:
                if not (f["t"] in ("ref", "sel") and not v):
                    yield ("%s+elem" % name, m2, depth)
        elif isinstance(v, model.PV):
            for desc, sub, dd in leaf_changes(fam, v, rng, depth + 1):
                m.vals[name] = sub
                yield ("%s.%s" % (name, desc), m, dd)
                break
        elif isinstance(v, bool):
            continue
        elif isinstance(v, int):
            m.vals[name] = v ^ 1 if f["t"] == "bits" and f["w"] == 1 else v + 1
            yield (name, m, depth)
        elif isinstance(v, bytes):
            m.vals[name] = v + b"!" if not v else bytes([v[0] ^ 0x55]) + v[1:]
            yield (name, m, depth)
        elif v is None and "opt" in f and f["t"] == "int":
            m.vals[name] = 1
            yield ("%s(None->1)" % name, m, depth)


def strip_described(fam, pv):
    """Copy of the tree without the described (AutoLength) leaves, at every depth."""
    decl = fam["decls"][pv.decl]
    out = model.PV(pv.decl)
    for f in decl["fields"]:
        if f["t"] == "em" or "describe" in f:
            continue
        v = pv.vals[f["name"]]
        if isinstance(v, model.PV):
            v = strip_described(fam, v)
        elif isinstance(v, list):
            v = [strip_described(fam, x) if isinstance(x, model.PV) else x for x in v]
        out.vals[f["name"]] = v
    return out


def cmp_safe(run, a, b, witness):
    """(eq, ne) or None when a comparison raised (violation recorded)."""
    try:
        eq = (a == b)
        ne = (a != b)
    except Exception as e:
        run.violation("comparing two packets raised %s: %s" % (type(e).__name__, str(e)[:120]), witness, None)
        return None
    if not isinstance(eq, bool) or not isinstance(ne, bool):
        run.violation("== / != returned a non-boolean", dict(witness, eq=repr(eq), ne=repr(ne)), None)
        return None
    if eq == ne:
        run.violation("p != q is not the negation of p == q", dict(witness, eq=eq, ne=ne), None)
        return None
    return eq


def expect(run, bench, kind, a, b, want_equal, witness):
    run.case(key=(bench.skeleton, kind, want_equal), nontrivial=True)
    for x, y, tag in ((a, b, "p==q"), (b, a, "q==p")):
        got = cmp_safe(run, x, y, dict(witness, pair=kind, direction=tag))
        if got is None:
            return False
        if got != want_equal:
            run.violation("%s is %r for a pair that is %s (%s)" % (tag, got, "structurally equal" if want_equal else "different", kind),
                          dict(witness, pair=kind), None)
            return False
    run.count("equal_pairs" if want_equal else "unequal_pairs")
    return True


def family_features(fam):
    mv = em = ds = False
    for d in fam["decls"].values():
        if "align" in d["opts"]:
            mv = True
        for f in d["fields"]:
            mv = mv or "move" in f
            em = em or f["t"] == "em"
            ds = ds or "describe" in f
    return mv, em, ds


def check_repr(run, pkt, witness):
    try:
        s = repr(pkt)
    except Exception as e:
        run.violation("repr(packet) raised %s: %s" % (type(e).__name__, str(e)[:120]), witness, None)
        return
    run.count("reprs")
    if not isinstance(s, str):
        run.violation("repr(packet) is not a str", witness, None)


def one_tree(run, bench, rng, raw, pv, feats):
    fam = bench.fam
    mv, em, ds = feats
    src = driver.src_of(bench)
    base_w = {"source": src, "raw": b2j(raw), "values": pv.to_json(), "fam": fam}

    def feat_count():
        if mv:
            run.count("pairs_with_move_fields")
        if em:
            run.count("pairs_with_em")
        if ds:
            run.count("pairs_with_described")

    for v in ("g", "d"):
        cls = bench.root(v)
        r1 = harness.lib_unpack(cls, raw)
        r2 = harness.lib_unpack(cls, raw)
        if r1.status != "ok" or r2.status != "ok":
            return
        w = dict(base_w, variant=v)
        check_repr(run, r1.pkt, w)
        feat_count()
        if not expect(run, bench, "parsed-twice", r1.pkt, r2.pkt, True, w):
            return
        # totality against packets that came to be in another way: the all-Any pattern packet of the class (its slots are
        # filled differently from a parsed packet's) - only "never raises, booleans, != negates ==" is judged here
        pat = None
        if ds:
            # what a described (computed) field of a pattern packet reads as - the length of an Any placeholder - is not fixed by
            # any statement: such classes are left out
            run.count("pattern_packet_skipped_described_class")
        else:
            try:
                from bisturi import pattern_matching as pm
                pat = pm.anything_like(cls)
            except Exception:
                run.count("pattern_packet_not_buildable")
        if pat is not None:
            for x, y, tag in ((pat, r1.pkt, "pattern==parsed"), (r1.pkt, pat, "parsed==pattern"), (pat, pat, "pattern==pattern")):
                if cmp_safe(run, x, y, dict(w, pair="pattern packet (anything_like) vs parsed packet", direction=tag)) is None:
                    return
                run.count("pattern_packet_comparisons")
            check_repr(run, pat, dict(w, of="pattern packet"))
        try:
            c1 = monitors.build_packet(bench.loaded, v, pv, "kwargs")
            c2 = monitors.build_packet(bench.loaded, v, pv, "attrs")
        except Exception as e:
            run.count("construct_failed")
            return
        check_repr(run, c1, w)
        if not expect(run, bench, "built-twice", c1, c2, True, w):
            return
        run.count("parsed_vs_constructed")
        if not expect(run, bench, "parsed-vs-built", r1.pkt, c1, True, w):
            return
        # after pack
        pr = harness.lib_pack(c1)
        if pr.status == "ok":
            run.count("pairs_after_pack")
            check_repr(run, c1, w)
            if not expect(run, bench, "built-packed-vs-built", c1, c2, True, w):
                return
            if not expect(run, bench, "built-packed-vs-parsed", c1, r2.pkt, True, w):
                return
        pr = harness.lib_pack(r1.pkt)
        if pr.status == "ok":
            if not expect(run, bench, "parsed-packed-vs-parsed", r1.pkt, r2.pkt, True, w):
                return
        # described fields left to their computed value (not given explicitly)
        if ds:
            auto = strip_described(fam, pv)
            try:
                a1 = monitors.build_packet(bench.loaded, v, auto, "kwargs")
                a2 = monitors.build_packet(bench.loaded, v, auto, "kwargs")
            except Exception:
                a1 = None
            if a1 is not None:
                run.count("auto_described_pairs")
                if not expect(run, bench, "auto-built-vs-parsed", a1, r2.pkt, True, w):
                    return
                if not expect(run, bench, "auto-built-vs-explicit-built", a1, c2, True, w):
                    return
                if harness.lib_pack(a1).status == "ok":
                    if not expect(run, bench, "auto-built-packed-vs-auto-built", a1, a2, True, w):
                        return
        # one leaf changed
        n = 0
        for desc, changed, depth in leaf_changes(fam, pv, rng):
            if changed == pv:
                continue
            try:
                q = monitors.build_packet(bench.loaded, v, changed, "kwargs")
            except Exception:
                continue
            check_repr(run, q, w)
            if depth > 0:
                run.count("nested_leaf_changes")
            if not expect(run, bench, "one-leaf-changed", r2.pkt, q, False, dict(w, changed=desc, other=changed.to_json())):
                return
            n += 1
            if n >= 4:
                break
        # two default-built packets, one of them changed IN PLACE at some depth (sub-objects of default packets must be private)
        try:
            from .c13 import pick_leaf, new_leaf_value
            d0 = model.defaults(fam, fam["root"])
            for _try in range(3):
                leaf = pick_leaf(fam, d0, rng)
                if not leaf:
                    break
                path, lf = leaf
                if "describe" in lf or any(g.get("describe", {}).get("of") == lf["name"] for g in fam["decls"][fam["root"]]["fields"]) and len(path) == 1:
                    continue
                p_, q_ = cls(), cls()
                obj, cur = q_, d0
                for name in path[:-1]:
                    obj = getattr(obj, name)
                    cur = cur.vals[name]
                val = new_leaf_value(lf, rng)
                if cur.vals.get(path[-1]) == val:
                    continue
                setattr(obj, path[-1], val)
                run.count("in_place_changes_of_default_packets")
                if len(path) > 1:
                    run.count("in_place_changes_of_default_packets_nested")
                if not expect(run, bench, "default-built, one leaf changed in place", p_, q_, False,
                              dict(w, changed_in_place=path, new_value=b2j(val) if isinstance(val, bytes) else val)):
                    return
                break
        except harness.CaseTimeout:
            pass
        # non packets
        for other in (None, 5, b"x", "s", [], object()):
            run.count("non_packet_comparisons")
            try:
                if (r2.pkt == other) is not False or (r2.pkt != other) is not True:
                    run.violation("a packet compares equal to a non-packet (%r)" % (other,), w, None)
                    return
            except Exception as e:
                run.violation("comparing a packet with %s raised %s" % (type(other).__name__, type(e).__name__), w, None)
                return
    # different classes with identical fields and values
    a = harness.lib_unpack(bench.root("g"), raw)
    b = harness.lib_unpack(bench.root("d"), raw)
    if a.status == "ok" and b.status == "ok":
        run.count("different_class_pairs")
        expect(run, bench, "other-class", a.pkt, b.pkt, False, dict(base_w, note="same declaration, two distinct classes"))


def same_name_other_class(run, bench, rng, directory):
    """Two distinct classes that share their __name__ (the same declaration names in another module, with
    one more field): after comparing instances of the first, instances of the second must still be
    compared by their own fields, and instances of the two are never equal."""
    from .. import spec as specmod
    fam = bench.fam
    fam2 = specmod.clone(fam)
    root2 = fam2["decls"][fam2["root"]]
    extra = {"name": "fx", "t": "int", "n": 1, "signed": False, "endian": None}
    root2["fields"].append(extra)
    try:
        b2 = harness.Bench(fam2, {"g": render.VARIANTS["g"], "d": {}}, directory, instrument=())
    except Exception:
        run.count("same_name_second_family_undefinable")
        return
    try:
        for _ in range(6):
            raw, oc = model.generate_input(fam2, rng, maxlen=100)
            st, mr = harness.model_parse(fam2, raw, 0)
            if st != "ok":
                continue
            changed = model.copy_val(mr.value)
            changed.vals["fx"] = (changed.vals["fx"] + 1) & 0xFF
            for v in ("g", "d"):
                A = bench.root(v)
                B = b2.root(v)
                w = {"source": driver.src_of(bench, v), "second_source": render.family_src(fam2, {v: b2.loaded.variants[v]}),
                     "raw": b2j(raw), "note": "two classes named %s in two modules; the second has one more field 'fx'" % A.__name__}
                ra = harness.lib_unpack(A, raw)
                if ra.status != "ok":
                    continue
                # populate whatever the library may remember about the first class
                cmp_safe(run, ra.pkt, harness.lib_unpack(A, raw).pkt, w)
                p = monitors.build_packet(b2.loaded, v, mr.value, "kwargs")
                q = monitors.build_packet(b2.loaded, v, changed, "kwargs")
                run.count("same_name_class_pairs")
                if not expect(run, bench, "same-name-class:only-extra-field-differs", p, q, False, w):
                    return
                if not expect(run, bench, "same-name-class:identical", p, monitors.build_packet(b2.loaded, v, mr.value, "attrs"), True, w):
                    return
                if not expect(run, bench, "same-name-other-class", ra.pkt, p, False, w):
                    return
            break
    finally:
        b2.close()


EMBED_SRC = render.HEADER + """
class Pt(Packet):
    x = Int(1)
    y = Int(1)


class P3(Packet):
    __bisturi__ = %r
    p = Ref(Pt(x=1, y=2), embed=True)
    z = Int(1)


class P3at(Packet):
    __bisturi__ = %r
    h = Int(1)
    p = Ref(Pt, embed=True)
    z = Int(1).at(4)
"""


def embed_probe(run):
    """Packets whose class embeds another packet (its fields are borrowed; the reference's own slot is filled only in built
    packets): comparisons between built and parsed packets and repr never raise.  What such packets compare to is not judged."""
    d = common.scratch_dir("bvf_c20e_")
    try:
        for opts in ({}, {"generate_for_pack": False, "generate_for_unpack": False}):
            src = EMBED_SRC % (opts, opts)
            module, path = render.load_source(src, d)
            pairs = [(module.P3(x=7, z=3), module.P3.unpack(b"\x07\x00\x03")), (module.P3(), module.P3.unpack(b"\x00\x00\x00")),
                     (module.P3at(h=1, x=2, y=3, z=4), module.P3at.unpack(b"\x01\x02\x03.\x04")), (module.P3at(), module.P3at())]
            for built, parsed in pairs:
                w = {"source": src, "built": "keyword-constructed", "parsed": "unpack()"}
                for x, y, tag in ((built, parsed, "built==parsed"), (parsed, built, "parsed==built"), (parsed, parsed, "parsed==parsed")):
                    if cmp_safe(run, x, y, dict(w, pair="class with an embedded packet", direction=tag)) is None:
                        return
                    run.count("embedded_class_comparisons")
                check_repr(run, built, dict(w, of="built"))
                check_repr(run, parsed, dict(w, of="parsed"))
            import sys as _sys
            _sys.modules.pop(module.__name__, None)
    finally:
        common.drop_scratch(d)


def run(run):
    shard, nshards = run.shard
    rng = rng_for(run.seed, "c20", shard)
    if shard == 0:
        embed_probe(run)
    else:
        run.count("embedded_class_comparisons")
    side_dir = common.scratch_dir("bvf_c20b_")
    nfam = 450 if run.tier == "quick" else 2000
    profile = {"p_local_classes": 0.4, "p_underscore_names": 0.2, "p_instance_proto": 0.5, "p_move": 0.35, "p_class_align": 0.15, "p_describe": 0.25, "allow_regex_nokeep_single": False,
               "kinds": {"int": 34, "data": 22, "bits": 8, "ref": 16, "sel": 8, "em": 8}, "p_backward_at": 0.05}
    if run.tier == "thorough":
        profile["max_depth"] = 4
    sampled = 0
    for bench in driver.families(run, rng, profile, VARIANTS, nfam, instrument=(), tag="c20"):
        fam = bench.fam
        feats = family_features(fam)
        seen = set()
        for j in range(8):
            raw, oc = model.generate_input(fam, rng, maxlen=120)
            st, mr = harness.model_parse(fam, raw, 0)
            if st != "ok":
                continue
            key = common.stable_hash(mr.value.to_json())
            if key in seen:
                continue
            seen.add(key)
            if len(seen) > 6:
                break
            one_tree(run, bench, rng, raw, mr.value, feats)
            if sampled < 3 and len(mr.value.vals) > 2:
                sampled += 1
                run.sample({"source": driver.src_of(bench), "raw": raw, "values": mr.value.to_json()})
        if rng.random() < 0.35:
            same_name_other_class(run, bench, rng, side_dir)
        if run.counters["violations"] > 30:
            break
    common.drop_scratch(side_dir)


def replay(run, rec):
    w = rec["witness"]
    fam = common.from_json(w["fam"])
    d = common.scratch_dir("bvf_replay_")
    bench = harness.Bench(fam, VARIANTS, d, instrument=())
    bench.skeleton = "replay"
    raw = common.from_json(w["raw"])
    pv = model.val_from_json(w["values"])
    one_tree(run, bench, common.rng_for(0, "replay"), raw, pv, family_features(fam))
