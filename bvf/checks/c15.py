"""C15  A class behaves per its current declaration whatever the code cache holds.

Definition histories across real processes.  A history is a sequence of steps
    define(variant, process = new | same as previous, bytecode caching on|off)
interleaved with tamper actions on the cache directory between processes:
    seed the cache file with the module generated for another variant, delete the .py but keep
    its .pyc (orphan bytecode), force the next cache file to carry the mtime recorded in the
    existing .pyc (the same-second coincidence, produced deterministically through the child's
    close hook), remove everything.
Variants are declarations of one same-named class in one module: designed pairs whose generated
source has the same length (Int(1),Int(2) vs Int(2),Int(1); B2s vs 1sH ...), option-only
changes (vectorize / annotate / generation off and on again), and generated flat declarations.
After every define a behaviour probe (fixed vectors per variant: unpack values, end offset,
re-pack bytes, failing inputs) is compared with the reference model of *that* variant, and
classes defined earlier in the same process are probed again.  The observed file-system trace
tells cache hits from rewrites, so the evidence shows which situations were actually produced.
"""
import os
import struct
import time

from .. import common, harness, model, procs, render, spec
from ..common import rng_for, b2j

LEVEL = "exploration"
SHARDS = {"quick": 8, "thorough": 16}
REQUIRED = ("seeded_truncated_cache_situations", "seeded_own_truncated_cache_situations", "optimizing_interpreter_histories", "definitions_under_python_O_not_probed", "seeded_cookieless_cache_situations", "direction_ladder_histories", "construct_probes_judged", "aba_same_process_steps", "definitions_probed", "cache_hits_observed", "cache_rewrites_observed", "same_length_variant_switches",
            "stale_pyc_situations", "orphan_pyc_situations", "seeded_foreign_cache_situations", "same_process_redefinitions",
            "bytecode_on_definitions", "bytecode_off_definitions", "earlier_classes_reprobed", "option_only_switches")
MIN_NONTRIVIAL = 20
RULE = {
    "quick": "8 shards x 20 histories of 4-7 steps over a pool of 12 designed + 4 generated variants of one same-named class (each define in a real "
             "child process, several defines per process when 'same process'). Non-trivial = a define step that follows a different variant or a "
             "tamper action; distinct = (previous variant kind -> variant kind, process mode, bytecode, tamper, cache hit/rewrite).",
    "thorough": "16 shards x 90 histories of 4-9 steps, 16 generated variants per shard.",
}
ASSUMPTIONS = [
    "the behaviour probe (6-12 vectors per variant judged against the reference model: values, end offset, re-packed bytes, failing inputs) distinguishes the variants of a history",
    "the same-second coincidence of source mtimes is produced by setting the freshly written cache file's mtime from the child's close hook (a fault injected at a real point of the real code)",
]

MODULE = "cachemod"


def fam_of(fields, opts=None):
    return {"root": "P0", "order": ["P0"], "decls": {"P0": {"name": "P0", "opts": dict(opts or {}), "fields": fields}}}


def I(name, n, **k):
    d = {"name": name, "t": "int", "n": n, "signed": False, "endian": None}
    d.update(k)
    return d


def D(name, n):
    return {"name": name, "t": "data", "mode": "const", "size": n}


def designed_variants(rng):
    V = procs.Variant
    out = []
    out.append(V("i1i2", fam_of([I("a", 1), I("b", 2)]), {}, rng))
    out.append(V("i2i1", fam_of([I("a", 2), I("b", 1)]), {}, rng))            # same length as i1i2
    out.append(V("i1d2", fam_of([I("a", 1), D("b", 2)]), {}, rng))
    out.append(V("d1i2", fam_of([D("a", 1), I("b", 2)]), {}, rng))            # same length as i1d2
    out.append(V("i1i2-le", fam_of([I("a", 1), I("b", 2)], {"endianness": "little"}), {}, rng))
    out.append(V("i1i2-novec", fam_of([I("a", 1), I("b", 2)]), {"vectorize": False}, rng))
    out.append(V("i1i2-noann", fam_of([I("a", 1), I("b", 2)]), {"annotate": False}, rng))
    out.append(V("i1i2-nogen", fam_of([I("a", 1), I("b", 2)]), {"generate_for_pack": False, "generate_for_unpack": False}, rng))
    out.append(V("i2i1-unpackonly", fam_of([I("a", 2), I("b", 1)]), {"generate_for_pack": False}, rng))
    out.append(V("i1i2-unpackonly", fam_of([I("a", 1), I("b", 2)]), {"generate_for_pack": False}, rng))
    out.append(V("i2i1-packonly", fam_of([I("a", 2), I("b", 1)]), {"generate_for_unpack": False}, rng))
    out.append(V("i1i2-packonly", fam_of([I("a", 1), I("b", 2)]), {"generate_for_unpack": False}, rng))
    # twins whose generated texts differ only by patterns that a position-weighted checksum of the text cannot see
    # (the names swap places: every occurrence changes by +1, -2, +1 on three consecutive bytes)
    out.append(V("aca1bab2", fam_of([I("aca", 1), I("bab", 2)]), {}, rng))
    out.append(V("bab1aca2", fam_of([I("bab", 1), I("aca", 2)]), {}, rng))
    def described(impl):
        return fam_of([dict(I("a", 1), describe={"k": "alias", "of": "b", "impl": impl}),
                       {"name": "b", "t": "data", "mode": "dyn", "size": {"form": "field", "e": ["f", "a"]}}])
    out.append(V("desc-auto", described("autolength"), {}, rng))     # same field text, descriptor with a sync hook ...
    out.append(V("desc-plain", described("plain"), {}, rng))         # ... and without one
    # the same pair without source annotation: the per-field code of the two modules is identical, they differ only in the
    # calls that keep described fields in step (the wrapper around the per-field code)
    # twins whose generated texts differ only in non-ASCII characters of the field names (what an ASCII rendering of the text loses)
    out.append(V("ea1eb2-noann", fam_of([I("d\u00e9", 1), I("d\u00e8", 2)]), {"annotate": False}, rng))
    out.append(V("eb1ea2-noann", fam_of([I("d\u00e8", 1), I("d\u00e9", 2)]), {"annotate": False}, rng))
    out.append(V("ea1eb2", fam_of([I("d\u00e9", 1), I("d\u00e8", 2)]), {}, rng))
    out.append(V("eb1ea2", fam_of([I("d\u00e8", 1), I("d\u00e9", 2)]), {}, rng))
    out.append(V("desc-auto-noann", described("autolength"), {"annotate": False}, rng))
    out.append(V("desc-plain-noann", described("plain"), {"annotate": False}, rng))
    for v in out:
        v.kind = "designed"
    twins = {"aca1bab2": "bab1aca2", "ea1eb2-noann": "eb1ea2-noann", "ea1eb2": "eb1ea2", "desc-auto": "desc-plain", "desc-auto-noann": "desc-plain-noann", "i1i2": "i2i1", "i1d2": "d1i2", "i2i1-unpackonly": "i1i2-unpackonly", "i2i1-packonly": "i1i2-packonly"}
    for a, b in twins.items():
        for v in out:
            if v.tag == a:
                v.twin = b
            if v.tag == b:
                v.twin = a
    return out


def generated_variants(rng, n):
    out = []
    tries = 0
    while len(out) < n and tries < n * 5:
        tries += 1
        fam = spec.gen_family(rng, {"flat": True, "max_fields": 4, "allow_regex_nokeep_single": False})
        # class name must be the same for every variant
        if fam["root"] != "P0" or len(fam["order"]) != 1:
            continue
        v = procs.Variant("gen%d" % len(out), fam, rng.choice([{}, {}, {"vectorize": False}, {"annotate": False}]), rng)
        if len(v.vectors) >= 3:
            v.kind = "generated"
            out.append(v)
    return out


def pyc_recorded(pycpath):
    try:
        with open(pycpath, "rb") as f:
            h = f.read(16)
        flags, mtime, size = struct.unpack("<III", h[4:16])
        return mtime, size
    except Exception:
        return None


def generated_source_of(variant, cachedir_root, sources):
    """Generated module text of a variant (defined once in a private directory)."""
    if variant.tag in sources:
        return sources[variant.tag]
    d = os.path.join(cachedir_root, "gen_" + variant.tag)
    os.makedirs(d, exist_ok=True)
    r = procs.run_child(procs.base_job(d, [variant.define_action(MODULE)]), d)
    txt = None
    try:
        with open(procs.cache_file(d, MODULE, variant.cls)) as f:
            txt = f.read()
    except OSError:
        pass
    sources[variant.tag] = txt
    return txt


def run_history(run, rng, pool, scratch, hid, sources, nsteps):
    workdir = os.path.join(scratch, "h%d" % hid)
    os.makedirs(workdir)
    by_tag = {v.tag: v for v in pool}
    history = []
    prev = None
    pending_proc = []      # define actions to run in one child
    pending_meta = []
    proc_bytecode = False
    force_mtime = None
    proc_optimize = False
    steps_desc = []

    def flush():
        nonlocal pending_proc, pending_meta, force_mtime, proc_optimize
        if not pending_proc:
            return True
        hooks = {"mode": "log"}
        if force_mtime is not None:
            hooks["force_mtime"] = force_mtime
        job = procs.base_job(workdir, pending_proc, bytecode=proc_bytecode, hooks=hooks)
        if proc_optimize:
            job["optimize"] = True
        r = procs.run_child(job, workdir)
        ok = judge_process(run, r, pending_meta, by_tag, history, workdir)
        pending_proc, pending_meta = [], []
        force_mtime = None
        proc_optimize = False
        return ok

    # some histories start with an A-B-A (or A-B-A-B) pattern inside ONE process: a declaration comes back
    # after a different same-named one has been defined in between
    forced = []
    if rng.random() < 0.4:
        a = rng.choice(pool)
        b = by_tag[a.twin] if getattr(a, "twin", None) and rng.random() < 0.6 else rng.choice([u for u in pool if u.tag != a.tag])
        forced = [(a, False), (b, True), (a, True)] + ([(b, True)] if rng.random() < 0.4 else [])
        nsteps = max(nsteps, len(forced) + 1)
    elif rng.random() < 0.35:
        # "direction ladder" inside one process: declaration X with both directions generated, then the same-named
        # declaration Y with one direction only, then Y with both (what the first X left behind must not serve Y)
        x, y = rng.choice([("i1i2", "i2i1"), ("i2i1", "i1i2")])
        one = by_tag["%s-%s" % (y, rng.choice(["packonly", "unpackonly"]))]
        forced = [(by_tag[x], False), (one, True), (by_tag[y], True)] + ([(by_tag[x], True)] if rng.random() < 0.5 else [])
        nsteps = max(nsteps, len(forced) + 1)
        run.count("direction_ladder_histories")
    elif rng.random() < 0.3:
        # an optimizing interpreter in between: X defined by a plain process (bytecode on), its same-length twin Y by a `python -O`
        # process (whose bytecode goes to another file name, so X's survives) within the same second, then Y by a plain process
        twins = [u for u in pool if getattr(u, "twin", None)]
        if twins:
            x = rng.choice(twins)
            y = by_tag[x.twin]
            forced = [(x, False, {"bytecode": True}), (y, False, {"optimize": True, "same_mtime": True}), (y, False, {"bytecode": True, "same_mtime": True})]
            if rng.random() < 0.5:
                forced.append((x, False, {"bytecode": True, "same_mtime": True}))
            nsteps = max(nsteps, len(forced) + 1)
            run.count("optimizing_interpreter_histories")
    for s in range(nsteps):
        # choose variant: bias to twins (same-length) and option-only changes of the previous one
        extras = {}
        if forced:
            item = forced.pop(0)
            v, same_proc_forced = item[0], item[1]
            extras = item[2] if len(item) > 2 else {}
            if same_proc_forced:
                run.count("aba_same_process_steps")
        elif prev is not None and getattr(prev, "twin", None) and rng.random() < 0.45:
            v = by_tag[prev.twin]
            same_proc_forced = None
        else:
            v = rng.choice(pool)
            same_proc_forced = None
        same_proc = prev is not None and (same_proc_forced if same_proc_forced is not None else rng.random() < 0.3)
        bytecode = rng.random() < 0.6
        tamper = None
        if not same_proc:
            if not flush():
                return
            proc_bytecode = bytecode
            if extras:
                proc_bytecode = True
                proc_optimize = bool(extras.get("optimize"))
                plain_pycs = [q for q in procs.pyc_files(workdir) if ".opt-" not in os.path.basename(q)]
                rec = pyc_recorded(plain_pycs[0]) if plain_pycs and extras.get("same_mtime") else None
                if rec:
                    force_mtime = rec[0]
                    tamper = "same-mtime-as-pyc"
                if proc_optimize:
                    tamper = (tamper + "+" if tamper else "") + "python-O"
            elif prev is not None:
                r = rng.random()
                cf = procs.cache_file(workdir, MODULE, v.cls)
                pycs = procs.pyc_files(workdir)
                if r < 0.2 and pycs and os.path.exists(cf):
                    # orphan bytecode + same mtime coincidence for the next cache file
                    rec = pyc_recorded(pycs[0])
                    os.remove(cf)
                    tamper = "delete-py-keep-pyc"
                    if rec and rng.random() < 0.8:
                        force_mtime = rec[0]
                        tamper += "+same-mtime"
                    run.count("orphan_pyc_situations")
                elif r < 0.4 and pycs:
                    rec = pyc_recorded(pycs[0])
                    if rec:
                        force_mtime = rec[0]
                        tamper = "same-mtime-as-pyc"
                        run.count("stale_pyc_situations")
                elif r < 0.6:
                    other = rng.choice([u for u in pool if u.tag != v.tag])
                    if getattr(v, "twin", None) and rng.random() < 0.4:
                        other = by_tag[v.twin]
                    txt = generated_source_of(other, scratch, sources)
                    if txt:
                        tamper = "seed-foreign:%s" % other.tag
                        if rng.random() < 0.35:
                            # a module left by something that did not stamp it (no cookie line at all)
                            txt = "".join(l for l in txt.splitlines(True) if "BISTURI_PACKET_COOKIE" not in l)
                            tamper = "seed-foreign-without-cookie:%s" % other.tag
                            run.count("seeded_cookieless_cache_situations")
                        elif rng.random() < 0.45:
                            # what a writer that died (or an older release that wrote in place) leaves: a prefix of a module, cut anywhere -
                            # inside a string, an identifier, a statement
                            k = rng.randrange(1, max(2, len(txt) - 1))
                            txt = txt[:k]
                            tamper = "seed-foreign-truncated-at-%d:%s" % (k, other.tag)
                            run.count("seeded_truncated_cache_situations")
                        os.makedirs(procs.cache_dir(workdir), exist_ok=True)
                        with open(cf, "w") as f:
                            f.write(txt)
                        run.count("seeded_foreign_cache_situations")
                elif r < 0.65:
                    import shutil
                    shutil.rmtree(procs.cache_dir(workdir), ignore_errors=True)
                    tamper = "remove-cache"
                elif r < 0.8:
                    # the module of THIS declaration (matching stamp) as a writer that died - or an older release that wrote in
                    # place - leaves it: a prefix, cut between two top-level statements (one function there, the other not) or anywhere
                    txt = generated_source_of(v, scratch, sources)
                    if txt:
                        lines = txt.splitlines(True)
                        tops = [i for i, l in enumerate(lines) if i > 0 and l[:1] not in (" ", "\t", "\n", "#", "")]
                        defs = [i for i in tops if lines[i].startswith("def ")]
                        if defs and rng.random() < 0.6:
                            k = sum(len(l) for l in lines[:defs[-1]])
                            how = "before-last-function"
                        elif tops and rng.random() < 0.5:
                            k = sum(len(l) for l in lines[:rng.choice(tops)])
                            how = "between-statements"
                        else:
                            k = rng.randrange(1, max(2, len(txt) - 1))
                            how = "anywhere"
                        os.makedirs(procs.cache_dir(workdir), exist_ok=True)
                        with open(cf, "w") as f:
                            f.write(txt[:k])
                        tamper = "seed-own-truncated-%s-at-%d" % (how, k)
                        run.count("seeded_own_truncated_cache_situations")
        else:
            run.count("same_process_redefinitions")
        if prev is not None and prev.tag != v.tag:
            if getattr(prev, "twin", None) == v.tag:
                run.count("same_length_variant_switches")
            if prev.fam == v.fam and prev.options != v.options:
                run.count("option_only_switches")
        act = v.define_action(MODULE)
        act["tag"] = "%s#%d" % (v.tag, s)
        pending_proc.append(act)
        meta = {"variant": v.tag, "same_process": same_proc, "bytecode": proc_bytecode, "tamper": tamper, "prev": prev.tag if prev else None}
        if proc_optimize and not same_proc:
            meta["optimize"] = True
        pending_meta.append(meta)
        history.append(meta)
        run.count("bytecode_on_definitions" if proc_bytecode else "bytecode_off_definitions")
        prev = v
    flush()


def judge_process(run, r, metas, by_tag, history, workdir):
    witness = {"history": history, "module": MODULE}
    if r.status == "timeout":
        run.count("child_watchdog")
        run.inconclusive_because("child-watchdog")
        return False
    if r.report is None:
        run.violation("defining a class crashed the process (rc=%s): %s" % (r.rc, (r.stderr or "")[-300:]), witness, None)
        return False
    steps = r.report.get("steps", [])
    acts = r.report["actions"]
    # split the observed steps per action is not needed: hits/rewrites are counted per process
    wrote = sum(1 for k, d in steps if k == "open-w")
    for meta, act in zip(metas, acts):
        v = by_tag[meta["variant"]]
        wit = dict(witness, step=meta, source=v.source, observed_steps=steps[:40])
        run.case(key=(meta["prev"] and by_tag[meta["prev"]].kind, v.kind, meta["same_process"], meta["bytecode"], (meta["tamper"] or "").split(":")[0]),
                 nontrivial=meta["prev"] is not None)
        if not act.get("defined"):
            run.violation("defining the class raised %s: %s" % (act["exception"]["type"], act["exception"]["msg"][:160]),
                          dict(wit, traceback=act["exception"]["tb"][-800:]), None)
            return False
        if meta.get("optimize"):
            # under -O the library's own assert statements (its short-read and delimiter checks) are stripped: what such a process
            # parses is not judged, only that the class can be defined and what it leaves behind for the next process
            run.count("definitions_under_python_O_not_probed")
            continue
        run.count("definitions_probed")
        bad = v.judge_probe(act["probe"]) + v.judge_constructs(act.get("construct_probe"))
        if v.constructs:
            run.count("construct_probes_judged")
        if bad:
            run.violation("the class does not behave per its current declaration (the cache served code of another declaration)",
                          dict(wit, mismatches=bad[:3]), None)
            return False
        for tag, results in (act.get("reprobe_earlier") or {}).items():
            u = by_tag[tag.split("#")[0]]
            run.count("earlier_classes_reprobed")
            bad = u.judge_probe(results["probe"]) + u.judge_constructs(results.get("construct_probe"))
            if bad:
                run.violation("a class defined earlier in the process stopped behaving per its own declaration after a later definition",
                              dict(wit, earlier=tag, mismatches=bad[:3]), None)
                return False
    if wrote:
        run.count("cache_rewrites_observed", wrote)
    hits = len([a for a in acts if a.get("defined")]) - wrote
    if hits > 0:
        run.count("cache_hits_observed", hits)
    return True


def run(run):
    shard, nshards = run.shard
    rng = rng_for(run.seed, "c15", shard)
    quick = run.tier == "quick"
    scratch = common.scratch_dir("bvf_c15_")
    pool = designed_variants(rng) + generated_variants(rng, 4 if quick else 16)
    run.count("variants_in_pool", len(pool))
    sources = {}
    nhist = 20 if quick else 90
    for h in range(nhist):
        nsteps = rng.randint(4, 7 if quick else 9)
        run_history(run, rng, pool, scratch, h, sources, nsteps)
        if run.counters["violations"] > 10:
            break
    if shard == 0:
        run.sample({"variants": [v.tag for v in pool], "example_variant_source": pool[1].source,
                    "example_vectors": pool[1].vectors[:4]})
    common.drop_scratch(scratch)
