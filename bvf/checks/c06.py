"""C06  Byte-string fields take exactly the declared bytes or stop at first delimiter.

Declarations (rendered as real source files in a scratch directory)

    class D(Packet):
        __bisturi__ = {<code generation options>, 'search_buffer_length': W}
        s1 = Int(1)
        d  = Data(<sizing mode>)
        s2 = Int(2)          # absent in the "tail" variants (Data is the last field)

for every sizing mode (constant, earlier field, field expression, callable, bytes marker,
regex marker, end-of-string) x include_delimiter x search window x code-generation option
set.  The two sentinels make the cursor observable: s1 is the byte before the field (the
scan must start *after* it), s2 is the two bytes right after the delimiter.

Oracle: `model()` below - an exact-length slice, or the leftmost occurrence of the marker /
leftmost `re` match inside raw[o:o+W] - written from the property statement.  Compared on
every execution: value of d, value of s2, end offset (through `unpack_impl` on a second
packet), error/no-error (PacketError), and the bytes produced by pack().

Second part (section "wrapped / nested declarations"): the same Data field carried by the
wrappers a declaration can put around it - `.when(cond)` (true and false), `.repeated(count=)`,
`.repeated(until=)`, a field of a sub-packet reached through `Ref(Sub)` whose class has its own
search_buffer_length (plus a plain field of the outer class after it), an option of a run-time
selected `Ref(key.chooses({...}))` (literal fields and a packet), and `.at()` / `.shift()`.
Oracle: `wmodel()` - a sequential reference parse that calls `take()` (same rules as `model()`)
at every place a Data value is read, with the window of the class that declares the field.

Third part (section "context-sensitive regex delimiters"): regex delimiters whose match depends on the bytes
around the candidate - look-behinds, `\\b` / `\\B`, `^` / `\\A` / `(?m)^`, a look-ahead at the window edge - with the
field first / after a sentinel with an adversarial last byte / twice in a row / inside a `Ref(Sub)`, parsed with
`unpack(raw, offset=k)`, k >= 0, after an adversarial byte at k-1.  Oracle: `ctx_model()`, run under both readings
of "first regex match at or after the cursor" (searched on the bytes from the cursor on / searched in place in the
parsed text raw[k:]); judged where they agree - in particular for the first field, where no byte before the start
offset may matter (docs/reference/02) - counted where they do not.

Fourth part (section "regex delimiters compiled with flags"): the s1 / d / s2 declaration of the first part with regex
delimiters whose meaning depends on their flags - re.IGNORECASE on pure-literal patterns (b'end', CR LF, b'X') and on
a character class, re.DOTALL, re.MULTILINE, re.VERBOSE with a commented pattern, re.ASCII, inline `(?i)` / `(?i:..)`,
combinations.  Oracle: `model()` with the oracle's own object compiled from the same (pattern, flags); inputs whose
first occurrence is spelled in another case than the pattern text, with the same-case occurrence further on or absent.
The counter-factual "pattern text without its flags" tells on which inputs the flags decide (flg_decisive_*).

Fifth part (section "several byte-string fields next to each other"): layouts where byte-string fields are neighbours
(two / three Data(n) of one size, different sizes, next to Ints of several widths / byte orders / signedness, a fixed
field between two delimited ones, two delimited ones in a row, Data(n) then Data(field)).  Oracle: `adj_model()`,
field by field with `take()`; every input the model parses is cut at every point before its end; pack() must be the
concatenation of the fields.
"""
import hashlib
import re

from ..common import rng_for

LEVEL = "exploration"
SHARDS = {"quick": 1, "thorough": 16}
MIN_NONTRIVIAL = 50
REQUIRED = (
    "unpack_ok_compared", "end_offset_compared", "s2_sentinel_compared",
    "err_short_read_raised", "err_negative_size_raised", "err_missing_delimiter_raised",
    "err_delimiter_outside_window_raised", "straddling_window_edge",
    "delimiter_at_cursor", "delimiter_at_end_of_input", "zero_length_delimiter",
    "later_occurrence_present", "marker_byte_in_s1", "overlapping_prefix_before_delimiter",
    "pack_compared", "pack_literal_delimiter_appended", "repack_roundtrip_value_preserved",
    "eos_compared", "classes_defined",
    # wrapped / nested part
    "wrapped_classes_defined", "wrapped_unpack_ok_compared", "wrapped_end_offset_compared",
    "wrapped_s2_sentinel_compared", "wrapped_in_window_accepts", "wrapped_window_rejections",
    "wrapped_window_rejections_when", "wrapped_window_rejections_rep_count", "wrapped_window_rejections_rep_until",
    "wrapped_window_rejections_ref_sub_inner", "wrapped_window_rejections_ref_sub_outer_field_after_sub",
    "wrapped_window_rejections_selector_packet", "wrapped_window_rejections_moved",
    "wrapped_in_window_accepts_when", "wrapped_in_window_accepts_rep_count", "wrapped_in_window_accepts_rep_until",
    "wrapped_in_window_accepts_ref_sub", "wrapped_in_window_accepts_selector", "wrapped_in_window_accepts_moved",
    "wrapped_nested_accept_outer_window_would_reject", "wrapped_nested_reject_outer_window_would_accept",
    "wrapped_straddling_window_edge", "wrapped_when_false_nothing_consumed", "wrapped_when_true_compared",
    "wrapped_sequences_of_two_or_more", "wrapped_selector_key_0", "wrapped_selector_key_1", "wrapped_selector_key_2",
    "wrapped_moved_forward", "wrapped_err_short_read_raised", "wrapped_err_negative_size_raised",
    "wrapped_err_missing_delimiter_raised", "wrapped_pack_compared", "wrapped_pack_literal_delimiter_appended",
    "wrapped_fresh_pack_compared", "wrapped_repack_roundtrip_values_preserved",
    # context-sensitive regex delimiters
    "ctx_classes_defined", "ctx_unpack_ok_compared", "ctx_end_offset_compared", "ctx_errors_agreed",
    "ctx_err_missing_delimiter_raised", "ctx_err_delimiter_outside_window_raised",
    "ctx_start_offset_nonzero_compared", "ctx_adversarial_byte_before_start_offset_compared",
    "ctx_start_offset_decisive", "ctx_start_offset_decisive_lookbehind", "ctx_start_offset_decisive_boundary",
    "ctx_start_offset_decisive_anchor", "ctx_start_offset_decisive_nested",
    "ctx_start_offset_decisive_with_window", "ctx_start_offset_decisive_without_window",
    "ctx_start_offset_decisive_include_on", "ctx_start_offset_decisive_include_off",
    "ctx_after_earlier_field_compared", "ctx_adversarial_sentinel_byte_compared", "ctx_in_sub_packet_compared",
    "ctx_delimiter_at_cursor", "ctx_in_window_accepts", "ctx_lookahead_blocked_by_window_edge",
    "ctx_pack_compared", "ctx_fresh_pack_compared", "ctx_repack_roundtrip_values_preserved",
    # regex delimiters compiled with flags
    "flg_classes_defined", "flg_unpack_ok_compared", "flg_end_offset_compared", "flg_errors_agreed",
    "flg_err_missing_delimiter_raised", "flg_err_delimiter_outside_window_raised",
    "flg_flags_decisive", "flg_decisive_pure_literal_pattern", "flg_decisive_ignorecase_literal",
    "flg_decisive_ignorecase_nonliteral", "flg_decisive_dotall", "flg_decisive_multiline", "flg_decisive_verbose",
    "flg_decisive_inline", "flg_decisive_ignorecase_dotall",
    "flg_decisive_with_window", "flg_decisive_without_window", "flg_decisive_include_on", "flg_decisive_include_off",
    "flg_decisive_opt_g", "flg_decisive_opt_d", "flg_decisive_opt_nv",
    "flg_first_match_differs_in_case_from_pattern_text", "flg_only_case_different_occurrence_found",
    "flg_same_case_occurrence_beyond_case_different_one", "flg_occurrence_spelled_as_the_pattern",
    "flg_pack_compared", "flg_fresh_pack_compared", "flg_repack_roundtrip_value_preserved",
    # several byte-string fields next to each other
    "adj_classes_defined", "adj_classes_with_same_size_run", "adj_unpack_ok_compared", "adj_end_offset_compared",
    "adj_byte_string_fields_compared", "adj_ok_same_size_pair", "adj_ok_same_size_triple", "adj_ok_different_sizes",
    "adj_ok_next_to_ints", "adj_ok_fixed_between_delimited", "adj_ok_two_delimited_same_marker",
    "adj_ok_two_delimited_different_markers", "adj_ok_fixed_then_field_sized",
    "adj_ok_same_size_run_of_2", "adj_ok_same_size_run_of_3_or_more",
    "adj_ok_opt_g", "adj_ok_opt_d", "adj_ok_opt_nv",
    "adj_inputs_cut_at_every_point", "adj_truncations_rejected", "adj_truncations_rejected_g",
    "adj_truncations_rejected_d", "adj_truncations_rejected_nv", "adj_err_short_read_raised",
    "adj_err_missing_delimiter_raised", "adj_err_delimiter_outside_window_raised", "adj_in_window_accepts",
    "adj_value_holds_another_fields_marker", "adj_pack_compared", "adj_pack_compared_opt_g", "adj_pack_compared_opt_d",
    "adj_pack_compared_opt_nv", "adj_fresh_pack_compared", "adj_repack_roundtrip_values_preserved",
)
RULE = {
    "quick": "every class of the product {4 constants, field, 3 field expressions, 2 callables (+1 unjudged non-integer), "
             "5 bytes markers, 6 regex markers, EOS} x include_delimiter x search_buffer_length {unset,0,1,2,3,4,6} "
             "(sized modes: {unset,2}) x {with s2, Data last} x 3 code-generation option sets (about 1100 classes) gets "
             "seeded adversarial inputs shared by the classes of one (mode, window) group (delimiter at cursor / at the very "
             "end / straddling the window edge / only after the window / absent, overlapping prefixes, marker bytes in s1 and s2, "
             "second occurrences, truncations; sizes 0, exact, one short, negative) plus random strings over the marker "
             "alphabet private to each class, plus pack() of every parsed packet and of freshly built packets whose bytes are "
             "parsed again.  about 40k inputs.  A case is non-trivial when the input is long enough for the Data field to be reached "
             "(s1 present); distinct = distinct (class, input) pairs.  "
             "Wrapped part: 17 modes (5 sized, 5 bytes markers, 6 regex markers, EOS) x include_delimiter x 6 wrapper shapes "
             "{when, repeated(count), repeated(until), Ref(Sub) with its own window + outer field, run-time selector "
             "(2 literals + packet), at/shift} (19 variants, rotating) x windows {unset,0,2,4} / (outer,sub) pairs "
             "{(unset,3),(3,unset),(2,5),(5,2),(0,3)} x 3 option sets (about 1700 classes + 640 sub-packet classes), 12 "
             "seeded inputs each (element lengths around the window edge of either class, marker bytes in gaps and "
             "sentinels, condition true/false, counts 0..3, truncations) plus 2 freshly built packets packed and parsed again; "
             "about 23k inputs.  Non-trivial = both header bytes present.  "
             "Context-sensitive part: 10 regex delimiters {3 look-behinds, \\b, \\B, ^;|, \\A;, (?m)^#, ^\\. with re.M, "
             "look-ahead ;(?=;)} x include_delimiter x windows {unset,3,5} x 6 shapes {field first, after Int(1), after "
             "Data(2), two consecutive fields, in a Ref(Sub) after an outer Int(1), first field of a Ref(Sub) that is the "
             "first field} x 3 option sets (1080 classes + 360 sub-packet classes), 20 inputs each parsed with "
             "unpack(raw, offset=k), k in 0..3, the byte before the start offset and the last byte of every sentinel drawn "
             "from {backslash, word character, newline, the delimiter byte, a look-behind byte}, a delimiter byte at the "
             "cursor in 60% of the inputs, plus 2 freshly built packets (delimiter kept) packed and parsed again; about "
             "23k inputs, judged where the two readings of the statement agree (see ASSUMPTIONS).  Non-trivial = at least "
             "one byte at or after the start offset.  "
             "Flags part: 13 regex delimiters compiled with flags {re.I on the literals b'end', CR LF, b'X' and on [a-c]+;, "
             "re.S on <.>, re.M on ;; and ;$, re.X on a commented 'e n d', re.I|re.X, re.A on \\W, inline (?i)end and "
             "(?i:e)nd, re.I|re.S on a.b} x include_delimiter x windows {unset,0,3,5} x {with s2, Data last} x 3 option sets "
             "(624 classes), 18 inputs each: fill (neutral / partial occurrences / marker alphabet, length around the "
             "window edge) + one occurrence in a random spelling (upper, lower, mixed case; newline for '.') + sentinel "
             "+ in half of the inputs a later occurrence spelled exactly as the pattern text, plus 2 freshly built packets; "
             "about 11k inputs.  flg_decisive_* count the inputs on which the pattern text without its flags would give "
             "another value / cursor / error.  "
             "Adjacent part: 45 layouts of neighbouring byte-string fields {Data(n) x2 and x3 for n in 1,2,6, bare and "
             "framed by Ints; different sizes incl. 0 and 12; next to Int 1/2/3/4/8, signed, little-endian; fixed between "
             "two delimited (bytes / regex markers, kept and not); two and three delimited in a row, same and different "
             "markers; Data(n) then Data(field)} x windows {unset,3} where delimited x 3 option sets (186 classes), 8 "
             "inputs each, every input the model parses also cut at every point before its end (about 11k cuts), plus 3 "
             "freshly built packets packed and parsed again; about 13k inputs.  Non-trivial = at least one byte.",
    "thorough": "as quick, 16 shards with independent PRNG streams (and shifted variant rotation), about 1M + 0.7M + 0.7M "
                "inputs (context-sensitive part: 39 inputs per class, start offsets up to 9), + 0.4M (flags part, 36 "
                "inputs per class) + 0.5M (adjacent part, 20 inputs per class, each cut at every point).",
}
ASSUMPTIONS = [
    "Python `re.search` on the window slice raw[o:o+W] is the specification of 'leftmost regex match within the window' "
    "(so `$` and greedy runs see the window edge as end of string); W unset or 0 means unbounded; the literal pattern b'$' (EOS) ignores W",
    "a literal marker is found iff it lies completely inside the window",
    "consume_delimiter is left at its default (True); consume_delimiter=False is outside the property",
    "pack() for regex markers with include_delimiter=False is not judged (the delimiter is not determined by the value; finding F2)",
    "inputs too short for s1, or complete for Data but too short for s2, are Int's business (C04): counted, not judged",
    "a non-integer size (callable returning a float) is not fixed by the statement: counted, not judged",
    "Data(n) is only packed with values of exactly n bytes",
    "wrapped part: `__bisturi__` options are per packet class (docs/reference/03_int_field.md, 04_data_field.md): fields of the "
    "class itself - plain, .when(), .repeated(), .at()/.shift() - use the class's search_buffer_length, fields of a sub-packet "
    "reached through Ref(Sub) (directly or as a selector option) use Sub's own",
    "wrapped part: which window (if any) configures a *literal* Data handed out by a run-time selector is not documented: "
    "such a case is judged only when the outer class's window and no window give the same result, otherwise counted "
    "(selector_literal_window_unspecified_not_judged)",
    "wrapped part: short input inside an Int header/sentinel, a selector key without option, a cursor moved beyond the input, "
    "the bytes filling a gap made by .at()/.shift(), pack() of a field moved back over the header, and a repeated(until=) "
    "that would never terminate (zero-length elements, not executed) are outside the property: counted, not judged",
    ".repeated(until=) reads one or more elements (docs/reference/08_sequences.md); .when() false gives None and consumes nothing",
    "context-sensitive part: `Packet.unpack(raw, offset=k)` is `Packet.unpack(raw[k:])` without the copy, the first k bytes "
    "are ignored (docs/reference/02_from_and_to_bytes.md): no byte before the start offset may influence a regex delimiter",
    "context-sensitive part: whether a look-behind / \\b / \\B / ^ / \\A evaluated at the cursor may see the bytes of the "
    "*earlier fields* of the same parse is fixed neither by the statement ('first ... regex match at or after the cursor': both "
    "candidates start at or after the cursor) nor by docs/reference/04 (the library source carries the open question "
    "'(raw, offset) or (raw[offset:], 0) ?'): a case is judged only when `rx.search(raw[o:o+W])` and "
    "`rx.search(raw[k:], o-k, o-k+W)` demand the same values, cursor and error/no error; the others are counted "
    "(ctx_contested_not_judged; ctx_contested_library_follows_* tallies what the library did)",
    "context-sensitive part: the far edge of the window is end of text for a look-ahead, as for `$` (docs/reference/04: "
    "the library 'will not attempt to scan further')",
    "context-sensitive part: pack() is judged only with include_delimiter=True (the value carries its delimiter); a regex "
    "delimiter that is not kept has no defined re-emission",
    "flags part: 'a regex match' means a match of the compiled pattern object the declaration hands over, with the flags "
    "it was compiled with (module-level and inline): the oracle is Python's `re` search of an object compiled from the "
    "same (pattern, flags) on the bytes from the cursor on, inside the window; pack() is judged only where the delimiter "
    "is kept in the value",
    "adjacent part: an input too short inside an Int field is C04's business (counted adj_unjudged_int_short); a cut "
    "inside or before a byte-string field is a short read / missing delimiter exactly when the field-by-field model "
    "says so (a regex delimiter such as \\x00+ may legitimately match a shorter run in the cut input)",
    "adjacent part: the cursor after each field is observed through the value of the next field, the end offset of "
    "unpack_impl and the acceptance / rejection of the input cut at that very point",
]

OPTSETS = {
    "g": {"generate_for_pack": False, "generate_for_unpack": False},
    "d": {},
    "nv": {"vectorize": False},
}
WINDOWS = [None, 0, 1, 2, 3, 4, 6]
SIZED_WINDOWS = [None, 2]

HEADER = "import re\nfrom bisturi.packet import Packet\nfrom bisturi.field import Int, Data, EOS\n\n"


# ---- sizing modes -----------------------------------------------------------------------------
class Mode:
    def __init__(self, mid, kind, arg, size=None, marker=None, pattern=None, alphabet=b"", delims=(), neutral=b"x",
                 judged=True):
        self.id = mid
        self.kind = kind            # 'sized' | 'lit' | 'rx' | 'eos'
        self.arg = arg              # source text of the Data argument
        self.size = size            # sized: f(s1, rawlen, offset) -> declared size
        self.marker = marker
        self.pattern = pattern
        self.rx = re.compile(pattern) if pattern is not None else None   # the oracle's own compiled object
        self.alphabet = alphabet
        self.delims = list(delims)
        self.neutral = neutral
        self.judged = judged


def _modes():
    ms = []
    for n in (0, 1, 2, 5):
        ms.append(Mode("const%d" % n, "sized", "%d" % n, size=(lambda s1, L, o, n=n: n)))
    ms.append(Mode("field", "sized", "s1", size=lambda s1, L, o: s1))
    ms.append(Mode("expr_mul2", "sized", "s1 * 2", size=lambda s1, L, o: s1 * 2))
    ms.append(Mode("expr_sub2", "sized", "s1 - 2", size=lambda s1, L, o: s1 - 2))
    ms.append(Mode("expr_rsub3", "sized", "3 - s1", size=lambda s1, L, o: 3 - s1))
    ms.append(Mode("call_and3", "sized", "lambda pkt, **k: pkt.s1 & 3", size=lambda s1, L, o: s1 & 3))
    ms.append(Mode("call_rest", "sized", "lambda pkt, raw, offset, **k: len(raw) - offset - 2",
                   size=lambda s1, L, o: L - o - 2))
    ms.append(Mode("call_half", "sized", "lambda pkt, **k: pkt.s1 / 2", size=lambda s1, L, o: s1 / 2, judged=False))
    for mid, m in (("nul", b"\x00"), ("ab", b"ab"), ("aab", b"aab"), ("crlf", b"\r\n"), ("colons", b"::")):
        ms.append(Mode("lit_" + mid, "lit", "until_marker=%r" % m, marker=m, alphabet=m + b"x", delims=[m]))
    for mid, pat, alpha, delims, neutral in (
            ("eol", rb"\r?\n", b"\r\nx", [b"\n", b"\r\n"], b"x"),
            ("nuls", rb"\x00+", b"\x00x", [b"\x00", b"\x00\x00\x00"], b"x"),
            ("set", rb"[;,]", b";,x", [b";", b","], b"x"),
            ("alt", rb"ab|a", b"abx", [b"ab", b"a"], b"x"),
            ("star", rb"x*;", b"x;y", [b";", b"xx;", b"x;"], b"y"),
            ("nl_or_end", rb"\n|$", b"\nx", [b"\n", b""], b"x")):
        ms.append(Mode("rx_" + mid, "rx", "until_marker=re.compile(%r)" % pat, pattern=pat, alphabet=alpha,
                       delims=delims, neutral=neutral))
    ms.append(Mode("eos", "eos", "until_marker=EOS", alphabet=b"$\nx"))
    return ms


MODES = _modes()
MODE_BY_ID = {m.id: m for m in MODES}


# ---- the reference model (the oracle) ---------------------------------------------------------
def model(mode, incl, W, tail, raw):
    """('ok', s1, value, s2|None, end, flags) | ('err', reason) | ('unjudged', reason)"""
    if len(raw) < 1:
        return ("unjudged", "s1_short")
    s1, o = raw[0], 1
    flags = []
    if mode.kind == "sized":
        n = mode.size(s1, len(raw), o)
        if not isinstance(n, int):
            return ("unjudged", "non_integer_size")
        if n < 0:
            return ("err", "negative_size")
        if o + n > len(raw):
            return ("err", "short_read")
        value, cur = raw[o:o + n], o + n
        if n == 0:
            flags.append("empty_value")
    elif mode.kind == "eos":
        value, cur = raw[o:], len(raw)
        if W and len(raw) - o > W:
            flags.append("eos_beyond_window")
    else:
        rest = raw[o:]
        win = rest[:W] if W else rest
        if mode.kind == "lit":
            def find(hay):
                i = hay.find(mode.marker)
                return None if i < 0 else (i, i + len(mode.marker))
        else:
            def find(hay):
                m = mode.rx.search(hay)
                return None if m is None else (m.start(), m.end())
        hit = find(win)
        unbounded = hit if win is rest else find(rest)
        if hit is None:
            if unbounded is None:
                return ("err", "missing_delimiter")
            if unbounded[0] < len(win):
                return ("err", "delimiter_straddles_window")
            return ("err", "delimiter_outside_window")
        ds, de = hit
        if unbounded != hit:
            flags.append("straddle_changes_match")     # the window edge cuts what an unbounded scan would take
        value = rest[:de if incl else ds]
        cur = o + de
        if ds == 0:
            flags.append("delimiter_at_cursor")
        if de == ds:
            flags.append("zero_length_delimiter")
        if W and de == len(win) == W:
            flags.append("delimiter_ends_at_window_edge")
        if mode.kind == "lit":
            if rest.find(mode.marker, ds + 1) >= 0:
                flags.append("later_occurrence")
            if len(mode.marker) > 1 and (raw[:1] + rest).find(mode.marker) == 0:
                flags.append("marker_across_s1")
            if len(mode.marker) > 1 and ds > 0 and rest[ds - 1:ds] == mode.marker[:1]:
                flags.append("overlapping_prefix")     # a partial match attempt right before the real one
        else:
            later = find(rest[de:] if de > ds else rest[de + 1:])
            if later is not None and later[1] > later[0]:
                flags.append("later_occurrence")
        if raw[:1] in mode.alphabet and raw[:1] != mode.neutral:
            flags.append("marker_byte_in_s1")
        if cur == len(raw):
            flags.append("delimiter_at_end_of_input")
    if tail:
        return ("ok", s1, value, None, cur, flags)
    if cur + 2 > len(raw):
        return ("unjudged", "s2_short")
    return ("ok", s1, value, int.from_bytes(raw[cur:cur + 2], "big"), cur + 2, flags)


def expected_pack(mode, incl, tail, s1, value, s2):
    """value followed by the excluded *literal* delimiter, between the sentinels. None = not judged."""
    if mode.kind == "rx" and not incl:
        return None
    delim = mode.marker if (mode.kind == "lit" and not incl) else b""
    return bytes([s1]) + value + delim + (b"" if tail else s2.to_bytes(2, "big"))


# ---- classes ----------------------------------------------------------------------------------
class Cls:
    __slots__ = ("name", "mode", "incl", "W", "opt", "tail", "src", "cls", "spec")

    def __init__(self, name, mode, incl, W, opt, tail):
        self.name, self.mode, self.incl, self.W, self.opt, self.tail = name, mode, incl, W, opt, tail
        opts = dict(OPTSETS[opt])
        if W is not None:
            opts["search_buffer_length"] = W
        arg = mode.arg
        if mode.kind != "sized":
            arg += ", include_delimiter=%r" % incl
        lines = ["class %s(Packet):" % name,
                 "    __bisturi__ = %r" % (opts,),
                 "    s1 = Int(1)",
                 "    d = Data(%s)" % arg]
        if not tail:
            lines.append("    s2 = Int(2)")
        self.src = "\n".join(lines) + "\n"
        self.cls = None
        self.spec = {"mode": mode.id, "incl": incl, "W": W, "opt": opt, "tail": tail}


def all_specs():
    """[(group_key, [Cls...])]: a group shares mode, window and tail (so: the adversarial inputs)."""
    groups = []
    n = 0
    for mode in MODES:
        if mode.kind == "sized":
            windows, incls, tails = SIZED_WINDOWS, [False], [False, True]
        elif mode.kind == "eos":
            windows, incls, tails = WINDOWS, [False, True], [True]
        else:
            windows, incls, tails = WINDOWS, [False, True], [False, True]
        for W in windows:
            for tail in tails:
                members = []
                for incl in incls:
                    for opt in OPTSETS:
                        members.append(Cls("D%d" % n, mode, incl, W, opt, tail))
                        n += 1
                groups.append(((mode.id, W, tail), members))
    return groups


def define(groups, scratch):
    """One small source module per group: inspect.getsourcelines re-parses the whole module for every
    class, so big modules make class definition quadratic."""
    from .. import render
    modules = []
    for _, members in groups:
        src = HEADER + "\n".join(c.src for c in members)
        module, _path = render.load_source(src, scratch)
        modules.append(module)
        for c in members:
            c.cls = getattr(module, c.name)
    return modules


def forget(modules):
    import sys
    for module in modules:
        prefix = module.__name__
        for k in [k for k in sys.modules if k == prefix or k.startswith(prefix + "_")]:
            sys.modules.pop(k, None)


# ---- input generators ---------------------------------------------------------------------------
def _rb(rng, n, alphabet=None):
    if alphabet:
        return bytes(rng.choice(alphabet) for _ in range(n))
    return bytes(rng.randrange(256) for _ in range(n))


def gen_delimited(rng, mode, W, tail):
    """One adversarial input for a delimited mode (the oracle decides what it means)."""
    alpha = mode.alphabet
    d = rng.choice(mode.delims) if rng.random() < 0.88 else None
    dl = len(d) if d is not None else 0
    if W:
        L = rng.choice([0, 0, 1, W - dl - 1, W - dl, W - dl, W - dl + 1, W - 1, W, W + 1, rng.randint(0, W + 3)])
    else:
        L = rng.choice([0, 0, 1, 2, 3, rng.randint(0, 10)])
    L = max(L, 0)
    kind = rng.random()
    if kind < 0.35:
        fill = mode.neutral * L
    elif kind < 0.60 and d:
        # overlapping prefixes: 'aaab' for marker 'aab', '\r\r\n', ':::' ...
        unit = d[:-1] if len(d) > 1 else mode.neutral
        fill = (unit * (L + 1))[:L] if rng.random() < 0.5 else (d[:1] * L)
    else:
        fill = _rb(rng, L, alpha)
    r = rng.random()
    if r < 0.45 and d:
        s1 = d[:1]                           # marker byte inside s1: the scan must start at the cursor
    elif r < 0.6:
        s1 = bytes([rng.choice(alpha)])
    else:
        s1 = bytes([rng.randrange(256)])
    body = fill + (d if d is not None else b"")
    if rng.random() < 0.08 and d and len(d) > 1:
        body = fill + d[:-1]                 # a marker cut short
    if not tail or rng.random() < 0.5:
        s2 = _rb(rng, 2, alpha) if rng.random() < 0.4 else _rb(rng, 2)
        body += s2
        t = rng.random()
        if t < 0.3:
            body += _rb(rng, rng.randint(1, 4), alpha)
        elif t < 0.45 and d is not None:
            body += mode.neutral + d + _rb(rng, 2)      # a later occurrence
    raw = s1 + body
    if rng.random() < 0.06 and len(raw) > 1:
        raw = raw[:rng.randint(1, len(raw))]
    return raw


def gen_random(rng, mode):
    alpha = mode.alphabet
    n = rng.choice([0, 1, 2, 3, 4, 5, 6, 8, 12])
    s1 = bytes([rng.choice(alpha)]) if rng.random() < 0.6 else bytes([rng.randrange(256)])
    return s1 + _rb(rng, n, alpha) + (_rb(rng, rng.choice([0, 2, 3])) if rng.random() < 0.5 else b"")


def gen_eos(rng, mode, W):
    n = rng.choice([0, 0, 1, 2, (W or 3) - 1, (W or 3), (W or 3) + 1, rng.randint(0, 12)])
    body = _rb(rng, max(n, 0), mode.alphabet if rng.random() < 0.6 else None)
    if rng.random() < 0.3:
        body += b"\n"                        # `$` proper would stop before a trailing newline; EOS takes everything
    return bytes([rng.randrange(256)]) + body


def gen_sized(rng, mode, tail):
    after = 0 if tail else 2
    if mode.id == "call_rest":
        n = rng.choice([0, 1, 2, 3, 4, rng.randint(0, 9)])
        return bytes([rng.randrange(256)]) + _rb(rng, n)
    s1 = rng.choice([0, 1, 2, 3, 4, 5, 6, 7, rng.randint(0, 12), rng.choice([127, 128, 255])])
    n = mode.size(s1, 0, 1)
    if not isinstance(n, int):
        n = int(n)
    need = max(n, 0) + after
    have = rng.choice([need, need, need, need - 1, need - 1, need - after - 1, need + 1, need + 3, 0, rng.randint(0, need + 2)])
    if n < 0:
        have = rng.choice([0, 1, 2, 3, 4, 5])
    return bytes([s1]) + _rb(rng, max(have, 0))


# ---- checks -------------------------------------------------------------------------------------
def _key(c, raw):
    return hashlib.blake2b(("%s|%s|%s|%s|%s|" % (c.mode.id, c.incl, c.W, c.opt, c.tail)).encode() + raw,
                           digest_size=8).hexdigest()


def _witness(c, raw, exp, got, origin):
    return {"op": "unpack", "declaration": HEADER + c.src, "spec": c.spec, "raw": raw, "origin": origin,
            "expected": exp, "got": got}


def check_unpack(run, c, raw, origin, PacketError, note="", extra=None):
    """Parse raw with the real class, compare with the model. Returns (model result, parsed packet or None).
    note: appended to the text of a violation; extra: more entries for its witness."""
    mode = c.mode
    exp = model(mode, c.incl, c.W, c.tail, raw)

    def _witness(c_, raw_, exp_, got_, origin_):
        w = {"op": "unpack", "declaration": HEADER + c_.src, "spec": c_.spec, "raw": raw_, "origin": origin_,
             "expected": exp_, "got": got_}
        if extra:
            w.update(extra)
        return w
    run.case(key=_key(c, raw), nontrivial=len(raw) >= 1)
    run.count("inputs_" + mode.kind)
    pkt, exc = None, None
    try:
        pkt = c.cls.unpack(raw)
    except PacketError as e:
        exc = e
    except Exception as e:           # noqa - anything else escaping unpack()
        exc = e

    if exp[0] == "unjudged":
        run.count("unjudged_" + exp[1])
        run.count("unjudged_%s_%s" % (exp[1], "raised" if exc is not None else "accepted"))
        return exp, None

    if exp[0] == "err":
        if exc is None:
            got = {"d": getattr(pkt, "d", None), "s1": getattr(pkt, "s1", None)}
            if not c.tail:
                got["s2"] = getattr(pkt, "s2", None)
            run.violation("%s accepted: unpack() returned a packet where the model demands an error%s" % (exp[1], note),
                          _witness(c, raw, {"error": exp[1]}, got, origin))
            return exp, None
        if not isinstance(exc, PacketError):
            run.violation("%s raised %s instead of PacketError%s" % (exp[1], type(exc).__name__, note),
                          _witness(c, raw, {"error": exp[1]}, {"exception": repr(exc)}, origin))
            return exp, None
        reason = {"delimiter_straddles_window": "delimiter_outside_window"}.get(exp[1], exp[1])
        run.count("err_%s_raised" % reason)
        if exp[1] == "delimiter_straddles_window":
            run.count("straddling_window_edge")
        run.count("unpack_errors_agreed")
        return exp, None

    _, s1, value, s2, end, flags = exp
    want = {"s1": s1, "d": value, "end": end}
    if not c.tail:
        want["s2"] = s2
    if exc is not None:
        run.violation("unpack() raised %s on an input the model parses%s" % (type(exc).__name__, note),
                      _witness(c, raw, want, {"exception": str(exc)[:400]}, origin))
        return exp, None
    got = {"s1": getattr(pkt, "s1", None), "d": getattr(pkt, "d", None)}
    if not c.tail:
        got["s2"] = getattr(pkt, "s2", None)
    # end offset through unpack_impl on a second packet
    try:
        p2 = c.cls(_initialize_fields=False)
        got["end"] = p2.unpack_impl(raw, 0, root=p2)
        got2 = getattr(p2, "d", None)
    except Exception as e:           # noqa
        got["end"] = "raised %s" % type(e).__name__
        got2 = None
    bad = None
    if got["d"] != value or type(got["d"]) is not bytes:
        bad = "value of the Data field differs from the model (%s)" % (
            "exact-length slice" if mode.kind == "sized" else
            "everything to the end" if mode.kind == "eos" else
            "up to the first delimiter in the window, delimiter %s" % ("included" if c.incl else "excluded"))
    elif got["s1"] != s1:
        bad = "sentinel s1 differs"
    elif not c.tail and got["s2"] != s2:
        bad = "sentinel s2 differs: the cursor was not left just past the field/delimiter"
    elif got["end"] != end:
        bad = "end offset differs: the cursor was not left just past the field/delimiter"
    elif got2 != value:
        bad = "second parse (unpack_impl) produced a different value"
    if bad:
        run.violation(bad + note, _witness(c, raw, want, got, origin))
        return exp, None
    run.count("unpack_ok_compared")
    run.count("end_offset_compared")
    if not c.tail:
        run.count("s2_sentinel_compared")
    if mode.kind == "eos":
        run.count("eos_compared")
    if mode.kind == "sized":
        run.count("sized_ok_compared")
    for f in flags:
        run.cover("flags_seen", f)
        run.count({"straddle_changes_match": "straddling_window_edge",
                   "later_occurrence": "later_occurrence_present",
                   "overlapping_prefix": "overlapping_prefix_before_delimiter",
                   "empty_value": "empty_value_sized"}.get(f, f))
    if not value:
        run.count("empty_values")
    return exp, pkt


def check_pack_bytes(run, c, pkt, s1, value, s2, how, PacketError, extra=None):
    """pack() must be s1 + value + excluded literal delimiter + s2. Returns the packed bytes or None."""
    want = expected_pack(c.mode, c.incl, c.tail, s1, value, s2)
    if want is None:
        run.count("pack_regex_excluded_delimiter_not_judged")
        return None
    try:
        got = pkt.pack()
    except Exception as e:           # noqa
        w = {"op": "pack", "declaration": HEADER + c.src, "spec": c.spec, "how": how,
             "values": {"s1": s1, "d": value, "s2": s2}, "expected": want, "got": {"exception": str(e)[:400]}}
        if extra:
            w.update(extra)
        run.violation("pack() raised %s" % type(e).__name__, w)
        return None
    if got != want:
        w = {"op": "pack", "declaration": HEADER + c.src, "spec": c.spec, "how": how,
             "values": {"s1": s1, "d": value, "s2": s2}, "expected": want, "got": got}
        if extra:
            w.update(extra)
        run.violation("pack() is not s1 + value%s%s" % (
            " + the excluded literal delimiter" if (c.mode.kind == "lit" and not c.incl) else "",
            "" if c.tail else " + s2"), w)
        return None
    run.count("pack_compared")
    if c.mode.kind == "lit" and not c.incl:
        run.count("pack_literal_delimiter_appended")
    return got


def one_input(run, c, raw, origin, PacketError):
    exp, pkt = check_unpack(run, c, raw, origin, PacketError)
    if pkt is None or exp[0] != "ok":
        return
    _, s1, value, s2, end, _flags = exp
    got = check_pack_bytes(run, c, pkt, s1, value, s2, "pack() of the packet parsed from raw", PacketError,
                           extra={"raw": raw})
    if got is not None:
        run.count("pack_of_parsed_equals_consumed_input")


def fresh_values(rng, c):
    """(s1, value, s2) for a freshly constructed packet, or None."""
    mode = c.mode
    s2 = rng.randrange(65536)
    if mode.kind == "sized":
        if not mode.judged:
            return None
        if mode.id.startswith("const"):
            n = mode.size(0, 0, 0)
            return rng.randrange(256), _rb(rng, n), s2
        L = rng.randint(0, 3)
        s1 = {"field": L, "expr_mul2": L, "expr_sub2": L + 2, "expr_rsub3": 3 - L,
              "call_and3": L + 4 * rng.randint(0, 60), "call_rest": rng.randrange(256)}[mode.id]
        if mode.id == "expr_mul2":
            L = 2 * L
        return s1, _rb(rng, L), s2
    L = rng.randint(0, 6)
    r = rng.random()
    if r < 0.5:
        value = mode.neutral * L                       # delimiter-free
    elif r < 0.75:
        value = bytes(b for b in _rb(rng, L) if b not in mode.alphabet or bytes([b]) == mode.neutral)
    else:
        value = _rb(rng, L, mode.alphabet)             # may contain the delimiter: pack still emits it verbatim
    if c.incl and mode.delims:
        value += rng.choice(mode.delims)
    s1 = rng.choice(mode.alphabet) if rng.random() < 0.5 else rng.randrange(256)
    return s1, value, s2


def fresh_pack(run, rng, c, PacketError):
    v = fresh_values(rng, c)
    if v is None:
        return
    s1, value, s2 = v
    kw = {"s1": s1, "d": value}
    if not c.tail:
        kw["s2"] = s2
    try:
        pkt = c.cls(**kw)
    except Exception as e:           # noqa - construction is not C06's business
        run.count("fresh_construction_failed")
        return
    packed = check_pack_bytes(run, c, pkt, s1, value, s2, "pack() of a freshly built packet", PacketError)
    if packed is None:
        if c.mode.kind == "rx" and not c.incl:
            return
        return
    exp, back = check_unpack(run, c, packed, "repack", PacketError)
    if back is not None and exp[0] == "ok" and exp[2] == value and exp[1] == s1 and (c.tail or exp[3] == s2):
        run.count("repack_roundtrip_value_preserved")
    elif exp[0] != "ok":
        run.count("repack_not_reparsable_per_model")   # value contains a delimiter / exceeds the window / size disagrees
    else:
        run.count("repack_reparsed_differently_per_model")


# =================================================================================================
# ---- wrapped / nested declarations --------------------------------------------------------------
# The same Data field, carried by the wrappers a declaration can put around it.  `c` is a one-byte
# control field (condition / count / key / position), s1 stays the size source of the sized modes.
#
#   when       d = Data(..).when(c | c == 1 | callable)                 false => None, nothing consumed
#   rep_count  d = Data(..).repeated(count=c | 2 | callable)            every element scans from its own cursor
#   rep_until  d = Data(..).repeated(until=callable)                    one or more elements
#   ref_sub    sub = Ref(S) [.repeated(2)], S = {s1, d = Data(..)[.when(s1) | .repeated(2)]} with its OWN
#              search_buffer_length, followed by e = Data(..) of the outer class (outer window)
#   selector   d = Ref(c.chooses({0: Data(..), 1: Data(<other>), 2: S()}))   literal fields / packet option
#   moved      d = Data(..).at(c | 3 | c,'begins') / .shift(c | 1)      the scan starts at the moved cursor
#
# Which window applies: `__bisturi__` options are defaults "per packet class" (docs/reference/03, 04), so
# a field of S reached through Ref uses S's search_buffer_length and the fields of the class itself - plain,
# .when(), .repeated(), .at()/.shift() - use the class's own.  For a literal Data handed out by a run-time
# selector no document says which class (if any) configures it: such a case is judged only when the outer
# window and no window give the same answer, otherwise it is counted (selector_literal_window_unspecified).
WRAP_MODE_IDS = ["const0", "const2", "field", "expr_sub2", "call_and3",
                 "lit_nul", "lit_ab", "lit_aab", "lit_crlf", "lit_colons",
                 "rx_eol", "rx_nuls", "rx_set", "rx_alt", "rx_star", "rx_nl_or_end", "eos"]
SHAPES = {"when": 3, "rep_count": 3, "rep_until": 2, "ref_sub": 4, "selector": 2, "moved": 5}   # shape -> variants
WRAP_WINDOWS = {"when": [None, 0, 2, 4], "rep_count": [None, 2, 4], "rep_until": [None, 2, 4],
                "selector": [None, 2, 4], "moved": [None, 2, 4]}
REF_WINDOWS = [(None, 3), (3, None), (2, 5), (5, 2), (0, 3)]           # (outer, sub-packet)
WHEADER = "import re\nfrom bisturi.packet import Packet\nfrom bisturi.field import Int, Data, Ref, EOS\n\n"
LOOP_CAP = 300
WINDOW_REASONS = ("delimiter_outside_window", "delimiter_straddles_window")
CONST1 = Mode("const1w", "sized", "1", size=lambda s1, L, o: 1)


class _Err(Exception):
    pass


class _Unj(Exception):
    pass


class _Skip(Exception):
    pass


def take(mode, incl, W, raw, o, s1):
    """The Data field read with the cursor at o.
    ('ok', value, cursor after, literal delimiter pack() must append | None = not determined, flags)
    | ('err', reason) | ('unjudged', reason)"""
    L = len(raw)
    if o > L or o < 0:
        return ("unjudged", "cursor_beyond_input")
    if mode.kind == "sized":
        n = mode.size(s1, L, o)
        if not isinstance(n, int):
            return ("unjudged", "non_integer_size")
        if n < 0:
            return ("err", "negative_size")
        if o + n > L:
            return ("err", "short_read")
        return ("ok", raw[o:o + n], o + n, b"", [])
    if mode.kind == "eos":
        return ("ok", raw[o:], L, b"", [])
    rest = raw[o:]
    win = rest[:W] if W else rest
    if mode.kind == "lit":
        def find(hay):
            i = hay.find(mode.marker)
            return None if i < 0 else (i, i + len(mode.marker))
    else:
        def find(hay):
            m = mode.rx.search(hay)
            return None if m is None else (m.start(), m.end())
    hit = find(win)
    unbounded = hit if win is rest else find(rest)
    if hit is None:
        if unbounded is None:
            return ("err", "missing_delimiter")
        if unbounded[0] < len(win):
            return ("err", "delimiter_straddles_window")
        return ("err", "delimiter_outside_window")
    ds, de = hit
    flags = []
    if W:
        flags.append("in_window_accept")
        if de == len(win) == W:
            flags.append("accept_ends_at_window_edge")
    if unbounded != hit:
        flags.append("window_edge_changes_match")
    if ds == 0:
        flags.append("delimiter_at_cursor")
    if incl:
        delim = b""
    elif mode.kind == "lit":
        delim = mode.marker
    else:
        delim = None
    return ("ok", rest[:de if incl else ds], o + de, delim, flags)


class _Reader:
    """Sequential reference parse of one input; pieces = what pack() must emit, in order."""

    def __init__(self, raw):
        self.raw, self.cur = raw, 0
        self.pieces, self.flags = [], []
        self.packable = True          # False once a regex delimiter was excluded (pack not determined)
        self.taken = 0                # Data elements actually read
        self.err_at = None

    def int1(self, why="hdr_short"):
        if self.cur + 1 > len(self.raw):
            raise _Unj(why)
        v = self.raw[self.cur]
        self.pieces.append(self.raw[self.cur:self.cur + 1])
        self.cur += 1
        return v

    def int2(self):
        if self.cur + 2 > len(self.raw) or self.cur < 0:
            raise _Unj("s2_short")
        v = int.from_bytes(self.raw[self.cur:self.cur + 2], "big")
        self.pieces.append(self.raw[self.cur:self.cur + 2])
        self.cur += 2
        return v

    def data(self, mode, incl, W, s1, where):
        r = take(mode, incl, W, self.raw, self.cur, s1)
        if r[0] == "err":
            self.err_at = where
            raise _Err(r[1])
        if r[0] == "unjudged":
            raise _Unj(r[1])
        _, value, cur, delim, flags = r
        progressed = cur > self.cur
        self.cur = cur
        self.taken += 1
        self.flags.extend(flags)
        if delim is None:
            self.packable = False
            self.pieces.append(value)
        else:
            self.pieces.append(value + delim)
            if delim:
                self.flags.append("literal_delimiter_to_append")
        return value, progressed


class WCls:
    __slots__ = ("name", "shape", "variant", "mode", "incl", "W", "Wsub", "opt", "subopt", "tail", "src", "cls",
                 "subcls", "spec")

    def __init__(self, name, shape, variant, mode, incl, W, Wsub, opt):
        self.name, self.shape, self.variant, self.mode, self.incl = name, shape, variant, mode, incl
        self.W, self.Wsub, self.opt = W, Wsub, opt
        self.tail = mode.kind == "eos"           # EOS takes everything: nothing can follow it
        # the sub-packet's code-generation options differ from the outer's for the odd variants
        self.subopt = opt if variant % 2 == 0 else {"g": "d", "d": "nv", "nv": "g"}[opt]
        self.cls = self.subcls = None
        self.spec = {"shape": shape, "variant": variant, "mode": mode.id, "incl": incl, "W": W, "Wsub": Wsub,
                     "opt": opt}
        self.src = self._source()

    def _arg(self, incl=None):
        arg = self.mode.arg
        if self.mode.kind != "sized":
            arg += ", include_delimiter=%r" % (self.incl if incl is None else incl)
        return "Data(%s)" % arg

    def _other(self):
        """the second literal option of the selector"""
        if self.mode.kind in ("lit", "rx"):
            return self._arg(not self.incl)
        return "Data(1)"

    def _opts(self, opt, W):
        o = dict(OPTSETS[opt])
        if W is not None:
            o["search_buffer_length"] = W
        return "    __bisturi__ = %r" % (o,)

    def _source(self):
        n, v, D = self.name, self.variant, self._arg()
        sub = []
        if self.shape in ("ref_sub", "selector"):
            inner = {0: D, 1: D, 2: D + ".when(s1)", 3: D + ".repeated(2)"}[v] if self.shape == "ref_sub" else D
            sub = ["class %s_S(Packet):" % n, self._opts(self.subopt, self.Wsub), "    s1 = Int(1)",
                   "    d = %s" % inner, ""]
        head = ["class %s(Packet):" % n, self._opts(self.opt, self.W), "    s1 = Int(1)"]
        if self.shape == "when":
            cond = ["c", "c == 1", "lambda pkt, **k: pkt.c & 1"][v]
            body = ["    c = Int(1)", "    d = %s.when(%s)" % (D, cond)]
        elif self.shape == "rep_count":
            cnt = ["c", "2", "lambda pkt, **k: pkt.c & 3"][v]
            body = ["    c = Int(1)", "    d = %s.repeated(count=%s)" % (D, cnt)]
        elif self.shape == "rep_until":
            unt = ["lambda pkt, **k: len(pkt.d) >= pkt.c", "lambda raw, offset, **k: offset >= len(raw) - 2"][v]
            body = ["    c = Int(1)", "    d = %s.repeated(until=%s)" % (D, unt)]
        elif self.shape == "ref_sub":
            body = ["    sub = Ref(%s_S)%s" % (n, ".repeated(2)" if v == 1 else ""), "    e = %s" % D]
        elif self.shape == "selector":
            if v == 0:
                sel = "c.chooses({0: %s, 1: %s, 2: %s_S()})" % (D, self._other(), n)
            else:
                sel = "lambda pkt, _o=(%s, %s, %s_S()), **k: _o[pkt.c]" % (D, self._other(), n)
            body = ["    c = Int(1)", "    d = Ref(%s, default=b'')" % sel]
        elif self.shape == "moved":
            mv = [".at(c)", ".shift(c)", ".at(3)", ".shift(1)", ".at(c, 'begins')"][v]
            body = ["    c = Int(1)", "    d = %s%s" % (D, mv)]
        else:
            raise ValueError(self.shape)
        tailf = [] if self.tail else ["    s2 = Int(2)"]
        return "\n".join(sub + head + body + tailf) + "\n"


def wrapped_specs(shard=0):
    """[(group_key, [WCls x 3 option sets])]; the variant of a shape rotates over (mode, include, window)."""
    groups, n = [], 0
    for mi, mid in enumerate(WRAP_MODE_IDS):
        mode = MODE_BY_ID[mid]
        incls = [False] if mode.kind == "sized" else [False, True]
        for shape, nvar in SHAPES.items():
            if shape == "ref_sub":
                windows = REF_WINDOWS[:2] if mode.kind == "sized" else REF_WINDOWS
            elif mode.kind == "sized":
                windows = [(None, 3), (2, None)]
            else:
                windows = [(W, {None: 3, 0: 2, 2: 5, 4: 2}[W]) for W in WRAP_WINDOWS[shape]]
            for ii, incl in enumerate(incls):
                for wi, (W, Wsub) in enumerate(windows):
                    variant = (mi + ii + wi + shard) % nvar      # every (window, variant) pair meets some mode
                    members = []
                    for opt in OPTSETS:
                        members.append(WCls("X%d" % n, shape, variant, mode, incl, W, Wsub, opt))
                        n += 1
                    groups.append(((shape, variant, mid, incl, W, Wsub), members))
    return groups


def define_wrapped(groups, scratch):
    from .. import render
    modules = []
    for _, members in groups:
        module, _path = render.load_source(WHEADER + "\n".join(c.src for c in members), scratch)
        modules.append(module)
        for c in members:
            c.cls = getattr(module, c.name)
            c.subcls = getattr(module, c.name + "_S", None)
    return modules


# ---- the reference model of a wrapped declaration -----------------------------------------------
def wmodel(wc, raw, litW="class", subW="own"):
    """('ok', want, end, expected pack | None, flags, info) | ('err', reason, where) | ('unjudged', reason)
    | ('skip', reason).   litW: window of a selector literal ('class' = the outer class's, None = none);
    subW: 'own' = the sub-packet's own window, 'outer' = (counter-factual) the outer class's."""
    mode, incl, v, shape = wc.mode, wc.incl, wc.variant, wc.shape
    W = wc.W
    Wsub = wc.Wsub if subW == "own" else wc.W
    r = _Reader(raw)
    want = {}
    info = {}
    try:
        s1 = want["s1"] = r.int1()
        if shape == "when":
            c = want["c"] = r.int1()
            proceed = [c != 0, c == 1, bool(c & 1)][v]
            before = r.cur
            want["d"] = r.data(mode, incl, W, s1, "d")[0] if proceed else None
            if not proceed:
                info["when_false"] = True
                assert r.cur == before
        elif shape == "rep_count":
            c = want["c"] = r.int1()
            cnt = [c, 2, c & 3][v]
            want["d"] = [r.data(mode, incl, W, s1, "d[%d]" % i)[0] for i in range(cnt)]
            info["elements"] = cnt
        elif shape == "rep_until":
            c = want["c"] = r.int1()
            out = []
            while True:
                value, progressed = r.data(mode, incl, W, s1, "d[%d]" % len(out))
                out.append(value)
                if (len(out) >= c) if v == 0 else (r.cur >= len(raw) - 2):
                    break
                if (v == 1 and not progressed) or len(out) > LOOP_CAP:
                    raise _Skip("sequence_would_not_terminate")
            want["d"] = out
            info["elements"] = len(out)
        elif shape == "ref_sub":
            def one_sub(tag):
                ss1 = r.int1("sub_s1_short")
                if v == 2:
                    d = r.data(mode, incl, Wsub, ss1, tag + ".d")[0] if ss1 != 0 else None
                elif v == 3:
                    d = [r.data(mode, incl, Wsub, ss1, "%s.d[%d]" % (tag, i))[0] for i in range(2)]
                else:
                    d = r.data(mode, incl, Wsub, ss1, tag + ".d")[0]
                return {"s1": ss1, "d": d}
            want["sub"] = [one_sub("sub[0]"), one_sub("sub[1]")] if v == 1 else one_sub("sub")
            want["e"] = r.data(mode, incl, W, s1, "e")[0]
        elif shape == "selector":
            c = want["c"] = r.int1()
            info["key"] = c
            if c == 0:
                want["d"] = r.data(mode, incl, W if litW == "class" else litW, s1, "d")[0]
            elif c == 1:
                if mode.kind in ("lit", "rx"):
                    want["d"] = r.data(mode, not incl, W if litW == "class" else litW, s1, "d")[0]
                else:
                    want["d"] = r.data(CONST1, False, None, s1, "d")[0]
            elif c == 2:
                ss1 = r.int1("sub_s1_short")
                want["d"] = {"s1": ss1, "d": r.data(mode, incl, Wsub, ss1, "d.d")[0]}
            else:
                raise _Unj("selector_key_without_option")
        elif shape == "moved":
            c = want["c"] = r.int1()
            pos = [c, r.cur + c, 3, r.cur + 1, c][v]
            info["moved_to"], info["moved_from"] = pos, r.cur
            r.cur = pos
            npieces = len(r.pieces)
            want["d"] = r.data(mode, incl, W, s1, "d")[0]
        if not wc.tail:
            want["s2"] = r.int2()
    except _Err as e:
        return ("err", str(e), r.err_at)
    except _Unj as e:
        return ("unjudged", str(e))
    except _Skip as e:
        return ("skip", str(e))
    info["taken"] = r.taken
    if not r.packable:
        pack = None
    elif shape == "moved":
        # the bytes put into the gap are not this property's business: header, position, body
        pack = ("moved", b"".join(r.pieces[:npieces]), info["moved_to"], b"".join(r.pieces[npieces:]))
    else:
        pack = b"".join(r.pieces)
    return ("ok", want, r.cur, pack, r.flags, info)


# ---- inputs for wrapped declarations -------------------------------------------------------------
def wseg(rng, mode, W):
    """fill + delimiter for one delimited element, lengths around the window edge"""
    d = rng.choice(mode.delims) if rng.random() < 0.9 else None
    dl = len(d) if d is not None else 0
    if W:
        L = rng.choice([0, 1, W - dl - 1, W - dl, W - dl, W - dl + 1, W - dl + 1, W - 1, W, W + 1, W + 2, rng.randint(0, W + 3)])
    else:
        L = rng.choice([0, 1, 2, 3, 5, rng.randint(0, 9)])
    L = max(L, 0)
    k = rng.random()
    if k < 0.45:
        fill = mode.neutral * L
    elif k < 0.65 and d:
        unit = d[:-1] if len(d) > 1 else mode.neutral
        fill = (unit * (L + 1))[:L] if rng.random() < 0.5 else (d[:1] * L)
    else:
        fill = _rb(rng, L, mode.alphabet)
    if d is not None and len(d) > 1 and rng.random() < 0.06:
        return fill + d[:-1]
    return fill + (d if d is not None else b"")


def gen_wrapped(rng, wc):
    mode, shape, v = wc.mode, wc.shape, wc.variant

    def s1byte():
        if mode.kind == "sized":
            return rng.choice([0, 1, 2, 2, 3, 4, 5, 6, rng.randint(0, 9), rng.choice([127, 255])])
        r = rng.random()
        if r < 0.4 and mode.delims:
            d = rng.choice(mode.delims)
            if d:
                return d[0]
        return rng.choice(mode.alphabet) if r < 0.6 else rng.randrange(256)

    def elem(W, s1):
        if mode.kind == "sized":
            n = mode.size(s1, 0, 0)
            return _rb(rng, max(n, 0) if n < 12 else rng.randint(0, 6))
        if mode.kind == "eos":
            return _rb(rng, rng.choice([0, 1, 2, 3, 5]), mode.alphabet)
        return wseg(rng, mode, W)

    def anyW():
        return rng.choice([wc.W, wc.W, wc.Wsub])

    s1 = s1byte()
    out = bytes([s1])
    if shape == "when":
        c = rng.choice([[0, 1, 1, 2, 255], [0, 1, 1, 1, 2], [0, 1, 1, 2, 3]][v])
        out += bytes([c]) + elem(wc.W, s1)
    elif shape == "rep_count":
        c = rng.choice([0, 1, 2, 2, 3, 3, 5, 6]) if v != 1 else rng.randrange(256)
        cnt = [c, 2, c & 3][v]
        k = max(cnt + rng.choice([0, 0, 0, 0, 1, -1]), 0)
        out += bytes([c]) + b"".join(elem(wc.W, s1) for _ in range(k))
    elif shape == "rep_until":
        c = rng.choice([0, 1, 2, 2, 3])
        k = max(c, 1) if v == 0 else rng.choice([1, 2, 3])
        k = max(k + rng.choice([0, 0, 0, 0, 1, -1]), 0)
        out += bytes([c]) + b"".join(elem(wc.W, s1) for _ in range(k))
    elif shape == "ref_sub":
        for _ in range(2 if v == 1 else 1):
            ss1 = s1byte()
            out += bytes([ss1]) + b"".join(elem(anyW(), ss1) for _ in range(2 if v == 3 else 1))
        out += elem(anyW(), s1)
    elif shape == "selector":
        c = rng.choice([0, 0, 0, 1, 1, 2, 2, 2]) if rng.random() < 0.96 else rng.choice([3, 7, 255])
        out += bytes([c])
        if c == 2:
            ss1 = s1byte()
            out += bytes([ss1]) + elem(anyW(), ss1)
        elif c == 1 and mode.kind not in ("lit", "rx"):
            out += _rb(rng, 1)
        else:
            out += elem(wc.W, s1)
    elif shape == "moved":
        r = rng.random()
        if v in (0, 4):
            c = rng.choice([2, 2, 2, 3, 4, 5]) if r < 0.86 else rng.choice([0, 1]) if r < 0.94 else rng.choice([40, 200])
            gap = max(c - 2, 0)
        elif v == 1:
            c = rng.choice([0, 0, 1, 2, 3]) if r < 0.93 else rng.choice([40, 200])
            gap = c
        else:
            c, gap = rng.randrange(256), 1
        if gap > 8:
            gap = rng.choice([0, 3])
        # the gap carries marker bytes: the scan must not start before the moved cursor
        out += bytes([c]) + _rb(rng, gap, mode.alphabet or None) + elem(wc.W, s1)
    closed = False
    if not wc.tail or rng.random() < 0.3:
        out += _rb(rng, 2, mode.alphabet) if (mode.alphabet and rng.random() < 0.4) else _rb(rng, 2)
        closed = True
    if not (shape == "rep_until" and v == 1 and rng.random() < 0.8):
        t = rng.random()
        if t < 0.2:
            out += _rb(rng, rng.randint(1, 3), mode.alphabet or None)
        elif t < 0.35 and mode.delims and closed:
            out += mode.neutral + rng.choice(mode.delims)
    if rng.random() < 0.07 and len(out) > 2:
        out = out[:rng.randint(2, len(out))]
    return out


# ---- executing one wrapped case ---------------------------------------------------------------------
def _obs(x):
    """what a user reads from a parsed packet, as plain data (sub-packets -> {'s1','d'})"""
    if isinstance(x, (bytes, int)) or x is None:
        return x
    if isinstance(x, list):
        return [_obs(i) for i in x]
    if hasattr(x, "get_fields"):
        return {"s1": _obs(getattr(x, "s1", "<unset>")), "d": _obs(getattr(x, "d", "<unset>"))}
    return "<%s %r>" % (type(x).__name__, x)


def _same(a, b):
    if type(a) is not type(b):
        return False
    if isinstance(a, list):
        return len(a) == len(b) and all(_same(x, y) for x, y in zip(a, b))
    if isinstance(a, dict):
        return a.keys() == b.keys() and all(_same(a[k], b[k]) for k in a)
    return a == b


def _wkey(wc, raw):
    s = wc.spec
    return hashlib.blake2b(("w|%s|%s|%s|%s|%s|%s|%s|" % (s["shape"], s["variant"], s["mode"], s["incl"], s["W"],
                                                          s["Wsub"], s["opt"])).encode() + raw,
                           digest_size=8).hexdigest()


def _wwitness(wc, raw, exp, got, origin, op="unpack"):
    return {"op": op, "declaration": WHEADER + wc.src, "class": wc.name, "spec": wc.spec, "raw": raw,
            "origin": origin, "expected": exp, "got": got}


def _wfields(wc):
    names = {"ref_sub": ["s1", "sub", "e"]}.get(wc.shape, ["s1", "c", "d"])
    return names + ([] if wc.tail else ["s2"])


def _pack_matches(want, got):
    if isinstance(want, tuple):
        _, head, pos, body = want
        if pos < len(head):
            return None                                   # moved backwards over the header: not judged
        return got[:len(head)] == head and len(got) == pos + len(body) and got[pos:] == body
    return got == want


def check_wrapped(run, wc, raw, origin, PacketError):
    """Parse raw with the real wrapped class and compare with wmodel. Returns the model result when the
    parse agreed with an 'ok' model, else None."""
    exp = wmodel(wc, raw)
    if exp[0] == "skip":
        run.count("wrapped_skipped_" + exp[1])
        return None
    shape = wc.shape
    run.case(key=_wkey(wc, raw), nontrivial=len(raw) >= 2)
    run.count("wrapped_inputs")
    run.count("wrapped_inputs_" + shape)
    unspecified = False
    if shape == "selector" and wc.W and exp[0] != "unjudged":
        alt = wmodel(wc, raw, litW=None)
        if alt[:3] != exp[:3]:
            unspecified = True
    pkt, exc = None, None
    try:
        pkt = wc.cls.unpack(raw)
    except Exception as e:           # noqa
        exc = e
    if unspecified:
        run.count("selector_literal_window_unspecified_not_judged")
        run.count("selector_literal_window_unspecified_%s" % ("raised" if exc is not None else "accepted"))
        return None
    if exp[0] == "unjudged":
        run.count("wrapped_unjudged_" + exp[1])
        return None

    # would the *other* class's window have decided differently? (ref_sub / selector packet option)
    decisive = None
    windows_differ = (bool(wc.W) != bool(wc.Wsub)) or bool(wc.W and wc.Wsub and wc.W != wc.Wsub)
    if wc.subcls is not None and windows_differ:
        if shape == "ref_sub" or (shape == "selector" and raw[1:2] == b"\x02"):
            alt = wmodel(wc, raw, subW="outer")
            if alt[0] != exp[0] or (exp[0] == "ok" and alt[1] != exp[1]) or (exp[0] == "err" and alt[1:] != exp[1:]):
                decisive = alt[0]

    if exp[0] == "err":
        _, reason, where = exp
        if exc is None:
            run.violation("%s accepted in a %s declaration: unpack() returned a packet where the model demands an "
                          "error at %s" % (reason, shape, where),
                          _wwitness(wc, raw, {"error": reason, "at": where},
                                    {f: _obs(getattr(pkt, f, "<unset>")) for f in _wfields(wc)}, origin))
            return None
        if not isinstance(exc, PacketError):
            run.violation("%s in a %s declaration raised %s instead of PacketError" % (reason, shape, type(exc).__name__),
                          _wwitness(wc, raw, {"error": reason, "at": where}, {"exception": repr(exc)[:300]}, origin))
            return None
        run.count("wrapped_unpack_errors_agreed")
        if reason in WINDOW_REASONS:
            run.count("wrapped_window_rejections")
            inner = where is not None and (where.startswith("sub") or where.startswith("d.d"))
            tag = shape
            if shape == "selector":
                tag = "selector_packet" if inner else "selector_literal"
            run.count("wrapped_window_rejections_" + tag)
            if shape == "ref_sub":
                run.count("wrapped_window_rejections_ref_sub_" + ("inner" if inner else "outer_field_after_sub"))
            if reason == "delimiter_straddles_window":
                run.count("wrapped_straddling_window_edge")
            run.cover("wrapped_window_rejected_in", "%s/%d" % (shape, wc.variant))
        else:
            run.count("wrapped_err_%s_raised" % reason)
            run.cover("wrapped_err_in", "%s/%s" % (shape, reason))
        if decisive is not None:
            run.count("wrapped_nested_window_decisive")
            run.count("wrapped_nested_reject_outer_window_would_%s" % ("accept" if decisive == "ok" else "differ"))
        return None

    _, want, end, wpack, flags, info = exp
    if exc is not None:
        run.violation("unpack() of a %s declaration raised %s on an input the model parses" % (shape, type(exc).__name__),
                      _wwitness(wc, raw, dict(want, end=end), {"exception": str(exc)[:400]}, origin))
        return None
    got = {f: _obs(getattr(pkt, f, "<unset>")) for f in _wfields(wc)}
    try:
        p2 = wc.cls(_initialize_fields=False)
        got_end = p2.unpack_impl(raw, 0, root=p2)
        got2 = {f: _obs(getattr(p2, f, "<unset>")) for f in _wfields(wc)}
    except Exception as e:           # noqa
        got_end, got2 = "raised %s" % type(e).__name__, None
    bad = None
    if not _same(got, want):
        diff = [f for f in _wfields(wc) if not _same(got.get(f), want.get(f))]
        if diff[0] in ("d", "sub", "e"):
            if info.get("when_false"):
                bad = "condition false but the field is not None"
            else:
                bad = "value of the wrapped Data field (%s, %s) differs from the model" % (shape, diff[0])
        elif diff[0] == "s2":
            bad = "sentinel s2 differs in a %s declaration: the cursor was not left just past the field/delimiter%s" % (
                shape, " (condition false: nothing may be consumed)" if info.get("when_false") else "")
        else:
            bad = "field %s differs" % diff[0]
    elif got_end != end:
        bad = "end offset differs in a %s declaration: the cursor was not left just past the field/delimiter" % shape
    elif not _same(got2, want):
        bad = "second parse (unpack_impl) produced different values"
    if bad:
        run.violation(bad, _wwitness(wc, raw, dict(want, end=end), dict(got, end=got_end), origin))
        return None
    run.count("wrapped_unpack_ok_compared")
    run.count("wrapped_unpack_ok_" + shape)
    run.count("wrapped_end_offset_compared")
    if not wc.tail:
        run.count("wrapped_s2_sentinel_compared")
    run.cover("wrapped_shapes", "%s/%d" % (shape, wc.variant))
    run.cover("wrapped_modes", wc.mode.id)
    run.cover("wrapped_option_sets", "%s+%s" % (wc.opt, wc.subopt) if wc.subcls is not None else wc.opt)
    if info.get("when_false"):
        run.count("wrapped_when_false_nothing_consumed")
    elif shape == "when":
        run.count("wrapped_when_true_compared")
    if shape in ("rep_count", "rep_until"):
        run.count("wrapped_sequence_elements_compared", info.get("elements", 0))
        if info.get("elements", 0) >= 2:
            run.count("wrapped_sequences_of_two_or_more")
        if info.get("elements") == 0:
            run.count("wrapped_sequences_empty")
    if shape == "selector":
        run.count("wrapped_selector_key_%d" % info["key"])
    if shape == "moved":
        d = info["moved_to"] - info["moved_from"]
        run.count("wrapped_moved_forward" if d > 0 else "wrapped_moved_in_place" if d == 0 else "wrapped_moved_backwards")
    for f in set(flags):
        run.count({"in_window_accept": "wrapped_in_window_accepts",
                   "accept_ends_at_window_edge": "wrapped_accept_ends_at_window_edge",
                   "window_edge_changes_match": "wrapped_straddling_window_edge",
                   "delimiter_at_cursor": "wrapped_delimiter_at_cursor",
                   "literal_delimiter_to_append": "wrapped_literal_delimiter_excluded"}[f])
        if f == "in_window_accept":
            run.count("wrapped_in_window_accepts_" + shape)
    if decisive is not None:
        run.count("wrapped_nested_window_decisive")
        run.count("wrapped_nested_accept_outer_window_would_%s" % ("reject" if decisive == "err" else "differ"))

    # pack() of the parsed packet: every value followed by its excluded literal delimiter
    if wpack is None:
        run.count("wrapped_pack_regex_excluded_delimiter_not_judged")
        return exp
    check_wrapped_pack(run, wc, pkt, wpack, want, flags, "pack() of the packet parsed from raw", raw)
    return exp


def check_wrapped_pack(run, wc, pkt, wpack, values, flags, how, raw=None):
    try:
        out = pkt.pack()
    except Exception as e:           # noqa
        if isinstance(wpack, tuple) and wpack[2] < len(wpack[1]):
            run.count("wrapped_pack_moved_backwards_not_judged")
            return None
        w = _wwitness(wc, raw, wpack if not isinstance(wpack, tuple) else list(wpack), {"exception": str(e)[:400]}, how, "pack")
        w["values"] = values
        run.violation("pack() of a %s declaration raised %s" % (wc.shape, type(e).__name__), w)
        return None
    ok = _pack_matches(wpack, out)
    if ok is None:
        run.count("wrapped_pack_moved_backwards_not_judged")
        return None
    if not ok:
        w = _wwitness(wc, raw, wpack if not isinstance(wpack, tuple) else list(wpack), out, how, "pack")
        w["values"] = values
        run.violation("pack() of a %s declaration is not the fields in order, each Data value followed by its excluded "
                      "literal delimiter" % wc.shape, w)
        return None
    run.count("wrapped_pack_compared")
    run.count("wrapped_pack_compared_" + wc.shape)
    if "literal_delimiter_to_append" in flags:
        run.count("wrapped_pack_literal_delimiter_appended")
    return out


def wrapped_fresh(run, rng, wc, PacketError):
    """A freshly built packet: pack() must emit value + excluded literal delimiter for every wrapped Data value;
    the bytes are then parsed again (and judged against the model like any other input)."""
    mode, shape, v = wc.mode, wc.shape, wc.variant
    if mode.kind == "rx" and not wc.incl:
        return                                   # delimiter not determined by the value

    def val(s1):
        if mode.kind == "sized":
            n = mode.size(s1, 0, 0)
            return _rb(rng, n) if 0 <= n < 16 else None
        L = rng.randint(0, 4)
        value = mode.neutral * L if rng.random() < 0.7 else _rb(rng, L, mode.alphabet)
        if wc.incl and mode.delims:
            value += rng.choice(mode.delims)
        return value

    def s1v():
        if mode.kind == "sized":
            return {"const0": rng.randrange(256), "const2": rng.randrange(256), "field": rng.randint(0, 4),
                    "expr_sub2": rng.randint(2, 6), "call_and3": rng.randrange(256)}[mode.id]
        return rng.randrange(256)

    delim = mode.marker if (mode.kind == "lit" and not wc.incl) else b""
    s1 = s1v()
    s2 = rng.randrange(65536)
    tailb = b"" if wc.tail else s2.to_bytes(2, "big")
    kw = {"s1": s1}
    if not wc.tail:
        kw["s2"] = s2
    flags = ["literal_delimiter_to_append"] if delim else []
    try:
        if shape == "when":
            c = rng.choice([0, 1, 2, 3])
            d = val(s1) if rng.random() < 0.8 else None
            kw.update(c=c, d=d)
            want = bytes([s1, c]) + (d + delim if d is not None else b"") + tailb
            if d is None:
                flags = []
        elif shape in ("rep_count", "rep_until"):
            k = rng.choice([0, 1, 2, 3])
            ds = [val(s1) for _ in range(k)]
            if any(x is None for x in ds):
                return
            c = k if rng.random() < 0.7 else rng.randrange(256)
            kw.update(c=c, d=ds)
            want = bytes([s1, c]) + b"".join(x + delim for x in ds) + tailb
            if not ds:
                flags = []
        elif shape == "ref_sub":
            def mk():
                ss1 = s1v()
                if v == 3:
                    d = [val(ss1), val(ss1)]
                    if None in d:
                        return None
                    return wc.subcls(s1=ss1, d=d), bytes([ss1]) + b"".join(x + delim for x in d)
                d = val(ss1)
                if d is None:
                    return None
                return wc.subcls(s1=ss1, d=d), bytes([ss1]) + d + delim
            subs = [mk() for _ in range(2 if v == 1 else 1)]
            e = val(s1)
            if None in subs or e is None:
                return
            kw.update(sub=[s[0] for s in subs] if v == 1 else subs[0][0], e=e)
            want = bytes([s1]) + b"".join(s[1] for s in subs) + e + delim + tailb
        elif shape == "selector":
            c = rng.choice([0, 0, 2])
            if c == 0:
                d = val(s1)
                if d is None:
                    return
                kw.update(c=c, d=d)
                want = bytes([s1, c]) + d + delim + tailb
            else:
                ss1 = s1v()
                d = val(ss1)
                if d is None:
                    return
                kw.update(c=c, d=wc.subcls(s1=ss1, d=d))
                want = bytes([s1, c]) + bytes([ss1]) + d + delim + tailb
        elif shape == "moved":
            d = val(s1)
            if d is None:
                return
            c = rng.choice([2, 3, 5]) if v in (0, 4) else rng.choice([0, 1, 3]) if v == 1 else rng.randrange(256)
            pos = [c, 2 + c, 3, 3, c][v]
            kw.update(c=c, d=d)
            want = ("moved", bytes([s1, c]), pos, d + delim + tailb)
        else:
            return
        pkt = wc.cls(**kw)
    except Exception:                # noqa - construction is not C06's business
        run.count("wrapped_fresh_construction_failed")
        return
    values = {k: _obs(x) for k, x in kw.items()}
    out = check_wrapped_pack(run, wc, pkt, want, values, flags, "pack() of a freshly built packet")
    if out is None:
        return
    run.count("wrapped_fresh_pack_compared")
    exp = check_wrapped(run, wc, out, "repack", PacketError)
    if exp is not None and exp[0] == "ok" and all(_same(exp[1].get(k), values[k]) for k in values):
        run.count("wrapped_repack_roundtrip_values_preserved")
    else:
        run.count("wrapped_repack_not_identical_per_model")   # value contains a delimiter, exceeds the window, when false...


def run_wrapped(run, PacketError, n_shared, n_private, n_fresh):
    from .. import common
    shard, _ = run.shard
    rng = rng_for(run.seed, "c06-wrapped", shard)
    scratch = common.scratch_dir("bvf_c06w_")
    groups = wrapped_specs(shard)
    modules = []
    try:
        modules = define_wrapped(groups, scratch)
        run.count("wrapped_classes_defined", sum(len(m) for _, m in groups))
        run.count("wrapped_subpacket_classes_defined", sum(1 for _, m in groups for c in m if c.subcls is not None))
        sampled = 0
        for gkey, members in groups:
            shared = [gen_wrapped(rng, members[0]) for _ in range(n_shared)]
            for wc in members:
                for raw in shared:
                    check_wrapped(run, wc, raw, "adversarial", PacketError)
                for _ in range(n_private):
                    check_wrapped(run, wc, gen_wrapped(rng, wc), "random", PacketError)
                for _ in range(n_fresh):
                    wrapped_fresh(run, rng, wc, PacketError)
                if run.counters["violations"] > 40:
                    return
            if sampled < 6 and members[0].W and members[0].mode.kind in ("lit", "rx") and shared and \
                    gkey[0] == list(SHAPES)[sampled % len(SHAPES)]:
                exp = wmodel(members[0], shared[0])
                run.sample({"declaration": members[0].src, "raw": shared[0],
                            "model": [exp[0], exp[1]] + ([exp[2]] if len(exp) > 2 else [])})
                sampled += 1
    finally:
        forget(modules)
        common.drop_scratch(scratch)


# =================================================================================================
# ---- context-sensitive regex delimiters ---------------------------------------------------------
# Regex delimiters whose match depends on bytes *around* the candidate position: look-behinds, word
# boundaries, anchors (context before the cursor) and a look-ahead (context beyond the window edge).
#
# What is the "first regex match at or after the cursor" when a zero-width assertion at the cursor looks at
# the byte before it?  Two readings:
#   copy      the regex is searched on the bytes from the cursor on, re.search(raw[o:o+W]): the cursor is the
#             start of the searched text (what the pinned library does);
#   in place  the regex is searched inside the parsed text from position o, the bytes of the *earlier fields*
#             remain visible to look-behinds / \b / ^ (the library source itself carries the note "should be
#             (raw, offset) or (raw[offset:], 0) ?"; neither the statement nor docs/reference decide it).
# What the docs do fix (02_from_and_to_bytes.md): `Packet.unpack(raw, offset=k)` is `Packet.unpack(raw[k:])`
# without the copy - the first k bytes are *ignored*.  So the parsed text starts at k under every reading, and
# the in-place reading is `rx.search(raw[k:], o-k, o-k+W)`.  A case is judged when both readings give the same
# result (always so for the first field of the packet, whatever byte precedes the start offset); the others are
# counted (ctx_contested_not_judged, with a tally of the reading the library followed).  The far edge is fixed
# by the docs of search_buffer_length ("will not attempt to scan further") and by `endpos` of both readings:
# a look-ahead cannot see beyond the window.
CTX_WINDOWS = [None, 3, 5]
CTX_SHAPES = ["first", "after_int", "after_tag", "two", "sub", "sub_first"]
CTX_SUBOPT = {"g": "d", "d": "nv", "nv": "g"}


class CtxMode:
    def __init__(self, mid, family, pattern, alphabet, dchar, closers, adv, neutral, flags=0, flags_src=""):
        self.id, self.kind, self.family = mid, "rx", family
        self.pattern, self.flags = pattern, flags
        self.rx = re.compile(pattern, flags)                 # the oracle's own compiled object
        self.arg = "until_marker=re.compile(%r%s)" % (pattern, flags_src)
        self.alphabet = alphabet
        self.dchar = dchar                                   # the delimiter's own byte
        self.closers = closers                               # tails that contain a match whatever precedes them
        self.adv = adv                                       # adversarial bytes to put right before the cursor
        self.neutral = neutral


CTX_MODES = [
    CtxMode("cx_lb_unescaped_quote", "lookbehind", rb'(?<!\\)"', b'\\"x', b'"', [b'x"'], b'\\\\\\"x', b"x"),
    CtxMode("cx_lb_after_x", "lookbehind", rb"(?<=x);", b"x;y", b";", [b"x;"], b"xxx;y", b"y"),
    CtxMode("cx_lb_not_after_lower", "lookbehind", rb"(?<![a-z]);", b"a;.", b";", [b".;"], b"aaz;.", b"."),
    CtxMode("cx_wordb_dash", "boundary", rb"\b-", b"a-.", b"-", [b"a-"], b"aa_9-.", b"."),
    CtxMode("cx_nonwordb_semi", "boundary", rb"\B;", b"a;.", b";", [b".;"], b"aa_0;.", b"."),
    CtxMode("cx_caret_semi_or_comma", "anchor", rb"^;|,", b";,x\n", b";", [b","], b";x\n\n", b"x"),
    CtxMode("cx_bos_semi", "anchor", rb"\A;", b";x", b";", [b""], b";x\n", b"x"),
    CtxMode("cx_mline_caret_hash", "anchor", rb"(?m)^#", b"#\nx", b"#", [b"\n#"], b"\n\n#x", b"x"),
    CtxMode("cx_mline_flag_caret_dot", "anchor", rb"^\.", b".\nx", b".", [b"\n."], b"\n\n.x", b"x",
            flags=re.M, flags_src=", re.M"),
    CtxMode("cx_la_semi_before_semi", "lookahead", rb";(?=;)", b";x", b";", [b";;"], b";;x", b"x"),
]
CTX_MODE_BY_ID = {m.id: m for m in CTX_MODES}


class CCls:
    __slots__ = ("name", "shape", "mode", "incl", "W", "opt", "subopt", "src", "cls", "subcls", "spec")

    def __init__(self, name, shape, mode, incl, W, opt):
        self.name, self.shape, self.mode, self.incl, self.W, self.opt = name, shape, mode, incl, W, opt
        self.subopt = CTX_SUBOPT[opt] if shape == "sub" else opt
        self.cls = self.subcls = None
        self.spec = {"ctx": True, "shape": shape, "mode": mode.id, "incl": incl, "W": W, "opt": opt}
        D = "Data(%s, include_delimiter=%r)" % (mode.arg, incl)

        def opts(o):
            d = dict(OPTSETS[o])
            if W is not None:
                d["search_buffer_length"] = W
            return "    __bisturi__ = %r" % (d,)
        sub = []
        if shape in ("sub", "sub_first"):
            sub = ["class %s_S(Packet):" % name, opts(self.subopt), "    d = %s" % D] + \
                  (["    t = Int(1)"] if shape == "sub" else []) + [""]
        body = {"first": ["    d = %s" % D],
                "after_int": ["    s1 = Int(1)", "    d = %s" % D],
                "after_tag": ["    tag = Data(2)", "    d = %s" % D],
                "two": ["    s1 = Int(1)", "    d = %s" % D, "    e = %s" % D],
                "sub": ["    s1 = Int(1)", "    sub = Ref(%s_S)" % name],
                "sub_first": ["    sub = Ref(%s_S)" % name]}[shape]
        self.src = "\n".join(sub + ["class %s(Packet):" % name, opts(opt)] + body + ["    s2 = Int(2)"]) + "\n"


CTX_FIELDS = {"first": ["d", "s2"], "after_int": ["s1", "d", "s2"], "after_tag": ["tag", "d", "s2"],
              "two": ["s1", "d", "e", "s2"], "sub": ["s1", "sub", "s2"], "sub_first": ["sub", "s2"]}


def ctx_specs():
    groups, n = [], 0
    for mode in CTX_MODES:
        for W in CTX_WINDOWS:
            for shape in CTX_SHAPES:
                members = []
                for incl in (False, True):
                    for opt in OPTSETS:
                        members.append(CCls("K%d" % n, shape, mode, incl, W, opt))
                        n += 1
                groups.append(((mode.id, W, shape), members))
    return groups


def ctx_model(cc, raw, k, reading):
    """Sequential reference parse of raw from the start offset k.
    reading: 'copy' = search raw[o:o+W]; 'start' = search inside raw[k:] from the cursor (bytes before k ignored,
    as documented); 'whole' = search inside the whole raw from the cursor (counter-factual, never an expectation).
    ('ok', want, end, pack bytes | None, flags) | ('err', reason) | ('unjudged', reason)"""
    mode, incl, W, shape = cc.mode, cc.incl, cc.W, cc.shape
    rx, L = mode.rx, len(raw)
    base = {"copy": None, "start": k, "whole": 0}[reading]
    view = raw if base in (None, 0) else raw[base:]
    st = {"cur": k, "packable": True}
    pieces, flags, want = [], [], {}

    def search(o, end):
        if base is None:
            m = rx.search(raw[o:end])
            return None if m is None else (o + m.start(), o + m.end())
        m = rx.search(view, o - base, end - base)
        return None if m is None else (base + m.start(), base + m.end())

    def fixed(n, why, as_int=True):
        o = st["cur"]
        if o + n > L:
            raise _Unj(why)
        st["cur"] = o + n
        pieces.append(raw[o:o + n])
        return int.from_bytes(raw[o:o + n], "big") if as_int else raw[o:o + n]

    def data(inner=False):
        o = st["cur"]
        end = min(o + W, L) if W else L
        hit = search(o, end)
        unbounded = hit if end == L else search(o, L)
        if hit is None:
            if unbounded is not None and unbounded[1] <= end:
                # the delimiter bytes lie inside the window, only what the look-ahead wants to see lies beyond it
                flags.append("lookahead_context_beyond_window")
            raise _Err("missing_delimiter" if unbounded is None else "delimiter_outside_window")
        ds, de = hit
        if unbounded != hit:
            flags.append("window_edge_changes_match")
        if W:
            flags.append("in_window_accept")
        if ds == o:
            flags.append("delimiter_at_cursor")
        if de == ds:
            flags.append("zero_length_delimiter")
        if o > k:
            flags.append("after_earlier_field")
        if inner:
            flags.append("in_sub_packet")
        st["cur"] = de
        if incl:
            pieces.append(raw[o:de])
            return raw[o:de]
        st["packable"] = False           # a regex delimiter that is not kept has no defined re-emission
        pieces.append(raw[o:ds])
        return raw[o:ds]

    try:
        if shape == "after_int":
            want["s1"] = fixed(1, "s1_short")
        elif shape == "after_tag":
            want["tag"] = fixed(2, "tag_short", as_int=False)
        elif shape in ("two", "sub"):
            want["s1"] = fixed(1, "s1_short")
        if shape in ("sub", "sub_first"):
            sub = {"d": data(inner=True)}
            if shape == "sub":
                sub["t"] = fixed(1, "sub_t_short")
            want["sub"] = sub
        else:
            want["d"] = data()
            if shape == "two":
                want["e"] = data()
        want["s2"] = fixed(2, "s2_short")
    except _Err as e:
        return ("err", str(e), flags)
    except _Unj as e:
        return ("unjudged", str(e))
    return ("ok", want, st["cur"], b"".join(pieces) if st["packable"] else None, flags)


def _ctx_verdict(m):
    """what a reading demands, reduced to what is compared (any missing-delimiter reason is just 'an error')"""
    return ("err",) if m[0] == "err" else m[:3]


def _cobs(x):
    if isinstance(x, (bytes, int)) or x is None:
        return x
    if hasattr(x, "get_fields"):
        return {name: _cobs(getattr(x, name, "<unset>")) for name, _f, _p, _u in x.get_fields()}
    return "<%s %r>" % (type(x).__name__, x)


def gen_ctx(rng, cc, tier="quick"):
    """(raw, start offset): the byte before the start offset and the last byte of every sentinel are adversarial."""
    mode, shape, W = cc.mode, cc.shape, cc.W
    alpha = mode.alphabet

    def adv(p=0.65):
        r = rng.random()
        if r < p:
            return bytes([rng.choice(mode.adv)])
        return bytes([rng.choice(alpha)]) if r < 0.85 else bytes([rng.randrange(256)])

    def elem():
        n = rng.choice([0, 0, 1, 2, 3, (W or 4) - 2, (W or 4) - 1, (W or 4), (W or 4) + 1, rng.randint(0, 8)])
        body = mode.neutral * n if rng.random() < 0.3 else _rb(rng, n, alpha)
        if rng.random() < 0.6:
            body = mode.dchar + body                       # a delimiter byte right at the cursor
        if rng.random() < 0.75:
            body += rng.choice(mode.closers)
        return body

    k = rng.choice([0, 0, 1, 1, 2, 3] if tier == "quick" else [0, 0, 1, 1, 2, 3, 5, 9])
    out = (_rb(rng, k - 1, alpha) + adv(0.8)) if k else b""
    if shape in ("after_int", "two", "sub"):
        out += adv()
    elif shape == "after_tag":
        out += _rb(rng, 1, alpha) + adv()
    out += elem()
    if shape == "two":
        out += elem()
    elif shape == "sub":
        out += _rb(rng, 1, alpha)
    out += _rb(rng, 2, alpha) if rng.random() < 0.4 else _rb(rng, 2)
    t = rng.random()
    if t < 0.25:
        out += _rb(rng, rng.randint(1, 3), alpha)
    if rng.random() < 0.05 and len(out) > k + 1:
        out = out[:rng.randint(k + 1, len(out))]
    return out, k


def _ckey(cc, raw, k):
    s = cc.spec
    return hashlib.blake2b(("x|%s|%s|%s|%s|%s|%d|" % (s["shape"], s["mode"], s["incl"], s["W"], s["opt"], k)).encode()
                           + raw, digest_size=8).hexdigest()


def _cwitness(cc, raw, k, exp, got, origin, op="unpack"):
    return {"op": op, "declaration": WHEADER + cc.src, "class": cc.name, "spec": cc.spec, "raw": raw,
            "start_offset": k, "call": "%s.unpack(raw, offset=%d)" % (cc.name, k), "origin": origin,
            "expected": exp, "got": got}


def check_ctx(run, cc, raw, k, origin, PacketError):
    """Parse raw from offset k with the real class; judge where both readings of 'first regex match at or after
    the cursor' agree. Returns the model result when an 'ok' expectation was met, else None."""
    mode, shape = cc.mode, cc.shape
    A = ctx_model(cc, raw, k, "copy")
    B = ctx_model(cc, raw, k, "start")
    run.case(key=_ckey(cc, raw, k), nontrivial=len(raw) > k)
    run.count("ctx_inputs")
    pkt, exc = None, None
    try:
        pkt = cc.cls.unpack(raw, k)
    except Exception as e:           # noqa
        exc = e
    if A[0] == "unjudged" or B[0] == "unjudged":
        run.count("ctx_unjudged_" + (A[1] if A[0] == "unjudged" else B[1]))
        return None
    fields = CTX_FIELDS[shape]
    got = None if exc is not None else {f: _cobs(getattr(pkt, f, "<unset>")) for f in fields}
    if _ctx_verdict(A) != _ctx_verdict(B):
        # bytes of an *earlier field* decide the match: the statement does not say whether they are visible
        run.count("ctx_contested_not_judged")
        run.count("ctx_contested_not_judged_" + mode.family)
        run.cover("ctx_contested_in", "%s/%s" % (mode.id, shape))
        follows = []
        for tag, m in (("cursor_copy_reading", A), ("in_place_reading", B)):
            if (m[0] == "err" and exc is not None) or (m[0] == "ok" and exc is None and _same(got, m[1])):
                follows.append(tag)
        run.count("ctx_contested_library_follows_" + ("_and_".join(follows) if follows else "neither"))
        return None

    F = ctx_model(cc, raw, k, "whole")
    decisive = F[0] == "unjudged" or _ctx_verdict(F) != _ctx_verdict(A)

    def tally_decisive():
        run.count("ctx_start_offset_decisive")
        run.count("ctx_start_offset_decisive_" + mode.family)
        run.count("ctx_start_offset_decisive_" + ("with_window" if cc.W else "without_window"))
        run.count("ctx_start_offset_decisive_include_" + ("on" if cc.incl else "off"))
        if shape in ("sub", "sub_first"):
            run.count("ctx_start_offset_decisive_nested")
        run.cover("ctx_start_offset_decisive_in", "%s/%s" % (mode.id, shape))

    why = "%s [judged: both readings of 'first regex match at or after the cursor' demand this"
    if decisive:
        why += "; a search that lets the bytes before the start offset of unpack() - ignored per docs/reference/02 - " \
               "take part in the match gives something else"
    why += "]"

    def _cw(exp, got_):
        w = _cwitness(cc, raw, k, exp, got_, origin)
        if decisive:
            w["in_place_search_over_the_whole_raw_would_give"] = \
                {"error": F[1]} if F[0] == "err" else {"short_input": F[1]} if F[0] == "unjudged" else dict(F[1], end=F[2])
            w["bytes_before_start_offset"] = raw[:k]
        return w
    if A[0] == "err":
        if exc is None:
            run.violation(why % ("%s accepted: unpack() returned a packet where the model demands an error" % A[1]),
                          _cw({"error": A[1]}, got))
            return None
        if not isinstance(exc, PacketError):
            run.violation("%s raised %s instead of PacketError" % (A[1], type(exc).__name__),
                          _cw({"error": A[1]}, {"exception": repr(exc)[:300]}))
            return None
        run.count("ctx_errors_agreed")
        run.count("ctx_err_%s_raised" % A[1])
        if "lookahead_context_beyond_window" in A[2]:
            run.count("ctx_lookahead_blocked_by_window_edge")
        if decisive:
            tally_decisive()
        return None

    _, want, end, wpack, flags = A
    if exc is not None:
        run.violation(why % ("unpack() raised %s on an input the model parses" % type(exc).__name__),
                      _cw(dict(want, end=end), {"exception": str(exc)[:400]}))
        return None
    try:
        p2 = cc.cls(_initialize_fields=False)
        got_end = p2.unpack_impl(raw, k, root=p2)
        got2 = {f: _cobs(getattr(p2, f, "<unset>")) for f in fields}
    except Exception as e:           # noqa
        got_end, got2 = "raised %s" % type(e).__name__, None
    bad = None
    if not _same(got, want):
        diff = [f for f in fields if not _same(got.get(f), want.get(f))]
        if diff[0] in ("d", "e", "sub"):
            bad = "value of the regex-delimited field %s differs from the first match at or after the cursor, " \
                  "delimiter %s" % (diff[0], "included" if cc.incl else "excluded")
        elif diff[0] == "s2":
            bad = "sentinel s2 differs: the cursor was not left just past the delimiter"
        else:
            bad = "field %s differs" % diff[0]
    elif got_end != end:
        bad = "end offset differs: the cursor was not left just past the delimiter"
    elif not _same(got2, want):
        bad = "second parse (unpack_impl) produced different values"
    if bad:
        run.violation(why % bad, _cw(dict(want, end=end), dict(got, end=got_end)))
        return None
    run.count("ctx_unpack_ok_compared")
    run.count("ctx_end_offset_compared")
    run.count("ctx_unpack_ok_" + shape)
    run.cover("ctx_modes", mode.id)
    run.cover("ctx_windows", "unset" if cc.W is None else cc.W)
    run.cover("ctx_option_sets", "%s+%s" % (cc.opt, cc.subopt) if cc.subcls is not None else cc.opt)
    if k:
        run.count("ctx_start_offset_nonzero_compared")
    if decisive:
        tally_decisive()
    fl = set(flags)
    for f in fl:
        run.count({"window_edge_changes_match": "ctx_window_edge_changes_match",
                   "in_window_accept": "ctx_in_window_accepts",
                   "delimiter_at_cursor": "ctx_delimiter_at_cursor",
                   "zero_length_delimiter": "ctx_zero_length_delimiter",
                   "after_earlier_field": "ctx_after_earlier_field_compared",
                   "in_sub_packet": "ctx_in_sub_packet_compared"}[f])
    sidx = {"after_int": k, "two": k, "sub": k, "after_tag": k + 1}.get(shape)
    if sidx is not None and raw[sidx] in mode.adv:
        run.count("ctx_adversarial_sentinel_byte_compared")   # backslash / word character / newline / the delimiter
    if k and raw[k - 1] in mode.adv:
        run.count("ctx_adversarial_byte_before_start_offset_compared")

    if wpack is None:
        run.count("ctx_pack_regex_excluded_delimiter_not_judged")
        return A
    check_ctx_pack(run, cc, pkt, wpack, want, "pack() of the packet parsed from raw", raw, k)
    return A


def check_ctx_pack(run, cc, pkt, wpack, values, how, raw=None, k=0):
    try:
        out = pkt.pack()
    except Exception as e:           # noqa
        w = _cwitness(cc, raw, k, wpack, {"exception": str(e)[:400]}, how, "pack")
        w["values"] = values
        run.violation("pack() of a packet with a kept regex delimiter raised %s" % type(e).__name__, w)
        return None
    if out != wpack:
        w = _cwitness(cc, raw, k, wpack, out, how, "pack")
        w["values"] = values
        run.violation("pack() is not the fields in order, each value with its kept regex delimiter", w)
        return None
    run.count("ctx_pack_compared")
    return out


def ctx_fresh(run, rng, cc, PacketError):
    """A freshly built packet whose values keep their delimiter: pack() = the fields in order; parsed again."""
    mode, shape = cc.mode, cc.shape
    if not cc.incl:
        return

    def val():
        n = rng.randint(0, 3)
        return (mode.neutral * n if rng.random() < 0.6 else _rb(rng, n, mode.alphabet)) + \
            rng.choice(mode.closers + [mode.dchar])
    s2 = rng.randrange(65536)
    s1 = rng.choice(mode.adv) if rng.random() < 0.6 else rng.randrange(256)
    try:
        if shape == "first":
            kw = {"d": val()}
            want = kw["d"]
        elif shape == "after_int":
            kw = {"s1": s1, "d": val()}
            want = bytes([s1]) + kw["d"]
        elif shape == "after_tag":
            kw = {"tag": _rb(rng, 1, mode.alphabet) + bytes([s1]), "d": val()}
            want = kw["tag"] + kw["d"]
        elif shape == "two":
            kw = {"s1": s1, "d": val(), "e": val()}
            want = bytes([s1]) + kw["d"] + kw["e"]
        elif shape == "sub":
            d, t = val(), rng.randrange(256)
            kw = {"s1": s1, "sub": cc.subcls(d=d, t=t)}
            want = bytes([s1]) + d + bytes([t])
        else:
            d = val()
            kw = {"sub": cc.subcls(d=d)}
            want = d
        kw["s2"] = s2
        want += s2.to_bytes(2, "big")
        pkt = cc.cls(**kw)
    except Exception:                # noqa - construction is not C06's business
        run.count("ctx_fresh_construction_failed")
        return
    values = {f: _cobs(x) for f, x in kw.items()}
    out = check_ctx_pack(run, cc, pkt, want, values, "pack() of a freshly built packet")
    if out is None:
        return
    run.count("ctx_fresh_pack_compared")
    exp = check_ctx(run, cc, out, 0, "repack", PacketError)
    if exp is not None and all(_same(exp[1].get(f), values[f]) for f in values):
        run.count("ctx_repack_roundtrip_values_preserved")
    else:
        run.count("ctx_repack_not_identical_per_model")      # value holds an earlier match, exceeds the window, contested


def define_ctx(groups, scratch):
    from .. import render
    modules = []
    for _, members in groups:
        module, _path = render.load_source(WHEADER + "\n".join(c.src for c in members), scratch)
        modules.append(module)
        for c in members:
            c.cls = getattr(module, c.name)
            c.subcls = getattr(module, c.name + "_S", None)
    return modules


def run_ctx(run, PacketError, n_shared, n_private, n_fresh):
    from .. import common
    shard, _ = run.shard
    rng = rng_for(run.seed, "c06-ctx", shard)
    scratch = common.scratch_dir("bvf_c06x_")
    groups = ctx_specs()
    modules = []
    try:
        modules = define_ctx(groups, scratch)
        run.count("ctx_classes_defined", sum(len(m) for _, m in groups))
        sampled = 0
        for gkey, members in groups:
            shared = [gen_ctx(rng, members[0], run.tier) for _ in range(n_shared)]
            for cc in members:
                for raw, k in shared:
                    check_ctx(run, cc, raw, k, "adversarial", PacketError)
                for _ in range(n_private):
                    raw, k = gen_ctx(rng, cc, run.tier)
                    check_ctx(run, cc, raw, k, "random", PacketError)
                for _ in range(n_fresh):
                    ctx_fresh(run, rng, cc, PacketError)
                if run.counters["violations"] > 40:
                    return
            if sampled < 2 and gkey[2] == "sub_first" and gkey[1] and shared:
                raw, k = shared[0]
                run.sample({"declaration": members[0].src, "raw": raw, "start_offset": k,
                            "model_copy_reading": list(ctx_model(members[0], raw, k, "copy")[:3]),
                            "model_in_place_reading": list(ctx_model(members[0], raw, k, "start")[:3])}, cap=8)
                sampled += 1
    finally:
        forget(modules)
        common.drop_scratch(scratch)


# =================================================================================================
# ---- regex delimiters compiled with flags -------------------------------------------------------
# A regex delimiter is the compiled pattern object the declaration hands over, flags included: `re.compile(b'end',
# re.IGNORECASE)` stops at b'END' as well.  The oracle is the first part's `model()` with the oracle's own object
# compiled from the same (pattern, flags); the counter-factual "plain reading" - the same pattern text without its
# flags (for a pure literal: a bytes search of the text) - tells for which inputs the flags decide the outcome.
FLAG_WINDOWS = [None, 0, 3, 5]
_RX_SPECIAL = b".^$*+?{}[]\\|()"


class FlagMode(Mode):
    def __init__(self, mid, family, pattern, flags, flags_src, alphabet, delims, neutral, plain=None, canon=None):
        Mode.__init__(self, mid, "rx", "until_marker=re.compile(%r%s)" % (pattern, flags_src), pattern=pattern,
                      alphabet=alphabet, delims=delims, neutral=neutral)
        self.rx = re.compile(pattern, flags)          # the oracle's own compiled object, flags included
        self.family = family
        self.flags = flags
        self.plain_rx = re.compile(pattern if plain is None else plain)     # the same text read without its flags
        self.canon = canon                            # the literal text the pattern spells (None: not a literal)
        self.pure_literal = not any(b in _RX_SPECIAL for b in pattern) and not (flags & re.X)
        twin = Mode.__new__(Mode)
        twin.__dict__.update(self.__dict__)
        twin.rx = self.plain_rx
        self.plain_twin = twin


_END_ALPHA = b"endENDx"
FLAG_MODES = [
    # the first delimiter of every list is the occurrence written exactly as in the pattern text
    FlagMode("fl_i_end", "ignorecase_literal", b"end", re.I, ", re.IGNORECASE", _END_ALPHA,
             [b"end", b"END", b"End", b"eNd"], b"x", canon=b"end"),
    FlagMode("fl_i_crlf", "ignorecase_literal", b"\r\n", re.I, ", re.IGNORECASE", b"\r\nx", [b"\r\n"], b"x",
             canon=b"\r\n"),
    FlagMode("fl_i_X", "ignorecase_literal", b"X", re.I, ", re.I", b"Xxy", [b"X", b"x"], b"y", canon=b"X"),
    FlagMode("fl_i_class", "ignorecase_nonliteral", rb"[a-c]+;", re.I, ", re.IGNORECASE", b"abBC;z",
             [b"a;", b"B;", b"Cb;", b"AC;"], b"z"),
    FlagMode("fl_s_dot", "dotall", rb"<.>", re.S, ", re.DOTALL", b"<>\na", [b"<a>", b"<\n>", b"<<>"], b"a"),
    FlagMode("fl_m_semis", "multiline_literal", b";;", re.M, ", re.MULTILINE", b";x", [b";;"], b"x", canon=b";;"),
    FlagMode("fl_m_semi_eol", "multiline", rb";$", re.M, ", re.MULTILINE", b";\nx", [b";", b";\n"], b"x"),
    FlagMode("fl_x_end", "verbose", b"e n d  # the end mark", re.X, ", re.VERBOSE", b"end #x", [b"end"], b"x"),
    FlagMode("fl_ix_end", "verbose", b"e n d  # the end mark", re.I | re.X, ", re.IGNORECASE | re.VERBOSE",
             b"endEND x", [b"end", b"END", b"enD"], b"x"),
    FlagMode("fl_a_nonword", "ascii", rb"\W", re.A, ", re.ASCII", b"aZ_9;\xe9", [b";", b"\xe9"], b"a"),
    FlagMode("fl_inline_i_end", "inline", rb"(?i)end", 0, "", _END_ALPHA, [b"end", b"END", b"End", b"enD"], b"x",
             plain=b"end", canon=b"end"),
    FlagMode("fl_inline_scoped_e", "inline", rb"(?i:e)nd", 0, "", _END_ALPHA, [b"end", b"End"], b"x",
             plain=b"end", canon=b"end"),
    FlagMode("fl_is_a_dot_b", "ignorecase_dotall", rb"a.b", re.I | re.S, ", re.I | re.S", b"abAB\nx",
             [b"axb", b"A\nB", b"a\nb", b"AxB"], b"x"),
]
FLAG_DECISIVE_FAMILIES = ("ignorecase_literal", "ignorecase_nonliteral", "dotall", "multiline", "verbose", "inline",
                          "ignorecase_dotall")
MODE_BY_ID.update({m.id: m for m in FLAG_MODES})


def flag_specs():
    groups, n = [], 0
    for mode in FLAG_MODES:
        for W in FLAG_WINDOWS:
            for tail in (False, True):
                members = []
                for incl in (False, True):
                    for opt in OPTSETS:
                        members.append(Cls("G%d" % n, mode, incl, W, opt, tail))
                        n += 1
                groups.append(((mode.id, W, tail), members))
    return groups


def gen_flagged(rng, mode, W, tail):
    """fill + an occurrence in some case + sentinel + (half of the time) a later occurrence spelled as in the pattern"""
    alpha = mode.alphabet
    d = rng.choice(mode.delims) if rng.random() < 0.9 else None
    dl = len(d) if d is not None else 0
    if W:
        L = rng.choice([0, 1, W - dl - 1, W - dl, W - dl, W - dl + 1, W - 1, W, W + 1, rng.randint(0, W + 3)])
    else:
        L = rng.choice([0, 1, 2, 3, 3, rng.randint(0, 9)])
    L = max(L, 0)
    k = rng.random()
    if k < 0.5:
        fill = mode.neutral * L
    elif k < 0.7 and d and len(d) > 1:
        fill = (d[:-1] * (L + 1))[:L]                  # 'ENEN' right before 'END'
    else:
        fill = _rb(rng, L, alpha)
    r = rng.random()
    if r < 0.4 and d:
        s1 = d[:1]
    elif r < 0.6:
        s1 = bytes([rng.choice(alpha)])
    else:
        s1 = bytes([rng.randrange(256)])
    body = fill + (d if d is not None else b"")
    if not tail or rng.random() < 0.6:
        body += _rb(rng, 2, alpha) if rng.random() < 0.3 else _rb(rng, 2)
        t = rng.random()
        if t < 0.5:
            body += mode.neutral + mode.delims[0] + _rb(rng, 2)       # the same-case occurrence, further on
        elif t < 0.65:
            body += _rb(rng, rng.randint(1, 4), alpha)
    raw = s1 + body
    if rng.random() < 0.05 and len(raw) > 1:
        raw = raw[:rng.randint(1, len(raw))]
    return raw


def _flag_note(c, raw, exp):
    """(text for a violation, witness entries, decisive?)"""
    mode = c.mode
    plain = model(mode.plain_twin, c.incl, c.W, c.tail, raw)
    decisive = (plain[0] != exp[0]) if "err" in (plain[0], exp[0]) else plain[:5] != exp[:5]
    extra = {"delimiter": mode.arg}
    note = ""
    if decisive:
        note = " [regex delimiter compiled with flags: the model is Python's re search of the same compiled pattern; " \
               "the pattern text read without its flags gives something else]"
        extra["same_pattern_text_without_its_flags_would_give"] = \
            {"error": plain[1]} if plain[0] == "err" else {"short_input": plain[1]} if plain[0] == "unjudged" else \
            {"d": plain[2], "s2": plain[3], "end": plain[4]}
    return note, extra, decisive


def flg_input(run, c, raw, origin, PacketError):
    mode = c.mode
    exp0 = model(mode, c.incl, c.W, c.tail, raw)
    note, extra, decisive = _flag_note(c, raw, exp0) if exp0[0] != "unjudged" else ("", None, False)
    v0 = run.counters["violations"]
    exp, pkt = check_unpack(run, c, raw, origin, PacketError, note=note, extra=extra)
    run.count("flg_inputs")
    if exp[0] == "unjudged" or run.counters["violations"] != v0:
        return exp, None

    def tally_decisive():
        run.count("flg_flags_decisive")
        run.count("flg_decisive_" + mode.family)
        run.count("flg_decisive_" + ("with_window" if c.W else "without_window"))
        run.count("flg_decisive_include_" + ("on" if c.incl else "off"))
        run.count("flg_decisive_opt_" + c.opt)
        if mode.pure_literal:
            run.count("flg_decisive_pure_literal_pattern")
        run.cover("flg_decisive_in", mode.id)
    if exp[0] == "err":
        run.count("flg_errors_agreed")
        run.count("flg_err_%s_raised" % {"delimiter_straddles_window": "delimiter_outside_window"}.get(exp[1], exp[1]))
        if decisive:
            tally_decisive()
            run.count("flg_decisive_error_demanded")
        return exp, None
    if pkt is None:
        return exp, None
    _, s1, value, s2, end, _flags = exp
    run.count("flg_unpack_ok_compared")
    run.count("flg_end_offset_compared")
    run.cover("flg_modes", mode.id)
    run.cover("flg_windows", "unset" if c.W is None else c.W)
    if decisive:
        tally_decisive()
    # what kind of occurrence decided? (on the bytes from the cursor on, as the model)
    rest = raw[1:]
    win = rest[:c.W] if c.W else rest
    m = mode.rx.search(win)
    pm = mode.plain_rx.search(rest)
    if mode.canon is not None and m.group() != mode.canon:
        run.count("flg_first_match_differs_in_case_from_pattern_text")
    if pm is None:
        run.count("flg_only_flag_dependent_occurrence_found")
        if mode.canon is not None:
            run.count("flg_only_case_different_occurrence_found")
    elif pm.start() > m.start():
        run.count("flg_earlier_flag_dependent_occurrence_wins")
        if mode.canon is not None and pm.group() == mode.canon:
            run.count("flg_same_case_occurrence_beyond_case_different_one")
    elif pm.span() == m.span():
        run.count("flg_occurrence_spelled_as_the_pattern")
    got = check_pack_bytes(run, c, pkt, s1, value, s2, "pack() of the packet parsed from raw", PacketError,
                           extra={"raw": raw})
    if got is not None:
        run.count("flg_pack_compared")
    return exp, pkt


def flg_fresh(run, rng, c, PacketError):
    a = run.counters["repack_roundtrip_value_preserved"]
    b = run.counters["pack_compared"]
    fresh_pack(run, rng, c, PacketError)
    if run.counters["pack_compared"] > b:
        run.count("flg_fresh_pack_compared")
    if run.counters["repack_roundtrip_value_preserved"] > a:
        run.count("flg_repack_roundtrip_value_preserved")


def run_flags(run, PacketError, n_shared, n_private, n_fresh):
    from .. import common
    shard, _ = run.shard
    rng = rng_for(run.seed, "c06-flags", shard)
    scratch = common.scratch_dir("bvf_c06f_")
    groups = flag_specs()
    modules = []
    try:
        modules = define(groups, scratch)
        run.count("flg_classes_defined", sum(len(m) for _, m in groups))
        sampled = 0
        for (mid, W, tail), members in groups:
            mode = MODE_BY_ID[mid]
            shared = [gen_flagged(rng, mode, W, tail) for _ in range(n_shared)]
            for c in members:
                for raw in shared:
                    flg_input(run, c, raw, "adversarial", PacketError)
                for _ in range(n_private):
                    raw = gen_flagged(rng, mode, W, tail) if rng.random() < 0.6 else gen_random(rng, mode)
                    flg_input(run, c, raw, "random", PacketError)
                for _ in range(n_fresh):
                    flg_fresh(run, rng, c, PacketError)
                if run.counters["violations"] > 40:
                    return
            if sampled < 2 and mode.canon == b"end" and W and not tail:
                for raw in shared:
                    exp = model(mode, False, W, tail, raw)
                    if exp[0] == "ok" and _flag_note(members[0], raw, exp)[2]:
                        run.sample({"declaration": members[0].src, "raw": raw, "model": list(exp[:5])}, cap=10)
                        sampled += 1
                        break
    finally:
        forget(modules)
        common.drop_scratch(scratch)


# =================================================================================================
# ---- several byte-string fields next to each other ----------------------------------------------
# Layouts in which byte-string fields are neighbours: runs of Data(n) of the same size, of different sizes,
# next to Ints of several widths / byte orders / signedness, a fixed field between two delimited ones, two
# delimited fields in a row, Data(n) followed by Data(field).  Every field is read on its own: the model walks
# the declaration in order and calls `take()` for each Data field (exact-length slice / first delimiter within
# the window, from the cursor the previous field left).  Every input the model parses is also cut at every
# point before its end: the model says which cut is a short read / missing delimiter of a byte-string field
# (judged) and which one falls into an Int (C04's business, counted).
class AField:
    __slots__ = ("name", "kind", "src", "n", "signed", "little", "mode", "incl", "ref")

    def __init__(self, name, kind, src, n=None, signed=False, little=False, mode=None, incl=False, ref=None):
        self.name, self.kind, self.src, self.n = name, kind, src, n
        self.signed, self.little, self.mode, self.incl, self.ref = signed, little, mode, incl, ref


def _ai(name, n, signed=False, little=False):
    src = "Int(%d%s%s)" % (n, ", signed=True" if signed else "", ", endianness='little'" if little else "")
    return AField(name, "int", src, n=n, signed=signed, little=little)


_ACONST = {}


def _ac(name, n):
    if n not in _ACONST:
        _ACONST[n] = Mode("const%d_adj" % n, "sized", "%d" % n, size=(lambda s1, L, o, n=n: n))
    return AField(name, "data", "Data(%d)" % n, n=n, mode=_ACONST[n])


def _ad(name, mid, incl=False):
    mode = MODE_BY_ID[mid]
    return AField(name, "data", "Data(%s, include_delimiter=%r)" % (mode.arg, incl), mode=mode, incl=incl)


def _af(name, ref):
    return AField(name, "data", "Data(%s)" % ref, mode=MODE_BY_ID["field"], ref=ref)


class ALayout:
    def __init__(self, lid, family, fields):
        self.id, self.family, self.fields = lid, family, fields
        self.data = [f for f in fields if f.kind == "data"]
        self.delimited = any(f.mode.kind in ("lit", "rx") for f in self.data)
        self.packable = not any(f.mode.kind == "rx" and not f.incl for f in self.data)
        self.refs = {f.ref for f in self.data if f.ref}
        self.windows = [None, 3] if self.delimited else [None]
        self.alphabet = b"".join(f.mode.alphabet for f in self.data if f.mode.alphabet)
        # runs of two or more neighbouring constant-size Data fields of one size
        self.same_size_run = 0
        run_ = 0
        prev = None
        for f in fields:
            if f.kind == "data" and f.mode.kind == "sized" and f.ref is None and f.n == prev:
                run_ += 1
            else:
                run_ = 1
            prev = f.n if (f.kind == "data" and f.mode.kind == "sized" and f.ref is None) else None
            self.same_size_run = max(self.same_size_run, run_ if prev is not None else 0)


def _layouts():
    ls = []

    def add(lid, family, *fields):
        ls.append(ALayout(lid, family, list(fields)))
    for n in (1, 2, 6):
        add("pair%d" % n, "same_size_pair", _ac("a", n), _ac("b", n))
        add("pair%d_framed" % n, "same_size_pair", _ai("h", 1), _ac("a", n), _ac("b", n), _ai("t", 2))
        add("triple%d" % n, "same_size_triple", _ac("a", n), _ac("b", n), _ac("c", n))
        add("triple%d_framed" % n, "same_size_triple", _ai("h", 1), _ac("a", n), _ac("b", n), _ac("c", n),
            _ac("rest", 2 if n != 2 else 3))
    add("diff_1_2", "different_sizes", _ac("a", 1), _ac("b", 2))
    add("diff_6_2_1", "different_sizes", _ac("a", 6), _ac("b", 2), _ac("c", 1), _ai("t", 2))
    add("diff_runs_2_2_1_1_2", "different_sizes", _ac("a", 2), _ac("b", 2), _ac("c", 1), _ac("d", 1), _ac("e", 2))
    add("diff_0_2_2", "different_sizes", _ac("a", 0), _ac("b", 2), _ac("c", 2))
    add("diff_12_1_1", "different_sizes", _ac("a", 12), _ac("b", 1), _ac("c", 1))
    add("diff_1_1_2", "different_sizes", _ai("h", 1), _ac("a", 1), _ac("b", 1), _ac("c", 2))
    add("ints_2_4", "next_to_ints", _ai("i", 2), _ac("a", 2), _ac("b", 2), _ai("j", 4))
    add("ints_little_between", "next_to_ints", _ac("a", 2), _ai("i", 2, little=True), _ac("b", 2), _ac("c", 2))
    add("ints_3_between", "next_to_ints", _ac("a", 6), _ai("i", 3), _ac("b", 6), _ac("c", 6))
    add("ints_signed_8_1", "next_to_ints", _ai("i", 8, signed=True), _ac("a", 1), _ac("b", 1), _ai("j", 1, signed=True),
        _ac("c", 2))
    add("ints_little_run", "next_to_ints", _ai("i", 4, little=True), _ai("j", 2, little=True), _ac("a", 2), _ac("b", 2),
        _ai("k", 2))
    add("ints_bytes_around", "next_to_ints", _ai("i", 1), _ai("j", 1), _ac("a", 2), _ac("b", 2), _ai("k", 1),
        _ai("l", 1))
    for incl in (False, True):
        t = "_incl" if incl else ""
        add("between_lit" + t, "fixed_between_delimited", _ad("a", "lit_colons", incl), _ac("m", 2),
            _ad("b", "lit_nul", incl))
        add("between_rx" + t, "fixed_between_delimited", _ad("a", "rx_eol", incl), _ac("m", 2), _ac("m2", 2),
            _ad("b", "rx_set", incl))
        add("between_framed" + t, "fixed_between_delimited", _ai("h", 1), _ad("a", "lit_ab", incl), _ac("m", 1),
            _ac("m2", 1), _ad("b", "lit_ab", incl), _ai("t", 2))
        add("two_same_lit" + t, "two_delimited_same_marker", _ad("a", "lit_colons", incl), _ad("b", "lit_colons", incl),
            _ai("t", 2))
        add("two_same_rx" + t, "two_delimited_same_marker", _ai("h", 1), _ad("a", "rx_set", incl),
            _ad("b", "rx_set", incl), _ai("t", 2))
        add("two_diff_lit" + t, "two_delimited_different_markers", _ad("a", "lit_colons", incl), _ad("b", "lit_nul", incl),
            _ai("t", 2))
        add("two_diff_lit_rx" + t, "two_delimited_different_markers", _ai("h", 1), _ad("a", "lit_crlf", incl),
            _ad("b", "rx_nuls", incl), _ad("c", "lit_aab", incl), _ai("t", 2))
        add("two_diff_flag_lit" + t, "two_delimited_different_markers", _ad("a", "fl_i_end", incl),
            _ad("b", "lit_ab", incl), _ai("t", 2))
    add("two_same_lit_mixed", "two_delimited_same_marker", _ad("a", "lit_nul", True), _ad("b", "lit_nul", False),
        _ad("c", "lit_nul", True), _ai("t", 2))
    add("field_after_fixed", "fixed_then_field_sized", _ai("n", 1), _ac("a", 2), _af("b", "n"))
    add("field_after_fixed_int_between", "fixed_then_field_sized", _ac("a", 2), _ai("n", 1), _af("b", "n"), _ac("c", 2))
    add("field_between_fixed_runs", "fixed_then_field_sized", _ai("n", 1), _ac("a", 2), _ac("b", 2), _af("c", "n"),
        _ac("d", 2), _ac("e", 2))
    add("field_little_count", "fixed_then_field_sized", _ai("n", 2, little=True), _ac("a", 6), _ac("b", 6), _af("c", "n"),
        _ai("t", 2))
    return ls


ADJ_LAYOUTS = _layouts()
ADJ_BY_ID = {l.id: l for l in ADJ_LAYOUTS}
ADJ_FAMILIES = ("same_size_pair", "same_size_triple", "different_sizes", "next_to_ints", "fixed_between_delimited",
                "two_delimited_same_marker", "two_delimited_different_markers", "fixed_then_field_sized")


class ACls:
    __slots__ = ("name", "layout", "W", "opt", "src", "cls", "spec")

    def __init__(self, name, layout, W, opt):
        self.name, self.layout, self.W, self.opt = name, layout, W, opt
        opts = dict(OPTSETS[opt])
        if W is not None:
            opts["search_buffer_length"] = W
        self.src = "\n".join(["class %s(Packet):" % name, "    __bisturi__ = %r" % (opts,)] +
                             ["    %s = %s" % (f.name, f.src) for f in layout.fields]) + "\n"
        self.cls = None
        self.spec = {"adj": True, "layout": layout.id, "W": W, "opt": opt}


def adj_specs():
    groups, n = [], 0
    for layout in ADJ_LAYOUTS:
        for W in layout.windows:
            members = []
            for opt in OPTSETS:
                members.append(ACls("J%d" % n, layout, W, opt))
                n += 1
            groups.append(((layout.id, W), members))
    return groups


def define_adj(groups, scratch):
    from .. import render
    modules = []
    for _, members in groups:
        module, _path = render.load_source(WHEADER + "\n".join(c.src for c in members), scratch)
        modules.append(module)
        for c in members:
            c.cls = getattr(module, c.name)
    return modules


def adj_model(layout, W, raw):
    """Reference parse, field by field.
    ('ok', want {name: value}, spans [(name, start, end)], end, pieces [bytes | None], flags)
    | ('err', reason, field name, start of that field) | ('unjudged', reason)"""
    cur, L = 0, len(raw)
    want, spans, pieces, flags = {}, [], [], []
    for f in layout.fields:
        if f.kind == "int":
            if cur + f.n > L:
                return ("unjudged", "int_short")
            chunk = raw[cur:cur + f.n]
            want[f.name] = int.from_bytes(chunk, "little" if f.little else "big", signed=f.signed)
            spans.append((f.name, cur, cur + f.n))
            pieces.append(chunk)
            cur += f.n
            continue
        r = take(f.mode, f.incl, W, raw, cur, want.get(f.ref) if f.ref else None)
        if r[0] == "err":
            return ("err", r[1], f.name, cur)
        if r[0] == "unjudged":
            return ("unjudged", r[1])
        _, value, nxt, delim, fl = r
        want[f.name] = value
        spans.append((f.name, cur, nxt))
        pieces.append(None if delim is None else value + delim)
        flags.extend(fl)
        cur = nxt
    return ("ok", want, spans, cur, pieces, flags)


def gen_adj(rng, layout, W):
    """a complete input for the layout (the model decides what it is), sometimes with bytes after it"""
    out = b""
    vals = {}
    lits = [f.mode for f in layout.data if f.mode.kind in ("lit", "rx")]
    for f in layout.fields:
        if f.kind == "int":
            if f.name in layout.refs:
                v = rng.choice([0, 1, 2, 3, 5, 6])
                vals[f.name] = v
                out += v.to_bytes(f.n, "little" if f.little else "big")
            else:
                out += _rb(rng, f.n, layout.alphabet) if (layout.alphabet and rng.random() < 0.3) else _rb(rng, f.n)
        elif f.ref is not None:
            out += _rb(rng, vals[f.ref])
        elif f.mode.kind == "sized":
            # a fixed field may hold the marker bytes of its delimited neighbours
            out += _rb(rng, f.n, layout.alphabet) if (layout.alphabet and rng.random() < 0.5) else _rb(rng, f.n)
        else:
            seg = wseg(rng, f.mode, W)
            others = [m for m in lits if m is not f.mode]
            if others and rng.random() < 0.35:
                o = rng.choice(others)
                seg = rng.choice([d for d in o.delims if d] or [o.neutral]) + seg      # another field's marker inside
            out += seg
    if rng.random() < 0.3:
        out += _rb(rng, rng.randint(1, 3), layout.alphabet or None)
    return out


def _akey(ac, raw):
    return hashlib.blake2b(("a|%s|%s|%s|" % (ac.layout.id, ac.W, ac.opt)).encode() + raw, digest_size=8).hexdigest()


def _awitness(ac, raw, exp, got, origin, op="unpack"):
    return {"op": op, "declaration": WHEADER + ac.src, "class": ac.name, "spec": ac.spec, "raw": raw,
            "origin": origin, "expected": exp, "got": got}


def check_adj(run, ac, raw, origin, PacketError):
    """Parse raw with the real class and judge every field against adj_model. Returns the model result when an
    'ok' expectation was met, else None."""
    layout = ac.layout
    exp = adj_model(layout, ac.W, raw)
    run.case(key=_akey(ac, raw), nontrivial=len(raw) >= 1)
    run.count("adj_inputs")
    pkt, exc = None, None
    try:
        pkt = ac.cls.unpack(raw)
    except Exception as e:           # noqa
        exc = e
    if exp[0] == "unjudged":
        run.count("adj_unjudged_" + exp[1])
        return None
    names = [f.name for f in layout.fields]
    if exp[0] == "err":
        _, reason, fname, at = exp
        fsrc = next(f.src for f in layout.fields if f.name == fname)
        if exc is None:
            run.violation("%s of byte-string field %s = %s (cursor %d) accepted in a layout of neighbouring byte-string "
                          "fields: unpack() returned a packet where the model demands an error" % (reason, fname, fsrc, at),
                          _awitness(ac, raw, {"error": reason, "field": fname, "cursor": at},
                                    {n: getattr(pkt, n, "<unset>") for n in names}, origin))
            return None
        if not isinstance(exc, PacketError):
            run.violation("%s of byte-string field %s raised %s instead of PacketError" % (reason, fname, type(exc).__name__),
                          _awitness(ac, raw, {"error": reason, "field": fname, "cursor": at},
                                    {"exception": repr(exc)[:300]}, origin))
            return None
        run.count("adj_errors_agreed")
        run.count("adj_err_%s_raised" % {"delimiter_straddles_window": "delimiter_outside_window"}.get(reason, reason))
        run.cover("adj_err_in", "%s/%s" % (layout.family, reason))
        if origin == "cut":
            run.count("adj_truncations_rejected")
            run.count("adj_truncations_rejected_" + ac.opt)
        return None

    _, want, spans, end, pieces, flags = exp
    if exc is not None:
        run.violation("unpack() raised %s on an input the model parses field by field (layout of neighbouring byte-string "
                      "fields: %s)" % (type(exc).__name__, ", ".join(f.src for f in layout.fields)),
                      _awitness(ac, raw, dict(want, end=end, spans=[list(s) for s in spans]),
                                {"exception": str(exc)[:400]}, origin))
        return None
    got = {n: getattr(pkt, n, "<unset>") for n in names}
    try:
        p2 = ac.cls(_initialize_fields=False)
        got_end = p2.unpack_impl(raw, 0, root=p2)
        got2 = {n: getattr(p2, n, "<unset>") for n in names}
    except Exception as e:           # noqa
        got_end, got2 = "raised %s" % type(e).__name__, None
    bad = None
    for f, (_, s, e) in zip(layout.fields, spans):
        g, w = got[f.name], want[f.name]
        if type(g) is not type(w) or g != w:
            if f.kind == "data":
                bad = "byte-string field %s = %s differs from the model (%s from cursor %d, cursor left at %d)" % (
                    f.name, f.src, "exact-length slice" if f.mode.kind == "sized" else
                    "up to the first delimiter in the window, delimiter %s" % ("included" if f.incl else "excluded"), s, e)
            else:
                bad = "field %s = %s differs: the cursor was not left just past the byte-string field before it" % (
                    f.name, f.src)
            break
    if bad is None and got_end != end:
        bad = "end offset differs: the cursor was not left just past the last field"
    if bad is None and got2 != want:
        bad = "second parse (unpack_impl) produced different values"
    if bad:
        run.violation(bad, _awitness(ac, raw, dict(want, end=end, spans=[list(s) for s in spans]),
                                     dict(got, end=got_end), origin))
        return None
    run.count("adj_unpack_ok_compared")
    run.count("adj_end_offset_compared")
    run.count("adj_byte_string_fields_compared", len(layout.data))
    run.count("adj_ok_" + layout.family)
    run.count("adj_ok_opt_" + ac.opt)
    run.cover("adj_layouts", layout.id)
    run.cover("adj_layout_x_option_set", "%s/%s" % (layout.id, ac.opt))
    if layout.same_size_run >= 2:
        run.count("adj_ok_same_size_run_of_%s" % ("2" if layout.same_size_run == 2 else "3_or_more"))
    if ac.W and "in_window_accept" in flags:
        run.count("adj_in_window_accepts")
    if "delimiter_at_cursor" in flags:
        run.count("adj_delimiter_at_cursor")
    markers = [(f.name, f.mode.marker) for f in layout.data if f.mode.kind == "lit"]
    if any(mk in want[f.name] for f in layout.data for n_, mk in markers
           if n_ != f.name and not (f.mode.kind == "lit" and f.mode.marker == mk)):
        run.count("adj_value_holds_another_fields_marker")

    # pack() = the fields in order, every value followed by its excluded literal delimiter
    if any(p is None for p in pieces):
        run.count("adj_pack_regex_excluded_delimiter_not_judged")
        return exp
    check_adj_pack(run, ac, pkt, b"".join(pieces), want, "pack() of the packet parsed from raw", raw)
    return exp


def check_adj_pack(run, ac, pkt, wpack, values, how, raw=None):
    try:
        out = pkt.pack()
    except Exception as e:           # noqa
        w = _awitness(ac, raw, wpack, {"exception": str(e)[:400]}, how, "pack")
        w["values"] = values
        run.violation("pack() of a layout of neighbouring byte-string fields raised %s" % type(e).__name__, w)
        return None
    if out != wpack:
        w = _awitness(ac, raw, wpack, out, how, "pack")
        w["values"] = values
        run.violation("pack() is not the concatenation of the fields in order (each byte-string value followed by its "
                      "excluded literal delimiter)", w)
        return None
    run.count("adj_pack_compared")
    run.count("adj_pack_compared_opt_" + ac.opt)
    return out


def adj_cuts(run, ac, raw, exp, PacketError):
    """the same input cut at every point before the end of the parse"""
    if exp is None or exp[0] != "ok":
        return
    end = exp[3]
    if end > 40:
        return
    for c in range(end):
        check_adj(run, ac, raw[:c], "cut", PacketError)
    run.count("adj_inputs_cut_at_every_point")
    run.count("adj_cut_points", end)


def adj_fresh(run, rng, ac, PacketError):
    layout = ac.layout
    if not layout.packable:
        return
    kw, want = {}, b""
    lens = {}
    for f in layout.fields:                      # sizes of the field-sized values first
        if f.ref is not None:
            lens[f.ref] = rng.choice([0, 1, 2, 4])
    for f in layout.fields:
        if f.kind == "int":
            if f.name in lens:
                v = lens[f.name]
            elif f.signed:
                v = rng.randrange(-(1 << (8 * f.n - 1)), 1 << (8 * f.n - 1))
            else:
                v = rng.randrange(1 << (8 * f.n))
            kw[f.name] = v
            want += v.to_bytes(f.n, "little" if f.little else "big", signed=f.signed)
        elif f.ref is not None:
            kw[f.name] = _rb(rng, lens[f.ref])
            want += kw[f.name]
        elif f.mode.kind == "sized":
            kw[f.name] = _rb(rng, f.n, layout.alphabet) if (layout.alphabet and rng.random() < 0.4) else _rb(rng, f.n)
            want += kw[f.name]
        else:
            v = f.mode.neutral * rng.randint(0, 2)
            if f.incl:
                v += rng.choice(f.mode.delims)
            kw[f.name] = v
            want += v + (f.mode.marker if (f.mode.kind == "lit" and not f.incl) else b"")
    try:
        pkt = ac.cls(**kw)
    except Exception:                # noqa - construction is not C06's business
        run.count("adj_fresh_construction_failed")
        return
    out = check_adj_pack(run, ac, pkt, want, kw, "pack() of a freshly built packet")
    if out is None:
        return
    run.count("adj_fresh_pack_compared")
    exp = check_adj(run, ac, out, "repack", PacketError)
    if exp is not None and exp[1] == kw:
        run.count("adj_repack_roundtrip_values_preserved")
    else:
        run.count("adj_repack_not_identical_per_model")


def run_adjacent(run, PacketError, n_shared, n_private, n_fresh):
    from .. import common
    shard, _ = run.shard
    rng = rng_for(run.seed, "c06-adjacent", shard)
    scratch = common.scratch_dir("bvf_c06a_")
    groups = adj_specs()
    modules = []
    try:
        modules = define_adj(groups, scratch)
        run.count("adj_classes_defined", sum(len(m) for _, m in groups))
        run.count("adj_classes_with_same_size_run", sum(1 for _, m in groups for c in m if c.layout.same_size_run >= 2))
        sampled = 0
        for (lid, W), members in groups:
            layout = ADJ_BY_ID[lid]
            shared = [gen_adj(rng, layout, W) for _ in range(n_shared)]
            for ac in members:
                for raw in shared:
                    adj_cuts(run, ac, raw, check_adj(run, ac, raw, "adversarial", PacketError), PacketError)
                for _ in range(n_private):
                    raw = gen_adj(rng, layout, W)
                    adj_cuts(run, ac, raw, check_adj(run, ac, raw, "random", PacketError), PacketError)
                for _ in range(n_fresh):
                    adj_fresh(run, rng, ac, PacketError)
                if run.counters["violations"] > 40:
                    return
            if sampled < 2 and layout.same_size_run >= 2 and shared:
                exp = adj_model(layout, W, shared[0])
                run.sample({"declaration": members[1].src, "raw": shared[0],
                            "model": [exp[0], exp[1]] + ([exp[3]] if exp[0] == "ok" else [])}, cap=12)
                sampled += 1
    finally:
        forget(modules)
        common.drop_scratch(scratch)


# ---- driver -------------------------------------------------------------------------------------
def run(run):
    from .. import common
    from bisturi.packet import PacketError
    shard, nshards = run.shard
    rng = rng_for(run.seed, "c06", shard)
    if run.tier == "quick":
        n_shared, n_private, n_fresh = 18, 12, 4
    else:
        n_shared, n_private, n_fresh = 30, 16, 6
    scratch = common.scratch_dir("bvf_c06_")
    groups = all_specs()
    module = None
    try:
        module = define(groups, scratch)
        run.count("classes_defined", sum(len(m) for _, m in groups))
        sampled = 0
        for (mid, W, tail), members in groups:
            mode = MODE_BY_ID[mid]
            run.cover("modes", mid)
            run.cover("windows", "unset" if W is None else W)
            # adversarial inputs shared by all members (include_delimiter x option sets) of the group
            shared = []
            for _ in range(n_shared):
                if mode.kind == "sized":
                    shared.append(gen_sized(rng, mode, tail))
                elif mode.kind == "eos":
                    shared.append(gen_eos(rng, mode, W))
                else:
                    shared.append(gen_delimited(rng, mode, W, tail))
            for c in members:
                run.cover("option_sets", c.opt)
                run.cover("include_delimiter", c.incl)
                for raw in shared:
                    one_input(run, c, raw, "adversarial", PacketError)
                for _ in range(n_private * (3 if mode.kind in ("sized", "eos") else 1)):
                    if mode.kind == "sized":
                        raw = gen_sized(rng, mode, tail)
                    elif mode.kind == "eos":
                        raw = gen_eos(rng, mode, W)
                    elif rng.random() < 0.5:
                        raw = gen_delimited(rng, mode, W, tail)
                    else:
                        raw = gen_random(rng, mode)
                    one_input(run, c, raw, "random", PacketError)
                for _ in range(n_fresh):
                    fresh_pack(run, rng, c, PacketError)
                if run.counters["violations"] > 40:
                    break
            if sampled < 6 and mode.kind in ("lit", "rx") and W and shared:
                exp = model(mode, members[0].incl, W, tail, shared[0])
                run.sample({"declaration": members[0].src, "raw": shared[0], "model": list(exp[:5])})
                sampled += 1
            if run.counters["violations"] > 40:
                break
    finally:
        forget(module or [])
        common.drop_scratch(scratch)
    if run.counters["violations"] > 40:
        return
    # the same field carried by .when / .repeated / Ref(Sub) / run-time selector / .at / .shift
    if run.tier == "quick":
        run_wrapped(run, PacketError, n_shared=8, n_private=4, n_fresh=2)
    else:
        run_wrapped(run, PacketError, n_shared=14, n_private=8, n_fresh=3)
    if run.counters["violations"] > 40:
        return
    # regex delimiters with look-behinds, word boundaries, anchors, look-aheads; unpack(raw, offset > 0)
    if run.tier == "quick":
        run_ctx(run, PacketError, n_shared=14, n_private=6, n_fresh=2)
    else:
        run_ctx(run, PacketError, n_shared=24, n_private=12, n_fresh=3)
    if run.counters["violations"] > 40:
        return
    # regex delimiters compiled with flags (re.I on literals, re.S, re.M, re.X, re.A, inline flags)
    if run.tier == "quick":
        run_flags(run, PacketError, n_shared=12, n_private=6, n_fresh=2)
    else:
        run_flags(run, PacketError, n_shared=24, n_private=12, n_fresh=4)
    if run.counters["violations"] > 40:
        return
    # several byte-string fields next to each other, every input also cut at every point
    if run.tier == "quick":
        run_adjacent(run, PacketError, n_shared=6, n_private=2, n_fresh=3)
    else:
        run_adjacent(run, PacketError, n_shared=14, n_private=6, n_fresh=6)


def _replay_wrapped(run, w, PacketError):
    from .. import common
    spec = w["spec"]
    wc = WCls("XReplay", spec["shape"], spec["variant"], MODE_BY_ID[spec["mode"]], spec["incl"], spec["W"],
              spec["Wsub"], spec["opt"])
    scratch = common.scratch_dir("bvf_c06r_")
    mods = []
    try:
        mods = define_wrapped([(None, [wc])], scratch)
        raw = common.from_json(w.get("raw"))
        if w.get("op") == "pack" and raw is None:
            values = common.from_json(w["values"])

            def build(x):
                if isinstance(x, dict):
                    return wc.subcls(s1=x["s1"], d=x["d"])
                if isinstance(x, list) and x and isinstance(x[0], dict):
                    return [build(i) for i in x]
                return x
            want = common.from_json(w["expected"])
            if isinstance(want, list):
                want = tuple(want)
            check_wrapped_pack(run, wc, wc.cls(**{k: build(x) for k, x in values.items()}), want, values, [],
                               "replay")
        else:
            check_wrapped(run, wc, raw, "replay", PacketError)
    finally:
        forget(mods)
        common.drop_scratch(scratch)


def _replay_ctx(run, w, PacketError):
    from .. import common
    spec = w["spec"]
    cc = CCls("KReplay", spec["shape"], CTX_MODE_BY_ID[spec["mode"]], spec["incl"], spec["W"], spec["opt"])
    scratch = common.scratch_dir("bvf_c06r_")
    mods = []
    try:
        mods = define_ctx([(None, [cc])], scratch)
        raw = common.from_json(w.get("raw"))
        if w.get("op") == "pack" and raw is None:
            values = common.from_json(w["values"])
            kw = {f: (cc.subcls(**x) if isinstance(x, dict) else x) for f, x in values.items()}
            check_ctx_pack(run, cc, cc.cls(**kw), common.from_json(w["expected"]), values, "replay")
        else:
            check_ctx(run, cc, raw, w.get("start_offset", 0), "replay", PacketError)
    finally:
        forget(mods)
        common.drop_scratch(scratch)


def _replay_adj(run, w, PacketError):
    from .. import common
    spec = w["spec"]
    ac = ACls("JReplay", ADJ_BY_ID[spec["layout"]], spec["W"], spec["opt"])
    scratch = common.scratch_dir("bvf_c06r_")
    mods = []
    try:
        mods = define_adj([(None, [ac])], scratch)
        raw = common.from_json(w.get("raw"))
        if w.get("op") == "pack" and raw is None:
            values = common.from_json(w["values"])
            check_adj_pack(run, ac, ac.cls(**values), common.from_json(w["expected"]), values, "replay")
        else:
            check_adj(run, ac, raw, "replay", PacketError)
    finally:
        forget(mods)
        common.drop_scratch(scratch)


def replay(run, rec):
    """Re-define the recorded class and re-execute the recorded case."""
    from .. import common
    from bisturi.packet import PacketError
    w = rec["witness"]
    spec = w["spec"]
    if spec.get("ctx"):
        _replay_ctx(run, w, PacketError)
        if not run.violations:
            print("replay: the recorded case did not produce a violation on this tree")
        return
    if "shape" in spec:
        _replay_wrapped(run, w, PacketError)
        if not run.violations:
            print("replay: the recorded case did not produce a violation on this tree")
        return
    if spec.get("adj"):
        _replay_adj(run, w, PacketError)
        if not run.violations:
            print("replay: the recorded case did not produce a violation on this tree")
        return

    def unb(x):
        if isinstance(x, dict) and "__bytes__" in x:
            return bytes.fromhex(x["__bytes__"])
        return x
    mods = []
    c = Cls("DReplay", MODE_BY_ID[spec["mode"]], spec["incl"], spec["W"], spec["opt"], spec["tail"])
    scratch = common.scratch_dir("bvf_c06r_")
    try:
        mods = define([(None, [c])], scratch)
        if w.get("op") == "pack" and "raw" not in w:
            v = w["values"]
            kw = {"s1": v["s1"], "d": unb(v["d"])}
            if not c.tail:
                kw["s2"] = v["s2"]
            check_pack_bytes(run, c, c.cls(**kw), v["s1"], unb(v["d"]), v["s2"], "replay", PacketError)
        elif spec["mode"].startswith("fl_"):
            flg_input(run, c, unb(w["raw"]), "replay", PacketError)
        else:
            one_input(run, c, unb(w["raw"]), "replay", PacketError)
    finally:
        forget(mods)
        common.drop_scratch(scratch)
    if not run.violations:
        # one case cannot satisfy the volume rules: main reports such a replay as INCONCLUSIVE, never as held
        print("replay: the recorded case did not produce a violation on this tree")
