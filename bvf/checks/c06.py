"""C06  Byte-string fields take exactly the declared bytes or stop at first delimiter.

Declarations (rendered as real source files in a scratch directory)

    class D(Packet):
        __bisturi__ = {<code generation options>, 'search_buffer_length': W}
        s1 = Int(1)
        d  = Data(<sizing mode>)
        s2 = Int(2)          # absent in the "tail" variants (Data is the last field)

for every sizing mode (constant, earlier field, field expression, callable, bytes marker,
regex marker, end-of-string) x include_delimiter x search window x code-generation option
set.  The two sentinels make the cursor observable: s1 is the byte before the field (the
scan must start *after* it), s2 is the two bytes right after the delimiter.

Oracle: `model()` below - an exact-length slice, or the leftmost occurrence of the marker /
leftmost `re` match inside raw[o:o+W] - written from the property statement.  Compared on
every execution: value of d, value of s2, end offset (through `unpack_impl` on a second
packet), error/no-error (PacketError), and the bytes produced by pack().
"""
import hashlib
import re

from ..common import rng_for

LEVEL = "exploration"
SHARDS = {"quick": 1, "thorough": 16}
MIN_NONTRIVIAL = 50
REQUIRED = (
    "unpack_ok_compared", "end_offset_compared", "s2_sentinel_compared",
    "err_short_read_raised", "err_negative_size_raised", "err_missing_delimiter_raised",
    "err_delimiter_outside_window_raised", "straddling_window_edge",
    "delimiter_at_cursor", "delimiter_at_end_of_input", "zero_length_delimiter",
    "later_occurrence_present", "marker_byte_in_s1", "overlapping_prefix_before_delimiter",
    "pack_compared", "pack_literal_delimiter_appended", "repack_roundtrip_value_preserved",
    "eos_compared", "classes_defined",
)
RULE = {
    "quick": "every class of the product {4 constants, field, 3 field expressions, 2 callables (+1 unjudged non-integer), "
             "5 bytes markers, 6 regex markers, EOS} x include_delimiter x search_buffer_length {unset,0,1,2,3,4,6} "
             "(sized modes: {unset,2}) x {with s2, Data last} x 3 code-generation option sets (about 1100 classes) gets "
             "seeded adversarial inputs shared by the classes of one (mode, window) group (delimiter at cursor / at the very "
             "end / straddling the window edge / only after the window / absent, overlapping prefixes, marker bytes in s1 and s2, "
             "second occurrences, truncations; sizes 0, exact, one short, negative) plus random strings over the marker "
             "alphabet private to each class, plus pack() of every parsed packet and of freshly built packets whose bytes are "
             "parsed again.  about 40k inputs.  A case is non-trivial when the input is long enough for the Data field to be reached "
             "(s1 present); distinct = distinct (class, input) pairs.",
    "thorough": "as quick, 16 shards with independent PRNG streams, about 1M inputs.",
}
ASSUMPTIONS = [
    "Python `re.search` on the window slice raw[o:o+W] is the specification of 'leftmost regex match within the window' "
    "(so `$` and greedy runs see the window edge as end of string); W unset or 0 means unbounded; the literal pattern b'$' (EOS) ignores W",
    "a literal marker is found iff it lies completely inside the window",
    "consume_delimiter is left at its default (True); consume_delimiter=False is outside the property",
    "pack() for regex markers with include_delimiter=False is not judged (the delimiter is not determined by the value; finding F2)",
    "inputs too short for s1, or complete for Data but too short for s2, are Int's business (C04): counted, not judged",
    "a non-integer size (callable returning a float) is not fixed by the statement: counted, not judged",
    "Data(n) is only packed with values of exactly n bytes",
]

OPTSETS = {
    "g": {"generate_for_pack": False, "generate_for_unpack": False},
    "d": {},
    "nv": {"vectorize": False},
}
WINDOWS = [None, 0, 1, 2, 3, 4, 6]
SIZED_WINDOWS = [None, 2]

HEADER = "import re\nfrom bisturi.packet import Packet\nfrom bisturi.field import Int, Data, EOS\n\n"


# ---- sizing modes -----------------------------------------------------------------------------
class Mode:
    def __init__(self, mid, kind, arg, size=None, marker=None, pattern=None, alphabet=b"", delims=(), neutral=b"x",
                 judged=True):
        self.id = mid
        self.kind = kind            # 'sized' | 'lit' | 'rx' | 'eos'
        self.arg = arg              # source text of the Data argument
        self.size = size            # sized: f(s1, rawlen, offset) -> declared size
        self.marker = marker
        self.pattern = pattern
        self.rx = re.compile(pattern) if pattern is not None else None   # the oracle's own compiled object
        self.alphabet = alphabet
        self.delims = list(delims)
        self.neutral = neutral
        self.judged = judged


def _modes():
    ms = []
    for n in (0, 1, 2, 5):
        ms.append(Mode("const%d" % n, "sized", "%d" % n, size=(lambda s1, L, o, n=n: n)))
    ms.append(Mode("field", "sized", "s1", size=lambda s1, L, o: s1))
    ms.append(Mode("expr_mul2", "sized", "s1 * 2", size=lambda s1, L, o: s1 * 2))
    ms.append(Mode("expr_sub2", "sized", "s1 - 2", size=lambda s1, L, o: s1 - 2))
    ms.append(Mode("expr_rsub3", "sized", "3 - s1", size=lambda s1, L, o: 3 - s1))
    ms.append(Mode("call_and3", "sized", "lambda pkt, **k: pkt.s1 & 3", size=lambda s1, L, o: s1 & 3))
    ms.append(Mode("call_rest", "sized", "lambda pkt, raw, offset, **k: len(raw) - offset - 2",
                   size=lambda s1, L, o: L - o - 2))
    ms.append(Mode("call_half", "sized", "lambda pkt, **k: pkt.s1 / 2", size=lambda s1, L, o: s1 / 2, judged=False))
    for mid, m in (("nul", b"\x00"), ("ab", b"ab"), ("aab", b"aab"), ("crlf", b"\r\n"), ("colons", b"::")):
        ms.append(Mode("lit_" + mid, "lit", "until_marker=%r" % m, marker=m, alphabet=m + b"x", delims=[m]))
    for mid, pat, alpha, delims, neutral in (
            ("eol", rb"\r?\n", b"\r\nx", [b"\n", b"\r\n"], b"x"),
            ("nuls", rb"\x00+", b"\x00x", [b"\x00", b"\x00\x00\x00"], b"x"),
            ("set", rb"[;,]", b";,x", [b";", b","], b"x"),
            ("alt", rb"ab|a", b"abx", [b"ab", b"a"], b"x"),
            ("star", rb"x*;", b"x;y", [b";", b"xx;", b"x;"], b"y"),
            ("nl_or_end", rb"\n|$", b"\nx", [b"\n", b""], b"x")):
        ms.append(Mode("rx_" + mid, "rx", "until_marker=re.compile(%r)" % pat, pattern=pat, alphabet=alpha,
                       delims=delims, neutral=neutral))
    ms.append(Mode("eos", "eos", "until_marker=EOS", alphabet=b"$\nx"))
    return ms


MODES = _modes()
MODE_BY_ID = {m.id: m for m in MODES}


# ---- the reference model (the oracle) ---------------------------------------------------------
def model(mode, incl, W, tail, raw):
    """('ok', s1, value, s2|None, end, flags) | ('err', reason) | ('unjudged', reason)"""
    if len(raw) < 1:
        return ("unjudged", "s1_short")
    s1, o = raw[0], 1
    flags = []
    if mode.kind == "sized":
        n = mode.size(s1, len(raw), o)
        if not isinstance(n, int):
            return ("unjudged", "non_integer_size")
        if n < 0:
            return ("err", "negative_size")
        if o + n > len(raw):
            return ("err", "short_read")
        value, cur = raw[o:o + n], o + n
        if n == 0:
            flags.append("empty_value")
    elif mode.kind == "eos":
        value, cur = raw[o:], len(raw)
        if W and len(raw) - o > W:
            flags.append("eos_beyond_window")
    else:
        rest = raw[o:]
        win = rest[:W] if W else rest
        if mode.kind == "lit":
            def find(hay):
                i = hay.find(mode.marker)
                return None if i < 0 else (i, i + len(mode.marker))
        else:
            def find(hay):
                m = mode.rx.search(hay)
                return None if m is None else (m.start(), m.end())
        hit = find(win)
        unbounded = hit if win is rest else find(rest)
        if hit is None:
            if unbounded is None:
                return ("err", "missing_delimiter")
            if unbounded[0] < len(win):
                return ("err", "delimiter_straddles_window")
            return ("err", "delimiter_outside_window")
        ds, de = hit
        if unbounded != hit:
            flags.append("straddle_changes_match")     # the window edge cuts what an unbounded scan would take
        value = rest[:de if incl else ds]
        cur = o + de
        if ds == 0:
            flags.append("delimiter_at_cursor")
        if de == ds:
            flags.append("zero_length_delimiter")
        if W and de == len(win) == W:
            flags.append("delimiter_ends_at_window_edge")
        if mode.kind == "lit":
            if rest.find(mode.marker, ds + 1) >= 0:
                flags.append("later_occurrence")
            if len(mode.marker) > 1 and (raw[:1] + rest).find(mode.marker) == 0:
                flags.append("marker_across_s1")
            if len(mode.marker) > 1 and ds > 0 and rest[ds - 1:ds] == mode.marker[:1]:
                flags.append("overlapping_prefix")     # a partial match attempt right before the real one
        else:
            later = find(rest[de:] if de > ds else rest[de + 1:])
            if later is not None and later[1] > later[0]:
                flags.append("later_occurrence")
        if raw[:1] in mode.alphabet and raw[:1] != mode.neutral:
            flags.append("marker_byte_in_s1")
        if cur == len(raw):
            flags.append("delimiter_at_end_of_input")
    if tail:
        return ("ok", s1, value, None, cur, flags)
    if cur + 2 > len(raw):
        return ("unjudged", "s2_short")
    return ("ok", s1, value, int.from_bytes(raw[cur:cur + 2], "big"), cur + 2, flags)


def expected_pack(mode, incl, tail, s1, value, s2):
    """value followed by the excluded *literal* delimiter, between the sentinels. None = not judged."""
    if mode.kind == "rx" and not incl:
        return None
    delim = mode.marker if (mode.kind == "lit" and not incl) else b""
    return bytes([s1]) + value + delim + (b"" if tail else s2.to_bytes(2, "big"))


# ---- classes ----------------------------------------------------------------------------------
class Cls:
    __slots__ = ("name", "mode", "incl", "W", "opt", "tail", "src", "cls", "spec")

    def __init__(self, name, mode, incl, W, opt, tail):
        self.name, self.mode, self.incl, self.W, self.opt, self.tail = name, mode, incl, W, opt, tail
        opts = dict(OPTSETS[opt])
        if W is not None:
            opts["search_buffer_length"] = W
        arg = mode.arg
        if mode.kind != "sized":
            arg += ", include_delimiter=%r" % incl
        lines = ["class %s(Packet):" % name,
                 "    __bisturi__ = %r" % (opts,),
                 "    s1 = Int(1)",
                 "    d = Data(%s)" % arg]
        if not tail:
            lines.append("    s2 = Int(2)")
        self.src = "\n".join(lines) + "\n"
        self.cls = None
        self.spec = {"mode": mode.id, "incl": incl, "W": W, "opt": opt, "tail": tail}


def all_specs():
    """[(group_key, [Cls...])]: a group shares mode, window and tail (so: the adversarial inputs)."""
    groups = []
    n = 0
    for mode in MODES:
        if mode.kind == "sized":
            windows, incls, tails = SIZED_WINDOWS, [False], [False, True]
        elif mode.kind == "eos":
            windows, incls, tails = WINDOWS, [False, True], [True]
        else:
            windows, incls, tails = WINDOWS, [False, True], [False, True]
        for W in windows:
            for tail in tails:
                members = []
                for incl in incls:
                    for opt in OPTSETS:
                        members.append(Cls("D%d" % n, mode, incl, W, opt, tail))
                        n += 1
                groups.append(((mode.id, W, tail), members))
    return groups


def define(groups, scratch):
    """One small source module per group: inspect.getsourcelines re-parses the whole module for every
    class, so big modules make class definition quadratic."""
    from .. import render
    modules = []
    for _, members in groups:
        src = HEADER + "\n".join(c.src for c in members)
        module, _path = render.load_source(src, scratch)
        modules.append(module)
        for c in members:
            c.cls = getattr(module, c.name)
    return modules


def forget(modules):
    import sys
    for module in modules:
        prefix = module.__name__
        for k in [k for k in sys.modules if k == prefix or k.startswith(prefix + "_")]:
            sys.modules.pop(k, None)


# ---- input generators ---------------------------------------------------------------------------
def _rb(rng, n, alphabet=None):
    if alphabet:
        return bytes(rng.choice(alphabet) for _ in range(n))
    return bytes(rng.randrange(256) for _ in range(n))


def gen_delimited(rng, mode, W, tail):
    """One adversarial input for a delimited mode (the oracle decides what it means)."""
    alpha = mode.alphabet
    d = rng.choice(mode.delims) if rng.random() < 0.88 else None
    dl = len(d) if d is not None else 0
    if W:
        L = rng.choice([0, 0, 1, W - dl - 1, W - dl, W - dl, W - dl + 1, W - 1, W, W + 1, rng.randint(0, W + 3)])
    else:
        L = rng.choice([0, 0, 1, 2, 3, rng.randint(0, 10)])
    L = max(L, 0)
    kind = rng.random()
    if kind < 0.35:
        fill = mode.neutral * L
    elif kind < 0.60 and d:
        # overlapping prefixes: 'aaab' for marker 'aab', '\r\r\n', ':::' ...
        unit = d[:-1] if len(d) > 1 else mode.neutral
        fill = (unit * (L + 1))[:L] if rng.random() < 0.5 else (d[:1] * L)
    else:
        fill = _rb(rng, L, alpha)
    r = rng.random()
    if r < 0.45 and d:
        s1 = d[:1]                           # marker byte inside s1: the scan must start at the cursor
    elif r < 0.6:
        s1 = bytes([rng.choice(alpha)])
    else:
        s1 = bytes([rng.randrange(256)])
    body = fill + (d if d is not None else b"")
    if rng.random() < 0.08 and d and len(d) > 1:
        body = fill + d[:-1]                 # a marker cut short
    if not tail or rng.random() < 0.5:
        s2 = _rb(rng, 2, alpha) if rng.random() < 0.4 else _rb(rng, 2)
        body += s2
        t = rng.random()
        if t < 0.3:
            body += _rb(rng, rng.randint(1, 4), alpha)
        elif t < 0.45 and d is not None:
            body += mode.neutral + d + _rb(rng, 2)      # a later occurrence
    raw = s1 + body
    if rng.random() < 0.06 and len(raw) > 1:
        raw = raw[:rng.randint(1, len(raw))]
    return raw


def gen_random(rng, mode):
    alpha = mode.alphabet
    n = rng.choice([0, 1, 2, 3, 4, 5, 6, 8, 12])
    s1 = bytes([rng.choice(alpha)]) if rng.random() < 0.6 else bytes([rng.randrange(256)])
    return s1 + _rb(rng, n, alpha) + (_rb(rng, rng.choice([0, 2, 3])) if rng.random() < 0.5 else b"")


def gen_eos(rng, mode, W):
    n = rng.choice([0, 0, 1, 2, (W or 3) - 1, (W or 3), (W or 3) + 1, rng.randint(0, 12)])
    body = _rb(rng, max(n, 0), mode.alphabet if rng.random() < 0.6 else None)
    if rng.random() < 0.3:
        body += b"\n"                        # `$` proper would stop before a trailing newline; EOS takes everything
    return bytes([rng.randrange(256)]) + body


def gen_sized(rng, mode, tail):
    after = 0 if tail else 2
    if mode.id == "call_rest":
        n = rng.choice([0, 1, 2, 3, 4, rng.randint(0, 9)])
        return bytes([rng.randrange(256)]) + _rb(rng, n)
    s1 = rng.choice([0, 1, 2, 3, 4, 5, 6, 7, rng.randint(0, 12), rng.choice([127, 128, 255])])
    n = mode.size(s1, 0, 1)
    if not isinstance(n, int):
        n = int(n)
    need = max(n, 0) + after
    have = rng.choice([need, need, need, need - 1, need - 1, need - after - 1, need + 1, need + 3, 0, rng.randint(0, need + 2)])
    if n < 0:
        have = rng.choice([0, 1, 2, 3, 4, 5])
    return bytes([s1]) + _rb(rng, max(have, 0))


# ---- checks -------------------------------------------------------------------------------------
def _key(c, raw):
    return hashlib.blake2b(("%s|%s|%s|%s|%s|" % (c.mode.id, c.incl, c.W, c.opt, c.tail)).encode() + raw,
                           digest_size=8).hexdigest()


def _witness(c, raw, exp, got, origin):
    return {"op": "unpack", "declaration": HEADER + c.src, "spec": c.spec, "raw": raw, "origin": origin,
            "expected": exp, "got": got}


def check_unpack(run, c, raw, origin, PacketError):
    """Parse raw with the real class, compare with the model. Returns (model result, parsed packet or None)."""
    mode = c.mode
    exp = model(mode, c.incl, c.W, c.tail, raw)
    run.case(key=_key(c, raw), nontrivial=len(raw) >= 1)
    run.count("inputs_" + mode.kind)
    pkt, exc = None, None
    try:
        pkt = c.cls.unpack(raw)
    except PacketError as e:
        exc = e
    except Exception as e:           # noqa - anything else escaping unpack()
        exc = e

    if exp[0] == "unjudged":
        run.count("unjudged_" + exp[1])
        run.count("unjudged_%s_%s" % (exp[1], "raised" if exc is not None else "accepted"))
        return exp, None

    if exp[0] == "err":
        if exc is None:
            got = {"d": getattr(pkt, "d", None), "s1": getattr(pkt, "s1", None)}
            if not c.tail:
                got["s2"] = getattr(pkt, "s2", None)
            run.violation("%s accepted: unpack() returned a packet where the model demands an error" % exp[1],
                          _witness(c, raw, {"error": exp[1]}, got, origin))
            return exp, None
        if not isinstance(exc, PacketError):
            run.violation("%s raised %s instead of PacketError" % (exp[1], type(exc).__name__),
                          _witness(c, raw, {"error": exp[1]}, {"exception": repr(exc)}, origin))
            return exp, None
        reason = {"delimiter_straddles_window": "delimiter_outside_window"}.get(exp[1], exp[1])
        run.count("err_%s_raised" % reason)
        if exp[1] == "delimiter_straddles_window":
            run.count("straddling_window_edge")
        run.count("unpack_errors_agreed")
        return exp, None

    _, s1, value, s2, end, flags = exp
    want = {"s1": s1, "d": value, "end": end}
    if not c.tail:
        want["s2"] = s2
    if exc is not None:
        run.violation("unpack() raised %s on an input the model parses" % type(exc).__name__,
                      _witness(c, raw, want, {"exception": str(exc)[:400]}, origin))
        return exp, None
    got = {"s1": getattr(pkt, "s1", None), "d": getattr(pkt, "d", None)}
    if not c.tail:
        got["s2"] = getattr(pkt, "s2", None)
    # end offset through unpack_impl on a second packet
    try:
        p2 = c.cls(_initialize_fields=False)
        got["end"] = p2.unpack_impl(raw, 0, root=p2)
        got2 = getattr(p2, "d", None)
    except Exception as e:           # noqa
        got["end"] = "raised %s" % type(e).__name__
        got2 = None
    bad = None
    if got["d"] != value or type(got["d"]) is not bytes:
        bad = "value of the Data field differs from the model (%s)" % (
            "exact-length slice" if mode.kind == "sized" else
            "everything to the end" if mode.kind == "eos" else
            "up to the first delimiter in the window, delimiter %s" % ("included" if c.incl else "excluded"))
    elif got["s1"] != s1:
        bad = "sentinel s1 differs"
    elif not c.tail and got["s2"] != s2:
        bad = "sentinel s2 differs: the cursor was not left just past the field/delimiter"
    elif got["end"] != end:
        bad = "end offset differs: the cursor was not left just past the field/delimiter"
    elif got2 != value:
        bad = "second parse (unpack_impl) produced a different value"
    if bad:
        run.violation(bad, _witness(c, raw, want, got, origin))
        return exp, None
    run.count("unpack_ok_compared")
    run.count("end_offset_compared")
    if not c.tail:
        run.count("s2_sentinel_compared")
    if mode.kind == "eos":
        run.count("eos_compared")
    if mode.kind == "sized":
        run.count("sized_ok_compared")
    for f in flags:
        run.cover("flags_seen", f)
        run.count({"straddle_changes_match": "straddling_window_edge",
                   "later_occurrence": "later_occurrence_present",
                   "overlapping_prefix": "overlapping_prefix_before_delimiter",
                   "empty_value": "empty_value_sized"}.get(f, f))
    if not value:
        run.count("empty_values")
    return exp, pkt


def check_pack_bytes(run, c, pkt, s1, value, s2, how, PacketError, extra=None):
    """pack() must be s1 + value + excluded literal delimiter + s2. Returns the packed bytes or None."""
    want = expected_pack(c.mode, c.incl, c.tail, s1, value, s2)
    if want is None:
        run.count("pack_regex_excluded_delimiter_not_judged")
        return None
    try:
        got = pkt.pack()
    except Exception as e:           # noqa
        w = {"op": "pack", "declaration": HEADER + c.src, "spec": c.spec, "how": how,
             "values": {"s1": s1, "d": value, "s2": s2}, "expected": want, "got": {"exception": str(e)[:400]}}
        if extra:
            w.update(extra)
        run.violation("pack() raised %s" % type(e).__name__, w)
        return None
    if got != want:
        w = {"op": "pack", "declaration": HEADER + c.src, "spec": c.spec, "how": how,
             "values": {"s1": s1, "d": value, "s2": s2}, "expected": want, "got": got}
        if extra:
            w.update(extra)
        run.violation("pack() is not s1 + value%s%s" % (
            " + the excluded literal delimiter" if (c.mode.kind == "lit" and not c.incl) else "",
            "" if c.tail else " + s2"), w)
        return None
    run.count("pack_compared")
    if c.mode.kind == "lit" and not c.incl:
        run.count("pack_literal_delimiter_appended")
    return got


def one_input(run, c, raw, origin, PacketError):
    exp, pkt = check_unpack(run, c, raw, origin, PacketError)
    if pkt is None or exp[0] != "ok":
        return
    _, s1, value, s2, end, _flags = exp
    got = check_pack_bytes(run, c, pkt, s1, value, s2, "pack() of the packet parsed from raw", PacketError,
                           extra={"raw": raw})
    if got is not None:
        run.count("pack_of_parsed_equals_consumed_input")


def fresh_values(rng, c):
    """(s1, value, s2) for a freshly constructed packet, or None."""
    mode = c.mode
    s2 = rng.randrange(65536)
    if mode.kind == "sized":
        if not mode.judged:
            return None
        if mode.id.startswith("const"):
            n = mode.size(0, 0, 0)
            return rng.randrange(256), _rb(rng, n), s2
        L = rng.randint(0, 3)
        s1 = {"field": L, "expr_mul2": L, "expr_sub2": L + 2, "expr_rsub3": 3 - L,
              "call_and3": L + 4 * rng.randint(0, 60), "call_rest": rng.randrange(256)}[mode.id]
        if mode.id == "expr_mul2":
            L = 2 * L
        return s1, _rb(rng, L), s2
    L = rng.randint(0, 6)
    r = rng.random()
    if r < 0.5:
        value = mode.neutral * L                       # delimiter-free
    elif r < 0.75:
        value = bytes(b for b in _rb(rng, L) if b not in mode.alphabet or bytes([b]) == mode.neutral)
    else:
        value = _rb(rng, L, mode.alphabet)             # may contain the delimiter: pack still emits it verbatim
    if c.incl and mode.delims:
        value += rng.choice(mode.delims)
    s1 = rng.choice(mode.alphabet) if rng.random() < 0.5 else rng.randrange(256)
    return s1, value, s2


def fresh_pack(run, rng, c, PacketError):
    v = fresh_values(rng, c)
    if v is None:
        return
    s1, value, s2 = v
    kw = {"s1": s1, "d": value}
    if not c.tail:
        kw["s2"] = s2
    try:
        pkt = c.cls(**kw)
    except Exception as e:           # noqa - construction is not C06's business
        run.count("fresh_construction_failed")
        return
    packed = check_pack_bytes(run, c, pkt, s1, value, s2, "pack() of a freshly built packet", PacketError)
    if packed is None:
        if c.mode.kind == "rx" and not c.incl:
            return
        return
    exp, back = check_unpack(run, c, packed, "repack", PacketError)
    if back is not None and exp[0] == "ok" and exp[2] == value and exp[1] == s1 and (c.tail or exp[3] == s2):
        run.count("repack_roundtrip_value_preserved")
    elif exp[0] != "ok":
        run.count("repack_not_reparsable_per_model")   # value contains a delimiter / exceeds the window / size disagrees
    else:
        run.count("repack_reparsed_differently_per_model")


# ---- driver -------------------------------------------------------------------------------------
def run(run):
    from .. import common
    from bisturi.packet import PacketError
    shard, nshards = run.shard
    rng = rng_for(run.seed, "c06", shard)
    if run.tier == "quick":
        n_shared, n_private, n_fresh = 18, 12, 4
    else:
        n_shared, n_private, n_fresh = 30, 16, 6
    scratch = common.scratch_dir("bvf_c06_")
    groups = all_specs()
    module = None
    try:
        module = define(groups, scratch)
        run.count("classes_defined", sum(len(m) for _, m in groups))
        sampled = 0
        for (mid, W, tail), members in groups:
            mode = MODE_BY_ID[mid]
            run.cover("modes", mid)
            run.cover("windows", "unset" if W is None else W)
            # adversarial inputs shared by all members (include_delimiter x option sets) of the group
            shared = []
            for _ in range(n_shared):
                if mode.kind == "sized":
                    shared.append(gen_sized(rng, mode, tail))
                elif mode.kind == "eos":
                    shared.append(gen_eos(rng, mode, W))
                else:
                    shared.append(gen_delimited(rng, mode, W, tail))
            for c in members:
                run.cover("option_sets", c.opt)
                run.cover("include_delimiter", c.incl)
                for raw in shared:
                    one_input(run, c, raw, "adversarial", PacketError)
                for _ in range(n_private * (3 if mode.kind in ("sized", "eos") else 1)):
                    if mode.kind == "sized":
                        raw = gen_sized(rng, mode, tail)
                    elif mode.kind == "eos":
                        raw = gen_eos(rng, mode, W)
                    elif rng.random() < 0.5:
                        raw = gen_delimited(rng, mode, W, tail)
                    else:
                        raw = gen_random(rng, mode)
                    one_input(run, c, raw, "random", PacketError)
                for _ in range(n_fresh):
                    fresh_pack(run, rng, c, PacketError)
                if run.counters["violations"] > 40:
                    break
            if sampled < 6 and mode.kind in ("lit", "rx") and W and shared:
                exp = model(mode, members[0].incl, W, tail, shared[0])
                run.sample({"declaration": members[0].src, "raw": shared[0], "model": list(exp[:5])})
                sampled += 1
            if run.counters["violations"] > 40:
                break
    finally:
        forget(module or [])
        common.drop_scratch(scratch)


def replay(run, rec):
    """Re-define the recorded class and re-execute the recorded case."""
    from .. import common
    from bisturi.packet import PacketError
    w = rec["witness"]
    spec = w["spec"]

    def unb(x):
        if isinstance(x, dict) and "__bytes__" in x:
            return bytes.fromhex(x["__bytes__"])
        return x
    mods = []
    c = Cls("DReplay", MODE_BY_ID[spec["mode"]], spec["incl"], spec["W"], spec["opt"], spec["tail"])
    scratch = common.scratch_dir("bvf_c06r_")
    try:
        mods = define([(None, [c])], scratch)
        if w.get("op") == "pack" and "raw" not in w:
            v = w["values"]
            kw = {"s1": v["s1"], "d": unb(v["d"])}
            if not c.tail:
                kw["s2"] = v["s2"]
            check_pack_bytes(run, c, c.cls(**kw), v["s1"], unb(v["d"]), v["s2"], "replay", PacketError)
        else:
            one_input(run, c, unb(w["raw"]), "replay", PacketError)
    finally:
        forget(mods)
        common.drop_scratch(scratch)
    if not run.violations:
        # one case cannot satisfy the volume rules: main reports such a replay as INCONCLUSIVE, never as held
        print("replay: the recorded case did not produce a violation on this tree")
