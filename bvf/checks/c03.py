"""C03  Generated pack/unpack code is equivalent to field-by-field interpretation.

The library against itself, as the property states: the same declaration is rendered under
several combinations of generate_for_pack / generate_for_unpack / vectorize / annotate and
every variant is run in lock-step with the all-generic variant (the reference) on
  * inputs: valid (lazy-buffer generator), a sample of truncations, targeted corruptions, random;
  * values: consistent value trees (from successful parses) and ill-typed / out-of-range leaves.
Compared: ok/PacketError/other exception, field values, end offset, packed bytes.
"""
import itertools

from .. import common, driver, harness, model, monitors, render, workloads
from ..common import rng_for, b2j
from .c12 import mutate_tree

LEVEL = "exploration"
SHARDS = {"quick": 1, "thorough": 16}
REQUIRED = ("special_layout_comparisons", "special_layout_embed_in_variable_run_ok", "special_layout_size_from_optional_failing",
            "descriptor_hook_comparisons", "descriptor_hook_pack_comparisons", "descriptor_hook_comparisons_ok_onlyafter",
            "descriptor_hook_comparisons_ok_onlybefore", "descriptor_hook_comparisons_ok_both", "descriptor_hook_comparisons_ok_neither",
            "modify_after_unpack_compared", "unpack_compared", "pack_compared", "both_fail_compared", "struct_runs_generated", "illtyped_pack_compared",
            "variants_compared")
MIN_NONTRIVIAL = 150
RULE = {
    "quick": "~230 generated families biased towards what the code generator groups (runs of fixed-size fields with mixed endianness/"
             "signedness/Data(n)/odd widths between variable fields) x 5 option sets (all off = reference, all on, no-vectorize, unpack-only, "
             "no-annotate) x (6 valid inputs + every 2nd truncation + corruptions + random strings; value trees + ill-typed leaves). "
             "Plus 5 hand-written layouts x 4 user-written descriptors (no hook, sync_after_unpack only, sync_before_pack only, both) x all 16 "
             "option combinations x 12 inputs and 4 keyword constructions. "
             "Non-trivial = a comparison of a non-reference variant with the reference on one case; distinct = (skeleton, variant, case kind, outcome).",
    "thorough": "16 shards x 500 families x all 16 combinations of the four options.",
}
ASSUMPTIONS = [
    "the all-generic variant of the real library is the reference (as the property states); no model is involved",
    "values of the declared types only: a wrong-length bytes value for Data(n) is out of the declaration's domain and is not compared",
]

QUICK_VARIANTS = {
    "g": render.codegen_variant((0, 0, 1, 1)),
    "d": {},
    "nv": {"vectorize": False},
    "uo": {"generate_for_pack": False},
    "na": {"annotate": False},
}


def all_variants():
    out = {}
    for bits in itertools.product((0, 1), repeat=4):
        name = "v%d%d%d%d" % bits
        out["g" if bits == (0, 0, 0, 0) else name] = render.codegen_variant(bits)
    return out


def struct_runs(bench, variants):
    n = 0
    fmts = set()
    for v in variants:
        for name in bench.fam["order"]:
            src = bench.loaded.generated_source(name, v)
            if not src:
                continue
            import re as _re
            for line in src.splitlines():
                if "next_offset = offset +" in line:      # one per struct-coded run of the generated unpack code
                    n += 1
                for m in _re.finditer(r'"([<>][0-9a-zA-Z]+)"', line):
                    fmts.add(m.group(1))
    return n, fmts


def summarize_unpack(fam, r):
    if r.status == "ok":
        try:
            pv = monitors.pkt_to_pv(fam, fam["root"], r.pkt)
        except monitors.Unreadable as e:
            return ("unreadable", str(e))
        return ("ok", pv, r.end)
    if r.status == "packeterror":
        return ("packeterror",)
    if r.status == "timeout":
        return ("timeout",)
    return ("exception", r.etype)


def compare_unpack(run, bench, variants, label, raw, off=0):
    fam = bench.fam
    ref = summarize_unpack(fam, harness.lib_unpack(bench.root("g"), raw, off))
    if ref[0] == "timeout":
        run.count("watchdog_skipped")
        return None
    for v in variants:
        if v == "g":
            continue
        got = summarize_unpack(fam, harness.lib_unpack(bench.root(v), raw, off))
        run.count("unpack_compared")
        if got[0] == "timeout":
            run.count("watchdog_skipped")
            continue
        kind = label.split("@")[0]
        run.case(key=(bench.skeleton, v, "u", kind, ref[0]), nontrivial=True)
        if ref[0] != "ok" and got[0] == ref[0]:
            run.count("both_fail_compared")
        if got != ref:
            what = "unpack differs between generated variant and generic interpretation"
            if got[0] != ref[0]:
                what = "unpack outcome differs: generic %s, variant %s" % (ref[0], got[0])
            elif got[0] == "ok" and got[1] != ref[1]:
                what = "unpack yields different field values under generated code"
            elif got[0] == "ok":
                what = "unpack yields a different end offset under generated code"
            run.violation(what, {"source": render.family_src(fam, {"g": variants["g"], v: variants[v]}), "variant": v,
                                 "options": variants[v], "raw": b2j(raw), "offset": off, "input": label, "fam": fam,
                                 "generic": [x.to_json() if isinstance(x, model.PV) else x for x in ref],
                                 "generated": [x.to_json() if isinstance(x, model.PV) else x for x in got],
                                 "generated_module": bench.loaded.generated_source(fam["root"], v)}, None)
    return ref


def compare_pack(run, bench, variants, pv, desc, illtyped=False):
    fam = bench.fam
    results = {}
    for v in variants:
        try:
            pkt = monitors.build_packet(bench.loaded, v, pv, "kwargs")
        except Exception as e:
            results[v] = ("construct-failed", type(e).__name__)
            continue
        r = harness.lib_pack(pkt)
        if r.status == "ok":
            results[v] = ("ok", r.pkt)
        elif r.status == "packeterror":
            results[v] = ("packeterror",)
        elif r.status == "timeout":
            results[v] = ("timeout",)
        else:
            results[v] = ("exception", r.etype)
    ref = results["g"]
    if ref[0] == "timeout":
        return
    for v in variants:
        if v == "g":
            continue
        got = results[v]
        if got[0] == "timeout":
            continue
        run.count("pack_compared")
        if illtyped:
            run.count("illtyped_pack_compared")
        run.case(key=(bench.skeleton, v, "p", "ill" if illtyped else "ok", ref[0]), nontrivial=True)
        if ref[0] != "ok" and got[0] == ref[0]:
            run.count("both_fail_compared")
        if got != ref:
            run.violation("pack differs between generated variant and generic interpretation (generic %s, variant %s)" % (ref[0], got[0]),
                          {"source": render.family_src(fam, {"g": variants["g"], v: variants[v]}), "variant": v, "options": variants[v],
                           "values": pv.to_json(), "case": desc, "generic": ref, "generated": got, "fam": fam,
                           "generated_module": bench.loaded.generated_source(fam["root"], v)}, None)


def modify_after_unpack(run, bench, variants, raw, off, pv, rng):
    """Parse the same input under every variant, apply the same attribute assignments to each parsed packet,
    serialize, and compare with the generic variant (state kept by descriptors / bit groups between unpack and pack)."""
    fam = bench.fam
    decl = fam["decls"][fam["root"]]
    edits = []
    for f in decl["fields"]:
        if "rep" in f or "opt" in f or "describe" in f or f["t"] not in ("int", "data", "bits"):
            continue
        v = pv.vals.get(f["name"])
        tracked = any(g.get("describe", {}).get("of") == f["name"] for g in decl["fields"])
        if f["t"] == "data" and f["mode"] == "dyn" and tracked and isinstance(v, bytes):
            edits.append((f["name"], v + b"zz"))
            edits.append((f["name"], v[:-1]))
        elif f["t"] == "bits" and isinstance(v, int) and v:
            edits.append((f["name"], v & (v - 1)))
        elif f["t"] == "int" and not f.get("hint") and isinstance(v, int) and v > 0:
            edits.append((f["name"], v - 1))
    rng.shuffle(edits)
    for name, newv in edits[:3]:
        outs = {}
        for v in variants:
            r = harness.lib_unpack(bench.root(v), raw, off)
            if r.status != "ok":
                outs[v] = ("unpack-" + r.status,)
                continue
            try:
                setattr(r.pkt, name, newv)
            except Exception as e:
                outs[v] = ("setattr-raised", type(e).__name__)
                continue
            pr = harness.lib_pack(r.pkt)
            outs[v] = ("ok", pr.pkt) if pr.status == "ok" else (pr.status,)
            try:
                outs[v] += (monitors.pkt_to_pv(fam, fam["root"], r.pkt).to_json(),)
            except monitors.Unreadable:
                pass
        ref = outs["g"]
        for v in variants:
            if v == "g" or "timeout" in outs[v] or "timeout" in ref:
                continue
            run.count("modify_after_unpack_compared")
            run.case(key=(bench.skeleton, v, "m", ref[0]), nontrivial=True)
            if outs[v] != ref:
                run.violation("after unpack -> assign a field -> pack the generated variant differs from the generic interpretation",
                              {"source": render.family_src(fam, {"g": variants["g"], v: variants[v]}), "variant": v, "options": variants[v],
                               "raw": b2j(raw), "offset": off, "assigned": {name: model.val_json(newv)}, "generic": ref, "generated": outs[v],
                               "generated_module": bench.loaded.generated_source(fam["root"], v)}, None)
                return


HOOK_HEADER = render.HEADER + '''

class _UserDescriptor(object):
    # a user-written descriptor (duck typed: the class builder looks for the optional hooks _compile,
    # sync_before_pack and sync_after_unpack); the attribute is the real field
    def __get__(self, instance, owner):
        if instance is None:
            return self
        return getattr(instance, self.real_field_name)

    def __set__(self, instance, val):
        setattr(instance, self.real_field_name, val)


class Neither(_UserDescriptor):
    pass


class OnlyAfter(_UserDescriptor):
    def sync_after_unpack(self, instance):     # keep the low nibble of what was parsed
        setattr(instance, self.real_field_name, getattr(instance, self.real_field_name) & 0x0F)


class OnlyBefore(_UserDescriptor):
    def sync_before_pack(self, instance):      # always send the top bit
        setattr(instance, self.real_field_name, getattr(instance, self.real_field_name) | 0x80)


class Both(OnlyAfter, OnlyBefore):
    pass

'''

HOOK_LAYOUTS = [
    # (name, class bodies with %(D)s = descriptor expression and %(V)s = variant suffix, root class, field names to read)
    ("run", "class R%(V)s(Packet):\n    __bisturi__ = %(O)r\n    a = Int(1)\n    x = Int(1).describe(%(D)s)\n    b = Int(2)\n", "R", ["a", "x", "b"]),
    ("alone", "class R%(V)s(Packet):\n    __bisturi__ = %(O)r\n    n = Int(1)\n    d = Data(n)\n    x = Int(2).describe(%(D)s)\n    e = Data(until_marker=b';')\n", "R", ["n", "d", "x", "e"]),
    ("size", "class R%(V)s(Packet):\n    __bisturi__ = %(O)r\n    x = Int(1).describe(%(D)s)\n    d = Data(x)\n    t = Int(1)\n", "R", ["x", "d", "t"]),
    ("two", "class R%(V)s(Packet):\n    __bisturi__ = %(O)r\n    x = Int(1).describe(%(D)s)\n    y = Int(1, default=3).describe(%(D2)s)\n    z = Int(1)\n", "R", ["x", "y", "z"]),
    ("nested", "class S%(V)s(Packet):\n    __bisturi__ = %(O)r\n    x = Int(1).describe(%(D)s)\n    k = Int(1)\n\nclass R%(V)s(Packet):\n    __bisturi__ = %(O)r\n    h = Int(1)\n    s = Ref(S%(V)s)\n    l = Ref(S%(V)s).repeated(count=2)\n", "R", ["h", "s.x", "s.k", "l.0.x", "l.0.k", "l.1.x", "l.1.k"]),
]


SPECIAL_LAYOUTS = [
    # embedded packets (their fields are borrowed by the outer class; the Ref itself packs/unpacks nothing)
    ("embed_first", "class B%(V)s(Packet):\n    __bisturi__ = %(O)r\n    x = Int(1)\n    y = Int(2)\n\nclass R%(V)s(Packet):\n    __bisturi__ = %(O)r\n    e = Ref(B%(V)s, embed=True)\n    z = Int(1)\n",
     "R", ["x", "y", "z"]),
    ("embed_in_variable_run", "class B%(V)s(Packet):\n    __bisturi__ = %(O)r\n    hi = Bits(4)\n    lo = Bits(4)\n    w = Int(2)\n\nclass R%(V)s(Packet):\n    __bisturi__ = %(O)r\n    n = Int(1)\n    l = Int(1).repeated(n)\n    e = Ref(B%(V)s, embed=True)\n    t = Int(1)\n",
     "R", ["n", "l", "hi", "lo", "w", "t"]),
    ("embed_between_delimited", "class B%(V)s(Packet):\n    __bisturi__ = %(O)r\n    k = Data(until_marker=b';')\n    m = Int(1)\n\nclass R%(V)s(Packet):\n    __bisturi__ = %(O)r\n    a = Data(until_marker=b':')\n    e = Ref(B%(V)s, embed=True)\n    d = Data(until_marker=b';')\n",
     "R", ["a", "k", "m", "d"]),
    # a size / count taken from an optional field that may be absent (None): whatever the failure is, every option set fails alike
    ("size_from_optional", "class R%(V)s(Packet):\n    __bisturi__ = %(O)r\n    flags = Int(1)\n    n = Int(1).when(flags & 1)\n    d = Data(n)\n    t = Int(1)\n",
     "R", ["flags", "n", "d", "t"]),
    ("count_from_optional", "class R%(V)s(Packet):\n    __bisturi__ = %(O)r\n    flags = Int(1)\n    n = Int(1).when(flags & 1)\n    l = Int(2).repeated(n)\n    t = Int(1)\n",
     "R", ["flags", "n", "l", "t"]),
    # a position steered by a signed field: corrupted inputs put the cursor anywhere, also before the start of the data; whatever the
    # field loop makes of such an input (it reads with Python's slice rules), the generated code must make the same of it
    ("signed_shift", "class R%(V)s(Packet):\n    __bisturi__ = %(O)r\n    rel = Int(1, signed=True)\n    pad = Int(2)\n    body = Data(4).shift(rel)\n    tail = Int(2)\n",
     "R", ["rel", "pad", "body", "tail"]),
    ("signed_at", "class R%(V)s(Packet):\n    __bisturi__ = %(O)r\n    pad = Int(2)\n    pos = Int(1, signed=True)\n    body = Data(3).at(pos)\n    n = Int(3)\n",
     "R", ["pad", "pos", "body", "n"]),
    # an automatic length over a field that may be absent: when the descriptor's function raises while packing, every option set
    # must fail in the same way (whatever that way is)
    ("autolength_of_absent", "class R%(V)s(Packet):\n    __bisturi__ = %(O)r\n    flag = Int(1)\n    length = Int(1).describe(AutoLength('payload'))\n    payload = Data(length).when(flag)\n    t = Int(1)\n",
     "R", ["flag", "payload", "t"]),
    ("nested_size_from_optional", "class S%(V)s(Packet):\n    __bisturi__ = %(O)r\n    flags = Int(1)\n    n = Int(1).when(flags & 1)\n    d = Data(n)\n\nclass R%(V)s(Packet):\n    __bisturi__ = %(O)r\n    h = Int(1)\n    s = Ref(S%(V)s)\n    t = Int(1)\n",
     "R", ["h", "s.flags", "s.n", "s.d", "t"]),
]


def _read_path(pkt, path):
    v = pkt
    for part in path.split("."):
        v = v[int(part)] if part.isdigit() else getattr(v, part)
    return v


def descriptor_hooks_part(run, rng):
    """Declarations whose fields carry user-written descriptors with every subset of the optional hooks
    (none, sync_after_unpack only, sync_before_pack only, both): the generated code must call the same hooks
    at the same points as the field loop."""
    variants = all_variants()
    descs = ["Neither()", "OnlyAfter()", "OnlyBefore()", "Both()"]
    d = common.scratch_dir("bvf_c03h_")
    try:
        for lname, body, rootname, paths in HOOK_LAYOUTS + SPECIAL_LAYOUTS:
            special = (lname, body, rootname, paths) in SPECIAL_LAYOUTS
            for di, D in enumerate(descs if not special else ["(no descriptor)"]):
                D2 = descs[(di + 1 + rng.randrange(3)) % 4] if lname == "two" else D
                src = HOOK_HEADER + "\n".join(body % {"D": D, "D2": D2, "V": "_" + v, "O": variants[v]} for v in variants)
                try:
                    module, path = render.load_source(src, d)
                except Exception as e:
                    run.violation("a declaration with a user descriptor (%s) could not be defined under some option set: %s: %s"
                                  % (D, type(e).__name__, str(e)[:120]), {"source": src}, None)
                    continue
                ref_cls = getattr(module, rootname + "_g")
                inputs = [bytes(rng.randrange(256) for _ in range(rng.choice([0, 2, 3, 5, 8, 12, 20]))) for _ in range(10)]
                inputs += [bytes([3, 0xF5, 0x41, 0x42, 0x43, 0xF7, 0x3B, 0xF2, 0xF3, 0xF4, 0xF5, 0xF6]), b"\x02\xf1;\xf2\xf3;" + bytes(range(0xE0, 0xF0)),
                           b"ab:cd;\x07ef;gh", b"\x02\x01\x02\xa5\x01\x02\x09", b"\x00\x05abcde", b"\x01\x02ab\x09\x08", b"\x07\x01\x02ab\x09", b"\x07\x00\x02ab\x09"]
                if lname == "autolength_of_absent":
                    inputs += [b"\x00\x00\x07", b"\x00\x03\x07", b"\x01\x02ab\x07", b"\x00\x02ab\x07"]
                if lname in ("signed_shift", "signed_at"):
                    # every value of the steering byte x several payload lengths (the byte is the 1st / the 3rd of the input)
                    for L in (5, 8, 13):
                        payload = bytes(rng.randrange(1, 256) for _ in range(L))
                        for b in range(256):
                            inputs.append(bytes([b]) + payload if lname == "signed_shift" else payload[:2] + bytes([b]) + payload[2:])
                    run.count("special_layout_steering_byte_sweeps")
                for raw in inputs:
                    def observe(cls):
                        r = harness.lib_unpack(cls, raw)
                        if r.status != "ok":
                            return (r.status, getattr(r, "etype", None) if r.status == "exception" else None), None
                        try:
                            vals = [_read_path(r.pkt, p_) for p_ in paths]
                        except Exception as e:
                            return ("unreadable", type(e).__name__), None
                        pr = harness.lib_pack(r.pkt)
                        again = [_read_path(r.pkt, p_) for p_ in paths]
                        return ("ok", vals, r.end, pr.status, pr.pkt if pr.status == "ok" else None, again), r.pkt
                    want, _ = observe(ref_cls)
                    for v in variants:
                        if v == "g":
                            continue
                        got, _ = observe(getattr(module, rootname + "_" + v))
                        run.case(key=("hooks", lname, D, v, want[0]), nontrivial=True)
                        run.count("descriptor_hook_comparisons" if not special else "special_layout_comparisons")
                        if special:
                            run.count("special_layout_%s_%s" % (lname, "ok" if want[0] == "ok" else "failing"))
                        elif want[0] == "ok":
                            run.count("descriptor_hook_comparisons_ok_" + D.rstrip("()").lower())
                        if got != want and "timeout" not in repr(got)[:40] and "timeout" not in repr(want)[:40]:
                            run.violation("%s: the generated code (%s) and the field loop disagree on unpack values / end offset / "
                                          "pack bytes / values after pack" % (("layout '%s'" % lname) if special else ("with a user descriptor (%s)" % D), variants[v]),
                                          {"source": src, "layout": lname, "descriptor": D, "variant": v, "options": variants[v], "input": b2j(raw),
                                           "field_loop": common.to_json(want), "generated": common.to_json(got)}, None)
                            break
                # built by keyword arguments, then packed
                for trial in range(4):
                    kw = {}
                    top = [p_ for p_ in paths if "." not in p_]
                    for p_ in top:
                        if rng.random() < 0.7:
                            kw[p_] = bytes([rng.randrange(256)]) * rng.randrange(4) if p_ in ("d", "e") else rng.randrange(256)
                    def build(cls):
                        try:
                            pkt = cls(**kw)
                        except Exception as e:
                            return ("construct-exception", type(e).__name__)
                        pr = harness.lib_pack(pkt)
                        try:
                            vals = [_read_path(pkt, p_) for p_ in paths]
                        except Exception as e:
                            vals = type(e).__name__
                        return (pr.status, pr.pkt if pr.status == "ok" else None, vals)
                    want = build(ref_cls)
                    for v in variants:
                        if v == "g":
                            continue
                        got = build(getattr(module, rootname + "_" + v))
                        run.count("descriptor_hook_pack_comparisons")
                        if got != want and "timeout" not in repr(got)[:40] and "timeout" not in repr(want)[:40]:
                            run.violation("with a user descriptor (%s) the generated code (%s) and the field loop disagree on pack() of a constructed packet"
                                          % (D, variants[v]), {"source": src, "layout": lname, "descriptor": D, "variant": v, "options": variants[v],
                                                               "kwargs": common.to_json(kw), "field_loop": common.to_json(want), "generated": common.to_json(got)}, None)
                            break
                import sys as _sys
                _sys.modules.pop(module.__name__, None)
    finally:
        common.drop_scratch(d)


def run(run):
    shard, nshards = run.shard
    rng = rng_for(run.seed, "c03", shard)
    if shard == 0:
        descriptor_hooks_part(run, rng_for(run.seed, "c03hooks"))
    else:
        for k in ("special_layout_comparisons", "special_layout_embed_in_variable_run_ok", "special_layout_size_from_optional_failing",
                  "descriptor_hook_comparisons", "descriptor_hook_pack_comparisons", "descriptor_hook_comparisons_ok_onlyafter",
                  "descriptor_hook_comparisons_ok_onlybefore", "descriptor_hook_comparisons_ok_both", "descriptor_hook_comparisons_ok_neither"):
            run.count(k)
    variants = QUICK_VARIANTS if run.tier == "quick" else all_variants()
    nfam = 230 if run.tier == "quick" else 500
    profile = {
        "kinds": {"int": 50, "data": 28, "bits": 6, "ref": 8, "sel": 4, "em": 1},
        "int_widths": [1, 1, 2, 2, 4, 4, 8, 3, 5, 1, 2, 16],
        "p_rep": 0.1, "p_opt": 0.07, "p_move": 0.07, "p_class_endianness": 0.35, "max_fields": 7, "p_describe": 0.15,
    }
    run.extra["variants"] = {k: v for k, v in variants.items()}
    sampled = 0
    # positioned layouts (fields placed out of order, into holes, over each other): the vectorised code inserts a whole
    # run as one fragment where the field loop inserts field by field
    pos_profile = {"p_backrun": 0.5, "p_move": 0.55, "p_backward_at": 0.5, "max_fields": 6, "max_depth": 2, "p_rep": 0.05, "p_opt": 0.03,
                   "moves": {"at": 7, "shift": 3, "aligned": 1}, "kinds": {"int": 60, "data": 30, "bits": 4, "ref": 4, "sel": 0, "em": 2},
                   "int_widths": [1, 1, 2, 2, 4]}
    for bench in driver.families(run, rng, pos_profile, variants, nfam // 4, instrument=(), tag="c03p"):
        run.count("positioned_families")
        for j in range(8):
            raw, oc = model.generate_input(bench.fam, rng, maxlen=100)
            ref = compare_unpack(run, bench, variants, "valid@0", raw, 0)
            if ref is None or ref[0] != "ok":
                continue
            compare_pack(run, bench, variants, ref[1], "parsed value tree (positioned layout)")
            # sweep one-byte position fields so that runs land before / flush against / into other fields
            root = bench.fam["decls"][bench.fam["root"]]
            for steer in [f for f in root["fields"] if "pos" in (f.get("hint") or {}) and f["t"] == "int" and f["n"] == 1 and "rep" not in f and "opt" not in f][:2]:
                for val in range(0, 16):
                    m = model.copy_val(ref[1])
                    m.vals[steer["name"]] = val
                    compare_pack(run, bench, variants, m, "position sweep %s=%d" % (steer["name"], val))
        if run.counters["violations"] > 30:
            return
    for bench in driver.families(run, rng, profile, variants, nfam, instrument=(), tag="c03"):
        fam = bench.fam
        n, fmts = struct_runs(bench, variants)
        run.count("struct_runs_generated", n)
        run.count("variants_compared", len(variants) - 1)
        for f in fmts:
            run.cover("struct_formats", f)
        seen = set()
        for j in range(6):
            off = 0 if j < 4 else driver.start_offsets(fam, rng)[-1]
            raw, oc = model.generate_input(fam, rng, offset=off, maxlen=120)
            if raw in seen:
                continue
            seen.add(raw)
            ref = compare_unpack(run, bench, variants, "valid@0", raw, off)
            if ref is None or ref[0] != "ok":
                continue
            pv = ref[1]
            compare_pack(run, bench, variants, pv, "parsed value tree")
            modify_after_unpack(run, bench, variants, raw, off, pv, rng)
            st, mr = harness.model_parse(fam, raw, off)
            used = raw[:mr.trace.extent] if st == "ok" and mr.trace.extent <= len(raw) else raw
            for label, t in workloads.truncations(used, start=off, every=2):
                compare_unpack(run, bench, variants, label, t, off)
            for label, t in workloads.corruptions(fam, rng, used, mr if st == "ok" else None, n=4):
                compare_unpack(run, bench, variants, label, t, off)
            k = 0
            for desc, m in mutate_tree(fam, pv, rng):
                compare_pack(run, bench, variants, m, desc, illtyped=True)
                k += 1
                if k >= 6:
                    break
            if sampled < 3 and n:
                sampled += 1
                run.sample({"source": render.family_src(fam, {"d": {}}), "input": raw, "generated_module": bench.loaded.generated_source(fam["root"], "d" if "d" in variants else "v1111")})
        for label, t in workloads.random_strings(rng, 3):
            compare_unpack(run, bench, variants, label, t, 0)
        if run.counters["violations"] > 30:
            break


def replay(run, rec):
    w = rec["witness"]
    fam = common.from_json(w["fam"])
    variants = {"g": render.codegen_variant((0, 0, 1, 1)), w["variant"]: w["options"]}
    d = common.scratch_dir("bvf_replay_")
    bench = harness.Bench(fam, variants, d, instrument=())
    bench.skeleton = "replay"
    if "raw" in w:
        compare_unpack(run, bench, variants, w.get("input", "replay@0"), common.from_json(w["raw"]), w.get("offset", 0))
    else:
        compare_pack(run, bench, variants, model.val_from_json(w["values"]), w.get("case", "replay"))
